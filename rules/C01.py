"""C01 — the schedule runs step by step on all clients under any message timing (DESIGN.md section 4, C01).

Decides the protocol *skeleton* every interleaving relies on; interleavings themselves are not enumerated (that is model checking)."""
from __future__ import annotations

import ast
import collections
import itertools
import math

from sa import minieval as _me
from sa import pat as _pat
from sa import source
from sa.cfg import cfg_of
from sa.cfg import guards as _cfg_guards
from sa.classes import ActorModel, is_failure_send, is_logging_call, is_logging_stmt
from sa.source import AnchorMissing, dotted, inline, is_self_attr, last_attr, local_defs, package_calls, params_of, short, u, walk_body
from sa.sym import parse_expr, rat_equal

_D = "esrally/driver/driver.py"


def _says_nothing(t, pol=True):
    """a test that is a constant of the polarity it is taken with (`while True:` around a routine that leaves by return / break): it says nothing about WHEN the guarded node runs"""
    if isinstance(t, ast.UnaryOp) and isinstance(t.op, ast.Not):
        return _says_nothing(t.operand, not pol)
    return isinstance(t, ast.Constant) and bool(t.value) == pol


def guards(node, *a, **k):
    """sa.cfg.guards without the constant tests of endless loops: the conditions a node runs under are the same whether a routine repeats itself by recursion or by `while True:`"""
    return [(t, pol) for t, pol in _cfg_guards(node, *a, **k) if not _says_nothing(t, pol)]


def _fact_nodes(node, *a, **k):
    """sa.pat.fact_nodes without constant facts (see guards)"""
    return [f for f in _pat.fact_nodes(node, *a, **k) if not _says_nothing(f)]


def _has_jump(loop):
    """break/continue/return directly controlling this loop (not nested function bodies)."""
    for n in source.walk_local(loop, include_root=False):
        if isinstance(n, (ast.Break, ast.Continue, ast.Return)):
            return True
    return False


def _call_fact(node, name, positive, stop=None):
    """a guard fact of node (polarity-insensitive: negations pushed in, conjunctions split) is the call `<x>.name(...)` (positive) / its negation; the result of the call may have
    been stored in a single-assignment local first (`done = self.finished()` ... `if done:`)."""
    fn = source.enclosing_func(node)
    held = {k for k, v in (local_defs(fn).items() if fn is not None else []) if isinstance(v, ast.Call) and last_attr(v.func) == name}
    for f in _fact_nodes(node, stop=stop):
        if isinstance(f, ast.Name) and f.id in held and positive:
            return True
        if isinstance(f, ast.UnaryOp) and isinstance(f.op, ast.Not) and isinstance(f.operand, ast.Name) and f.operand.id in held and not positive:
            return True
        if not positive and isinstance(f, ast.UnaryOp) and isinstance(f.op, ast.Not):
            f = f.operand
        elif not positive:
            continue
        if isinstance(f, ast.Call) and last_attr(f.func) == name:
            return True
    return False


def _is_not(f, pred):
    return isinstance(f, ast.UnaryOp) and isinstance(f.op, ast.Not) and pred(f.operand)


def _value_at(e, scope, fdefs, env, subst=None, depth=0):
    """value of the expression e (a condition somewhere in `scope`) on representative inputs `env` (minieval; raises CannotEval). Locals are followed by data flow instead of being
    matched by name: a single-assignment local of the function is replaced by what it was assigned from (`fdefs`); a local that is assigned in several arms inside `scope`
    (`if a: x = E1 else: x = E2`) takes the value of the ONE assignment whose own conditions hold on these inputs. `subst(expr) -> expr` gives chosen sub-expressions (polls of an
    event, clock reads) their representative value before evaluation. A local that cannot be resolved stays unbound: the evaluation fails only if it really needs it."""
    if depth > 6:
        raise _me.CannotEval("nesting of locals")
    e1 = source.inline_node(e, fdefs)
    if subst is not None:
        e1 = ast.fix_missing_locations(subst(e1))
    env = dict(env)
    for nm in sorted({x.id for x in ast.walk(e1) if isinstance(x, ast.Name) and isinstance(x.ctx, ast.Load)} - set(env)):
        live = []
        for a in ast.walk(scope):
            if not (isinstance(a, ast.Assign) and len(a.targets) == 1 and isinstance(a.targets[0], ast.Name) and a.targets[0].id == nm):
                continue
            try:
                if all(bool(_value_at(t, scope, fdefs, env, subst, depth + 1)) == pol for t, pol in guards(a, stop=scope, path_sensitive=True)):
                    live.append(a)
            except _me.CannotEval:
                live += [a, a]  # may or may not be the assignment that is executed: the local has no single value
        if len(live) == 1:
            try:
                env[nm] = _value_at(live[0].value, scope, fdefs, env, subst, depth + 1)
            except _me.CannotEval:
                pass
    return _me.ev(e1, env)


def _event_polls(values):
    """subst for _value_at: a poll `self.<attr>.is_set()` of one of the given event attributes reads values[attr]"""

    class _P(ast.NodeTransformer):
        def visit_Call(self, n):
            self.generic_visit(n)
            if isinstance(n.func, ast.Attribute) and n.func.attr == "is_set" and not n.args and not n.keywords and is_self_attr(n.func.value) and n.func.value.attr in values:
                return ast.copy_location(ast.Constant(value=values[n.func.value.attr]), n)
            return n

    return lambda e: _P().visit(e)


def _executed_on(node, scope, fdefs, env, events, stop=None):
    """is `node` executed on the representative inputs `env`? The conditions on the way to it (enclosing tests and guard clauses, either polarity, any boolean structure) are
    EXTRACTED and evaluated (_value_at); the polls of the request events `events` are free inputs: both outcomes are tried.
      ('yes', [])     every condition holds for some outcome of the polls
      ('no', [])      whatever the polls say, some condition is definitely violated
      ('open', [..])  otherwise: the listed conditions read something that has no representative value"""
    conds = guards(node, stop=stop, path_sensitive=True)
    verdicts, open_ = [], []
    for pv in (False, True):
        state = "yes"
        for t, pol in conds:
            try:
                v = bool(_value_at(t, scope, fdefs, env, _event_polls({a: pv for a in events})))
            except _me.CannotEval:
                state = "open"
                if inline(t, fdefs) not in open_:
                    open_.append(inline(t, fdefs))
                continue
            if v != pol:
                state = "no"
                break
        verdicts.append(state)
    if "yes" in verdicts:
        return "yes", []
    if all(v == "no" for v in verdicts):
        return "no", []
    return "open", open_


def _loop_pass(XL, outer_defs, env, subst):
    """one pass through the body of the loop XL on representative inputs, statement by statement (a local assigned several times holds what the LAST executed assignment gave it):
    'exit' (break / return reached), 'next' (continue), 'raise', None (the body runs to its end). Expressions are evaluated by minieval after `subst` and after replacing the
    single-assignment locals defined outside the loop; what cannot be evaluated is forgotten (the local becomes unbound) unless a decision about an exit depends on it: CannotEval."""
    env = dict(env)

    def val(e):
        try:
            return _me.ev(ast.fix_missing_locations(subst(source.inline_node(e, outer_defs))), env)
        except (TypeError, ValueError, AttributeError) as x:
            raise _me.CannotEval(f"{short(e, 40)}: {type(x).__name__}")

    def stored(stmts):
        return {x.id for s_ in stmts for x in ast.walk(s_) if isinstance(x, ast.Name) and isinstance(x.ctx, (ast.Store, ast.Del))}

    def leaves(stmts):
        return any(isinstance(x, (ast.Break, ast.Return, ast.Continue, ast.Raise)) for s_ in stmts for x in ast.walk(s_))

    def block(stmts):
        for s_ in stmts:
            if isinstance(s_, (ast.Break, ast.Return)):
                return "exit"
            if isinstance(s_, ast.Continue):
                return "next"
            if isinstance(s_, ast.Raise):
                return "raise"
            if isinstance(s_, ast.If):
                try:
                    t_ = bool(val(s_.test))
                except _me.CannotEval as x:
                    if leaves(s_.body + s_.orelse):
                        raise _me.CannotEval(f"`{short(s_.test, 50)}` decides about leaving the loop: {x}")
                    for nm in stored(s_.body + s_.orelse):
                        env.pop(nm, None)
                    continue
                r = block(s_.body if t_ else s_.orelse)
                if r:
                    return r
            elif isinstance(s_, ast.Assign) and len(s_.targets) == 1 and isinstance(s_.targets[0], ast.Name):
                try:
                    env[s_.targets[0].id] = val(s_.value)
                except _me.CannotEval:
                    env.pop(s_.targets[0].id, None)
            elif isinstance(s_, (ast.With, ast.AsyncWith)):
                for nm in stored([i_.optional_vars for i_ in s_.items if i_.optional_vars is not None]):
                    env.pop(nm, None)
                r = block(s_.body)
                if r:
                    return r
            elif isinstance(s_, ast.Try):
                r = block(s_.body) or block(s_.orelse)
                r2 = block(s_.finalbody)
                if r2 or r:
                    return r2 or r
            elif isinstance(s_, (ast.For, ast.AsyncFor, ast.While)):
                if any(isinstance(x, ast.Return) for x in ast.walk(s_)):
                    raise _me.CannotEval(f"nested loop at line {s_.lineno} may leave the routine")
                for nm in stored([s_]):
                    env.pop(nm, None)
            else:
                for nm in stored([s_]):
                    env.pop(nm, None)
        return None

    return block(XL.body)


def _task_env(completes, any_, **more):
    """the executor of client 0 of a task with the given completed-by flags (two clients); `more`: further locals (the loop variables of the request loop ...)"""
    return dict({"self": _me.Record(client_id=0, task=_me.Record(completes_parent=completes, any_completes_parent=any_, clients=2))}, **more)


def complete_read_exemption_rule(chk, rid, drv, ends_others=False):
    """AsyncExecutor.__call__: the shared complete event may end the request loop only for a task that does NOT itself complete its parent — several clients of the completing task
    share the worker's event and the first of them to finish sets it; its siblings must go on until their own runner / iteration count is done. Shared with C05 (each client executes
    exactly warm-up + measurement iterations). Decided on VALUES: for every exit of the request loop that a poll of the event controls (directly in a condition on the way to it, or
    through locals of the loop, whatever their names; the callee may be a hoisted bound method or a private helper of the executor), the conditions on the way to the exit are
    extracted and evaluated for a client of the completing task whose own runner is not done, once with the event set and once with the event not set: the exit must not be taken
    because of the event. The spelling of the exemption (an if/else around the poll, `not completes_parent and poll`, a conditional expression ...) plays no role; where the
    conditions cannot be evaluated the written guard of the poll decides (`not completes_parent` among its guard facts), else the shape is reported as not recognised. The event
    attribute itself is located by data flow (the threading.Event the worker sets in its CompleteCurrentTask handler and hands down)."""
    from sa import pat as _pat
    ex_call = drv.methods(drv.cls("AsyncExecutor")).get("__call__")
    if ex_call is None:
        raise AnchorMissing("AsyncExecutor.__call__")
    ex_call = _expand(ex_call, drv.repo)  # a poll extracted into a private helper of the executor is seen in place
    edefs = local_defs(ex_call)
    xloops = [n for n in walk_body(ex_call) if isinstance(n, ast.AsyncFor)] or [n for n in walk_body(ex_call) if isinstance(n, (ast.For, ast.While))]
    if not xloops:
        raise AnchorMissing("request loop in AsyncExecutor.__call__")
    XL = xloops[0]
    try:
        revs = request_events(drv.repo, drv)
        done = [a for a, (_, setters) in revs.items() if "receiveMsg_CompleteCurrentTask" in setters]
    except AnchorMissing:
        revs, done = {}, []
    done = done[0] if len(done) == 1 else "complete"
    quiet = {a: False for a in revs if a != done} or ({"cancel": False} if done == "complete" else {})  # no other request (cancel) has reached the worker

    def _reads_complete(e):
        return any(isinstance(x, ast.Call) and u(x.func) == f"self.{done}.is_set" for x in ast.walk(source.inline_node(e, edefs)))

    def _exempt(node):
        return any(inline(f_, edefs) in ("not self.task.completes_parent",) for f_ in _fact_nodes(node, stop=XL))

    # what the loop hands to its body per iteration that has a bearing on "is this client's own work done": the runner says it is not
    loopvars = {x.id: _me.Record(completed=False, percent_completed=None) for x in ast.walk(XL.target) if isinstance(x, ast.Name)} if isinstance(XL, (ast.For, ast.AsyncFor)) else {}

    def _taken(ex_, event_set):
        """the exit is taken by a client of the completing task whose own runner is not done, with the event set / not set"""
        env = _task_env(True, False, **loopvars)
        return all(bool(_value_at(t, XL, edefs, env, _event_polls(dict(quiet, **{done: event_set})))) == pol for t, pol in guards(ex_, stop=XL, path_sensitive=True))

    # the polls of the event inside the loop (the callee may be a hoisted bound method) and, per exit of the loop, the polls that control it: directly in a condition on the
    # way to the exit, or through a local of the loop that such a condition reads
    polls = [c for c in ast.walk(XL) if isinstance(c, ast.Call) and not c.args and inline(c.func, edefs) == f"self.{done}.is_set"]
    exits = [n for n in ast.walk(XL) if isinstance(n, (ast.Break, ast.Return)) and source.enclosing(n, (ast.AsyncFor, ast.For, ast.While)) is XL]
    n_ctl = 0
    for ex_ in exits:
        ctl = []
        for t, pol in guards(ex_, stop=XL, path_sensitive=True):
            names = {x.id for x in ast.walk(t) if isinstance(x, ast.Name)}
            for _ in range(2):  # locals computed from locals (one further hop)
                names |= {x.id for a_ in ast.walk(XL) if isinstance(a_, ast.Assign) and any(isinstance(tg, ast.Name) and tg.id in names for tg in a_.targets)
                          for x in ast.walk(a_.value) if isinstance(x, ast.Name)}
            for r_ in polls:
                st_ = source.enclosing_stmt(r_)
                direct = any(r_ is x for x in ast.walk(t))
                via = isinstance(st_, ast.Assign) and any(isinstance(tg, ast.Name) and tg.id in names for tg in st_.targets)
                if (direct or via) and not any(r_ is x for x in ctl):
                    ctl.append(r_)
        if not ctl:
            continue
        try:
            with_event, without_event = _taken(ex_, True), _taken(ex_, False)
            decided, why_not = True, ""
        except _me.CannotEval as x:
            decided, why_not = False, str(x)
        for r_ in ctl:
            st_ = source.enclosing_stmt(r_)
            n_ctl += 1
            what = f"`{short(st_, 70)}` controls `{type(ex_).__name__.lower()}` at line {ex_.lineno}"
            if decided:
                ok = with_event == without_event
                detail = what + f": a client of the completing task whose runner is not done leaves the loop: event set -> {with_event}, event not set -> {without_event}" \
                    + ("" if ok else " (the event ends the completing task's own clients too)")
            elif _exempt(r_):
                ok, detail = True, what + " under `not completes_parent`"
            else:
                chk.unknown(rid, f"executor: {what}, but the conditions of that exit cannot be evaluated for a client of the completing task ({why_not}) and the poll is not "
                                 "written under `not completes_parent` (shape not recognised)", st_)
                continue
            chk.ob(rid, "executor: the complete event ends the loop only when the task does not complete its parent itself", ok, st_, detail,
                   key=f"{_D}:AsyncExecutor.__call__:complete-read:{short(st_, 60)}")
    if n_ctl > 0 and ends_others:  # C01 only (C05 shares the exemption above, not this clause)
        # the other direction (completed-by ENDS the other tasks): a client of a task that does not complete its parent, whose own runner is not done - it reports no completion
        # at all (None: most runners) or says "not yet" (False: runners that track their own progress) -, leaves the request loop after the current request once the event is set.
        # One pass through the loop body is interpreted statement by statement for both answers of the runner
        outer = {k: v for k, v in edefs.items() if k not in {x.id for x in ast.walk(XL) if isinstance(x, ast.Name) and isinstance(x.ctx, (ast.Store, ast.Del))}}
        res, why = {}, None
        for cv in (None, False):
            lv = {x.id: _me.Record(completed=cv, percent_completed=None) for x in ast.walk(XL.target) if isinstance(x, ast.Name)} if isinstance(XL, (ast.For, ast.AsyncFor)) else {}
            try:
                res[cv] = (_loop_pass(XL, outer, _task_env(False, False, **lv), _event_polls(dict(quiet, **{done: True}))),
                           _loop_pass(XL, outer, _task_env(False, False, **lv), _event_polls(dict(quiet, **{done: False}))))
            except _me.CannotEval as x:
                why = str(x)
                break
        if why is not None:
            chk.unknown(rid, f"executor: one pass through the request loop cannot be interpreted for a client of a task that does not complete its parent ({why}) (shape not recognised)", XL)
        else:
            bad = [cv for cv, (with_, _) in res.items() if with_ != "exit"]
            chk.ob(rid, "executor: the complete event ends the request loop of every task that does not complete its parent, whatever its runner says about its own completion",
                   not bad, XL, "; ".join(f"runner.completed = {cv}: event set -> {w_ or 'goes on'}, event not set -> {wo_ or 'goes on'}" for cv, (w_, wo_) in res.items())
                   + ("" if not bad else f": with runner.completed = {bad[0]} the client goes on issuing requests although the element has been completed"),
                   key=f"{_D}:AsyncExecutor.__call__:complete-read:ends-others")
    if n_ctl == 0:
        polled = [n for n in walk_body(ex_call) if isinstance(n, ast.expr) and not isinstance(n, (ast.Name, ast.Attribute, ast.Constant)) and _reads_complete(n)] + \
                 [n for n in walk_body(ex_call) if is_self_attr(n, done) and isinstance(n.ctx, ast.Load) and not (isinstance(source.parent(n), ast.Attribute) and source.parent(n).attr in ("set", "clear"))]
        if polled:
            chk.unknown(rid, f"executor: self.{done} is read in AsyncExecutor.__call__ but no exit of the request loop could be connected to it (shape not recognised)", polled[0])
        else:
            chk.ob(rid, "executor: the request loop of a non-completing task ends on the complete event", False, XL, "no loop exit depends on complete.is_set(): completed-by never ends the other tasks",
                   key=f"{_D}:AsyncExecutor.__call__:complete-read:none")


def executor_wiring(chk, rid, drv):
    """AsyncIoAdapter.run hands each executor the client id of ITS row pair (not the allocation's logical slot) and the worker's shared sampler — shared with C04 / C07:
    samples are filed under the id given here. Roles by data flow: the loop is the one around the AsyncExecutor(...) construction, the client id is the first element it unpacks,
    the sampler argument is followed back (adapter attribute <- adapter constructor parameter <- Worker's construction of the adapter) to the worker attribute that holds Sampler(...)."""
    repo = drv.repo
    AD = drv.cls("AsyncIoAdapter")
    arun = drv.methods(AD).get("run")
    einit = drv.methods(drv.cls("AsyncExecutor")).get("__init__")
    ainit = drv.methods(AD).get("__init__")
    if arun is None or einit is None or ainit is None:
        raise AnchorMissing("AsyncIoAdapter.run / AsyncIoAdapter.__init__ / AsyncExecutor.__init__")
    exs = [n for n in walk_body(arun) if isinstance(n, ast.Call) and last_attr(n.func) == "AsyncExecutor"]
    if not exs:
        raise AnchorMissing("AsyncExecutor(...) in AsyncIoAdapter.run")
    loop = source.enclosing(exs[0], (ast.For, ast.While, ast.ListComp, ast.GeneratorExp, ast.SetComp, ast.DictComp))
    if not isinstance(loop, ast.For) or not isinstance(loop.target, ast.Tuple) or not loop.target.elts or not isinstance(loop.target.elts[0], ast.Name):
        raise AnchorMissing("`for client_id, task_allocation in <the adapter's allocations>` around AsyncExecutor(...) in AsyncIoAdapter.run")
    cidv = loop.target.elts[0].id
    ldefs = {n.targets[0].id: n.value for n in ast.walk(loop) if isinstance(n, ast.Assign) and len(n.targets) == 1 and isinstance(n.targets[0], ast.Name)}
    ldefs = {k: v for k, v in ldefs.items() if sum(1 for n in ast.walk(loop) if isinstance(n, ast.Name) and n.id == k and isinstance(n.ctx, ast.Store)) == 1}
    b = source.bind_args(exs[0], einit)
    ep = [p for p in params_of(einit) if p != "self"]
    # the executor parameter that becomes the container the samples are added to: stored as self.<attr>, and self.<attr>.add(...) is called (possibly through a hoisted bound method)
    ex_attr = _attr_from_param(einit)
    ex_call = drv.methods(drv.cls("AsyncExecutor")).get("__call__")
    xdefs = local_defs(ex_call) if ex_call is not None else {}
    adders = {inline(c.func, xdefs) for c in (source.calls_in(ex_call) if ex_call is not None else [])}
    sp = sorted({p_ for a_, p_ in ex_attr.items() if f"self.{a_}.add" in adders})
    sp = sp[0] if len(sp) == 1 else ("sampler" if "sampler" in ep else None)
    ad_from = _attr_from_param(ainit)
    sites = [c for c in _calls_named(repo, drv, "AsyncIoAdapter") if source.enclosing_class(c) is not None and source.enclosing_class(c).name == "Worker"]
    e = source.inline_node(b[sp], ldefs) if sp in b else None
    q = ad_from.get(e.attr) if e is not None and is_self_attr(e) else None
    srcs = {a.attr if a is not None and is_self_attr(a) else None for a in (source.bind_args(c, ainit).get(q) for c in sites)} if q and sites else {None}
    wsrc = srcs.pop() if len(srcs) == 1 else None
    wcls = drv.cls("Worker")
    w_sampler = sorted({n.targets[0].attr for m in drv.methods(wcls).values() for n in walk_body(m) if isinstance(n, ast.Assign) and len(n.targets) == 1 and is_self_attr(n.targets[0])
                        and isinstance(n.value, ast.Call) and last_attr(n.value.func) == "Sampler"})
    cid_txt = u(source.inline_node(b[ep[0]], ldefs)) if ep and ep[0] in b else None
    if sp is None or e is None or len(w_sampler) != 1 or (wsrc is None and is_self_attr(e) and q is not None and not sites):
        chk.unknown(rid, "the sampler argument of AsyncExecutor(...) cannot be followed back to the worker (shape not recognised)", exs[0])
    else:
        ok = cid_txt == cidv and wsrc == w_sampler[0]
        chk.ob(rid, "executor is created with the client id of its row pair and the worker's sampler", ok, exs[0], f"{ep[0]}={cid_txt} {sp}={u(e)} (worker attribute: {wsrc})",
               key="esrally/driver/driver.py:AsyncIoAdapter.run:executor-client-id")
    st = [n for n in walk_body(einit) if isinstance(n, ast.Assign) and len(n.targets) == 1 and is_self_attr(n.targets[0]) and u(n.value) == ep[0]]
    # the id is kept under one attribute, and that attribute is what the executor files its samples under (second argument of the add call) - or, as before, it simply keeps the name
    ok = len(st) == 1
    detail = ""
    sadd = drv.methods(drv.cls("Sampler")).get("add")
    add_calls = [c for c in (source.calls_in(ex_call) if ex_call is not None else []) if any(inline(c.func, xdefs) == f"self.{a_}.add" for a_ in ex_attr)]
    if ok and sadd is not None and len(add_calls) == 1:
        ba = source.bind_args(add_calls[0], sadd)
        idp = [p_ for p_ in params_of(sadd) if p_ == "client_id"]
        if idp and idp[0] in ba:
            filed = inline(ba[idp[0]], xdefs)
            ok = filed == f"self.{st[0].targets[0].attr}"
            detail = f"samples are filed under {filed}"
    chk.ob(rid, "executor keeps the id it was given", ok, st[0] if st else einit, detail, key="esrally/driver/driver.py:AsyncExecutor.__init__:client-id")


def _attr_from_param(init):
    """`self.<attr> = <param>` stores of a constructor: attr -> parameter name."""
    ps = set(params_of(init)) if init is not None else set()
    out = {}
    for n in (walk_body(init) if init is not None else []):
        if isinstance(n, ast.Assign) and len(n.targets) == 1 and is_self_attr(n.targets[0]) and isinstance(n.value, ast.Name) and n.value.id in ps:
            out[n.targets[0].attr] = n.value.id
    return out


def _calls_named(repo, drv, name):
    """call sites of `name`: package-wide when the package index exists already (C01 builds it anyway), else in the driver module only - the shared rule functions are imported by
    checks that parse nothing but the driver module, and the classes concerned are constructed there"""
    if getattr(repo, "_call_index", None) is not None:
        return package_calls(repo, name)
    return [n for n in ast.walk(drv.tree) if isinstance(n, ast.Call) and last_attr(n.func) == name]


def request_events(repo, drv):
    """Executor attributes that hold one of the worker's REQUEST events: a threading.Event the Worker creates for itself, sets in its own message handlers (a request that reaches the
    worker from outside: cancel, complete) and hands down Worker -> AsyncIoAdapter -> AsyncExecutor. Roles by data flow: constructor argument -> `self.<attr> = <param>`, hop by hop,
    at every construction site. Returns {executor attribute: (worker attribute, names of the Worker methods that set it)}; an attribute whose chain cannot be followed is not listed."""
    EX, AD, WK = drv.cls("AsyncExecutor"), drv.cls("AsyncIoAdapter"), drv.cls("Worker")
    einit, ainit, wm = drv.methods(EX).get("__init__"), drv.methods(AD).get("__init__"), drv.methods(WK)
    if einit is None or ainit is None or wm.get("__init__") is None:
        raise AnchorMissing("constructors of AsyncExecutor / AsyncIoAdapter / Worker")
    w_events = {}
    wv = _class_view(drv, WK, repo)  # a set() extracted into a private helper of a handler counts for that handler
    for n in walk_body(wm["__init__"]):
        if isinstance(n, ast.Assign) and len(n.targets) == 1 and is_self_attr(n.targets[0]) and isinstance(n.value, ast.Call) and last_attr(n.value.func) == "Event":
            setters = sorted(m.name for m in wv.values() for c in walk_body(m) if isinstance(c, ast.Call) and isinstance(c.func, ast.Attribute) and c.func.attr == "set"
                             and is_self_attr(c.func.value, n.targets[0].attr))
            if setters:
                w_events[n.targets[0].attr] = setters

    def hop(ctor_name, init, owner):
        """callee parameter -> the attribute of `owner` passed for it at every construction site (None when sites disagree or pass something else)"""
        sites = [c for c in _calls_named(repo, drv, ctor_name) if isinstance(c.func, (ast.Name, ast.Attribute))]
        out = {}
        for p in params_of(init):
            vals = set()
            for c in sites:
                a = source.bind_args(c, init).get(p)
                cls = source.enclosing_class(c)
                vals.add(a.attr if a is not None and is_self_attr(a) and cls is owner else None)
            if len(vals) == 1 and None not in vals:
                out[p] = vals.pop()
        return out

    ex_from_ad = hop("AsyncExecutor", einit, AD)
    ad_from_wk = hop("AsyncIoAdapter", ainit, WK)
    ad_attr = _attr_from_param(ainit)
    out = {}
    for a, p in _attr_from_param(einit).items():
        x = ex_from_ad.get(p)
        q = ad_attr.get(x) if x else None
        y = ad_from_wk.get(q) if q else None
        if y in w_events:
            out[a] = (y, w_events[y])
    return out


def completing_client_signal_rule(chk, rid, repo, drv):
    """F44. The task named by completed-by is done when ALL its clients are done (Driver.may_complete_current_task waits for every one of them), but the complete event is worker-wide:
    every other executor of the worker polls it and Worker.drive skips all rows up to the join point once it is set. Decided on values for the scenario
        the worker hosts clients 0 and 1 of the named task (2 clients); no cancel / complete request has reached the worker; client 0 finishes first:
    the conditions that control each `.set()` of that event in the executor are EXTRACTED and evaluated for client 0. If they all hold and read nothing but the task's static
    configuration, the client id and the request events, the decision is the same for the first client to finish as for the last: the first one ends the sibling tasks and the
    remaining clients / later rows of the named task itself. A condition that reads anything else (a count of outstanding clients shared by the executors, a per-worker tracker, ...)
    makes the decision depend on the other clients' progress and satisfies this necessary condition."""
    from sa.minieval import CannotEval, Record, ev as _ev
    EX = drv.cls("AsyncExecutor")
    ex_call = drv.methods(EX).get("__call__")
    if ex_call is None:
        raise AnchorMissing("AsyncExecutor.__call__")
    ex_call = _expand(ex_call, repo)  # a completion signal extracted into a private helper of the executor is seen in place
    edefs = local_defs(ex_call)
    revs = request_events(repo, drv)
    # the completion event: the request event that the worker's CompleteCurrentTask handler sets
    done_attrs = [a for a, (_, setters) in revs.items() if "receiveMsg_CompleteCurrentTask" in setters]
    if len(done_attrs) != 1:
        raise AnchorMissing("executor attribute holding the worker's completion event (threading.Event set by Worker.receiveMsg_CompleteCurrentTask and passed Worker -> AsyncIoAdapter -> AsyncExecutor)")
    done = done_attrs[0]
    sets = [n for n in walk_body(ex_call) if isinstance(n, ast.Call) and isinstance(n.func, ast.Attribute) and n.func.attr == "set" and is_self_attr(n.func.value, done)]

    class _Quiet(ast.NodeTransformer):
        """no request has reached the worker: every request event polls as not set"""

        def visit_Call(self, n):
            self.generic_visit(n)
            if isinstance(n.func, ast.Attribute) and n.func.attr == "is_set" and not n.args and not n.keywords and is_self_attr(n.func.value) and n.func.value.attr in revs:
                return ast.copy_location(ast.Constant(value=False), n)
            return n

    env = {"self": Record(client_id=0, task=Record(completes_parent=True, any_completes_parent=False, clients=2))}
    fired = 0
    for s in sets:
        holds, open_ = [], []
        reached = True
        for t, pol in guards(s, path_sensitive=True):
            txt = u(source.inline_node(t, edefs))  # the condition as written, single-assignment locals resolved to what they were assigned from
            e = ast.fix_missing_locations(_Quiet().visit(source.inline_node(t, edefs)))
            try:
                v = bool(_ev(e, dict(env)))
            except CannotEval:
                open_.append(txt)
                continue
            if v != pol:
                reached = False
                break
            holds.append(txt if pol else f"not ({txt})")
        if not reached:
            continue  # e.g. the signal of a `completed-by: any` task: not executed by a client of a NAMED task
        fired += 1
        ok = bool(open_)
        chk.ob(rid, "executor: a client of the task named by completed-by that finishes before another client of that task does not set the worker-wide complete event on its own account",
               ok, s, (f"`{u(s)}` additionally depends on {open_}" if ok else
                       f"`{u(s)}` is executed by client 0 while client 1 of the task still runs: controlled only by {holds or ['nothing']}, which holds for the first client to finish "
                       "as for the last. The sibling tasks of this worker are cut and its remaining clients / later rows of the named task are skipped although the task is done only "
                       "when ALL its clients are (the coordinator waits for all of them)"),
               key=f"{_D}:AsyncExecutor.__call__:completing-client-sets-shared-event" + ("" if fired == 1 else f":{fired}"))
    if fired == 0:
        chk.ob(rid, "executor: a client of the task named by completed-by that finishes before another client of that task does not set the worker-wide complete event on its own account",
               True, ex_call, f"none of the {len(sets)} set site(s) of self.{done} is executed in this scenario", key=f"{_D}:AsyncExecutor.__call__:completing-client-sets-shared-event")


# ---------------------------------------------------------------------------------------------------------------------------------------------
# Local helper (not in sa/): a small CONCRETE interpreter for extracted functions on representative model values. minieval.ev evaluates pure expressions only; deciding the
# allocation matrix "on values" needs statements, loops, mutable lists, helper methods of the same class and constructors. Nothing of the repository is imported or executed:
# the statements of the analysed functions are walked as syntax trees. Anything outside the interpreted subset raises _Cannot (the rule then reports "not recognised").


_CACHED_PROPS = {"functools.cached_property", "cached_property"}


def _is_property(fn):
    """the method is read as an attribute: @property or a cached property (computed on first access, then kept)"""
    return bool({dotted(d.func if isinstance(d, ast.Call) else d) for d in fn.decorator_list} & ({"property"} | _CACHED_PROPS))


class _Cannot(Exception):
    """the construct is outside the interpreted subset / has no representative value: inconclusive, never a verdict"""


class _Raised(Exception):
    """the interpreted code executed a `raise`"""

    def __init__(self, node):
        super().__init__(short(node, 80))
        self.node = node


class _Opaque:
    """a value without a representative (logger, clock, configuration ...): it may be stored and passed on; attribute reads and calls on it give another opaque value;
    anything that needs its VALUE (arithmetic, a branch, an iteration) is _Cannot unless the rule supplied a choice oracle."""

    def __init__(self, what):
        self.what = what

    def __repr__(self):
        return f"<?{self.what}>"


class _Obj:
    """model instance: fields set by the interpreted constructor / by the rule; cls = ClassDef node of the analysed source (None for a pure model value)"""

    def __init__(self, cls=None, items=None, **fields):
        self.cls = cls
        self.fields = dict(fields)
        self.items = items  # what iterating the object yields (None: not iterable)
        self.init_args = {}

    def __repr__(self):
        return f"<{self.cls.name if self.cls is not None else 'model'} {self.fields.get('_label', '')}>"


class _Rec(_Obj):
    """model of a named-tuple record - `X = collections.namedtuple("X", ...)` as well as a class-based `class X(typing.NamedTuple)` (cls = its ClassDef, so that methods / properties
    of the class and isinstance() keep working): the fields are read by name AND by position; iteration / unpacking, indexing, len() and equality are those of the tuple of its
    field values (two records with the same values are equal, as in Python); it is immutable."""

    def __init__(self, cls, name, names, vals):
        super().__init__(cls, **vals)
        self.name = name
        self.names = list(names)
        self.items = lambda o: [o.fields[f] for f in o.names]
        self.init_args = dict(vals)

    def astuple(self):
        return tuple(self.fields[f] for f in self.names)

    def __iter__(self):
        return iter(self.astuple())

    def __len__(self):
        return len(self.names)

    def __getitem__(self, k):
        return self.astuple()[k]

    def __eq__(self, other):
        if isinstance(other, _Rec):
            return self.astuple() == other.astuple()
        if isinstance(other, tuple):
            return self.astuple() == other
        return NotImplemented

    def __ne__(self, other):
        r = self.__eq__(other)
        return r if r is NotImplemented else not r

    def __hash__(self):
        return hash(self.astuple())

    def __repr__(self):
        return f"{self.name}({', '.join(f'{f}={self.fields[f]!r}' for f in self.names)})"


def _is_namedtuple_class(mod, cls):
    """class X(typing.NamedTuple) / class X(NamedTuple) (the base resolved through the imports of the module)"""
    for b in cls.bases:
        d = dotted(b)
        if d is None:
            continue
        head = d.split(".")[0]
        full = (mod.imports.get(head, head) + d[len(head):]) if head in mod.imports else d
        if full in ("typing.NamedTuple", "NamedTuple", "typing_extensions.NamedTuple"):
            return True
    return False


def _namedtuple_fields(cls):
    """[(field, default expression | None)] of a class-based NamedTuple: its annotated class-level names in order"""
    return [(st.target.id, st.value) for st in cls.body if isinstance(st, ast.AnnAssign) and isinstance(st.target, ast.Name)]


class _Bound:
    def __init__(self, obj, fn, cls):
        self.obj, self.fn, self.cls = obj, fn, cls


class _Ret(Exception):
    def __init__(self, v):
        self.v = v


class _Brk(Exception):
    pass


class _Cont(Exception):
    pass


_BIN = {ast.Add: lambda a, b: a + b, ast.Sub: lambda a, b: a - b, ast.Mult: lambda a, b: a * b, ast.Div: lambda a, b: a / b, ast.FloorDiv: lambda a, b: a // b,
        ast.Mod: lambda a, b: a % b, ast.Pow: lambda a, b: a ** b, ast.BitOr: lambda a, b: a | b, ast.BitAnd: lambda a, b: a & b, ast.BitXor: lambda a, b: a ^ b}
_SAFE_BUILTINS = {"range": range, "len": len, "min": min, "max": max, "sum": sum, "enumerate": enumerate, "zip": zip, "list": list, "tuple": tuple, "set": set, "dict": dict,
                  "frozenset": frozenset, "sorted": sorted, "reversed": reversed, "any": any, "all": all, "abs": abs, "int": int, "float": float, "bool": bool, "str": str,
                  "divmod": divmod, "round": round, "iter": iter, "next": next, "repr": repr}
_SAFE_LIB = {"itertools.count": itertools.count, "itertools.chain": itertools.chain, "itertools.repeat": itertools.repeat, "itertools.islice": itertools.islice,
             "itertools.cycle": itertools.cycle, "itertools.chain.from_iterable": itertools.chain.from_iterable, "math.ceil": math.ceil, "math.floor": math.floor,
             "collections.defaultdict": collections.defaultdict, "collections.OrderedDict": collections.OrderedDict, "collections.deque": collections.deque}
_SAFE_METHODS = {list: {"append", "extend", "insert", "pop", "remove", "index", "count", "copy", "clear", "reverse", "sort"},
                 dict: {"get", "setdefault", "items", "keys", "values", "update", "pop", "copy", "clear"},
                 set: {"add", "discard", "remove", "update", "copy", "clear", "union", "intersection", "difference", "issubset", "issuperset", "pop"},
                 frozenset: {"union", "intersection", "difference", "issubset", "issuperset"},
                 tuple: {"index", "count"}, str: {"join", "format", "startswith", "endswith", "split", "strip", "lower", "upper", "replace"},
                 collections.deque: {"append", "appendleft", "pop", "popleft", "extend", "clear"}, range: {"index", "count"}}
_SAFE_METHODS[collections.defaultdict] = _SAFE_METHODS[collections.OrderedDict] = _SAFE_METHODS[dict]
_PLAIN = (int, float, str, bool, bytes, type(None), list, tuple, dict, set, frozenset, range, collections.deque)


class _Closure:
    """a function defined inside an interpreted function, together with the variables of the activation that defined it"""

    def __init__(self, fn, env):
        self.fn, self.env = fn, env
        self.name = fn.name

    def __repr__(self):
        return f"<nested function {self.fn.name}>"


class _Machine:
    """interprets functions of ONE module. hooks:
         on_new(cls node, obj)           called after a model instance of a class of the module was constructed
         call_hook(dotted callee, args, kwargs) -> value | NotImplemented     for calls the rule gives a meaning itself (clock reads ...)
         attr_hook(obj, name) -> value | NotImplemented                     attribute of a model object that no field / property / method provides
         choose(node) -> bool                                               truth value of an opaque condition (default: _Cannot)"""

    MAX_STEPS = 200000

    def __init__(self, mod, on_new=None, call_hook=None, attr_hook=None, choose=None):
        self.mod = mod
        self.on_new, self.call_hook, self.attr_hook, self.choose = on_new, call_hook, attr_hook, choose
        self.steps = 0
        self.depth = 0
        self.classes = {c.name: c for c in mod.tree.body if isinstance(c, ast.ClassDef)}
        self.functions = {f.name: f for f in mod.tree.body if isinstance(f, source.FUNC_TYPES)}
        # module-level record types: X = collections.namedtuple("X", [fields]) / namedtuple("X", "a b")
        #                            X = typing.NamedTuple("X", [("a", int), ("b", str)]); class-based ones (class X(NamedTuple): a: int ...) are constructed by new()
        self.records = {}  # name -> (field names, {field: default expression})
        for st in mod.tree.body:
            if isinstance(st, ast.Assign) and len(st.targets) == 1 and isinstance(st.targets[0], ast.Name) and isinstance(st.value, ast.Call) \
                    and last_attr(st.value.func) in ("namedtuple", "NamedTuple") and len(st.value.args) == 2 and all(k.arg == "defaults" for k in st.value.keywords):
                try:
                    fl = ast.literal_eval(st.value.args[1])
                except ValueError:
                    if last_attr(st.value.func) == "NamedTuple" and isinstance(st.value.args[1], (ast.List, ast.Tuple)) \
                            and all(isinstance(x, (ast.Tuple, ast.List)) and len(x.elts) == 2 and isinstance(x.elts[0], ast.Constant) and isinstance(x.elts[0].value, str) for x in st.value.args[1].elts):
                        fl = [x.elts[0].value for x in st.value.args[1].elts]  # [("a", int), ...]: the types are names, not literals
                    else:
                        continue
                if last_attr(st.value.func) == "NamedTuple":
                    if not (isinstance(fl, (list, tuple)) and all(isinstance(x, str) or (isinstance(x, (list, tuple)) and len(x) == 2 and isinstance(x[0], str)) for x in fl)):
                        continue
                    fl = [x if isinstance(x, str) else x[0] for x in fl]
                names = fl.replace(",", " ").split() if isinstance(fl, str) else list(fl)
                if not all(isinstance(x, str) for x in names):
                    continue
                dflt = {}
                if st.value.keywords:
                    dv = st.value.keywords[0].value
                    if not isinstance(dv, (ast.List, ast.Tuple)) or len(dv.elts) > len(names):
                        continue
                    dflt = dict(zip(names[len(names) - len(dv.elts):], dv.elts))
                self.records[st.targets[0].id] = (names, dflt)

    def record(self, cls, name, names, dflt, args, kwargs):
        """a named-tuple record constructed with args / kwargs (positional, by field name, defaults)"""
        kwargs = dict(kwargs or {})
        if len(args) > len(names) or set(kwargs) - set(names[len(args):]):
            raise _Cannot(f"arguments of record {name}")
        vals = dict(zip(names, args), **kwargs)
        for f in names:
            if f not in vals:
                if dflt.get(f) is None:
                    raise _Cannot(f"record {name}: field {f} not supplied")
                vals[f] = self.ev(dflt[f], {})
        return _Rec(cls, name, names, {f: vals[f] for f in names})

    # -- classes --------------------------------------------------------------------------------------------------------------------------------
    def _mro(self, cls):
        out, todo = [], [cls]
        while todo:
            c = todo.pop(0)
            if c in out:
                continue
            out.append(c)
            todo += [self.classes[last_attr(b)] for b in c.bases if last_attr(b) in self.classes]
        return out

    def _member(self, cls, name):
        for c in self._mro(cls):
            for st in c.body:
                if isinstance(st, source.FUNC_TYPES) and st.name == name:
                    return st, c
        return None, None

    @staticmethod
    def _decos(fn):
        return {dotted(d.func if isinstance(d, ast.Call) else d) or "?" for d in fn.decorator_list}

    def new(self, cls, args=(), kwargs=None):
        if _is_namedtuple_class(self.mod, cls):  # class X(NamedTuple): the annotated names are the fields (constructor, order, defaults); methods / properties stay those of the class
            fl = _namedtuple_fields(cls)
            obj = self.record(cls, cls.name, [f for f, _ in fl], dict(fl), list(args), kwargs)
            if self.on_new is not None:
                self.on_new(cls, obj)
            return obj
        obj = _Obj(cls)
        init, owner = self._member(cls, "__init__")
        if init is not None:
            self.call_function(init, [obj] + list(args), kwargs or {}, owner, record=obj)
        elif {"dataclass", "dataclasses.dataclass"} & {dotted(d.func if isinstance(d, ast.Call) else d) for d in cls.decorator_list}:
            fl = [st for c in reversed(self._mro(cls)) for st in c.body if isinstance(st, ast.AnnAssign) and isinstance(st.target, ast.Name)]
            names = [st.target.id for st in fl]
            kwargs = dict(kwargs or {})
            if len(args) > len(names) or set(kwargs) - set(names[len(args):]):
                raise _Cannot(f"arguments of dataclass {cls.name}")
            vals = dict(zip(names, args), **kwargs)
            for st in fl:
                if st.target.id not in vals:
                    if st.value is None:
                        raise _Cannot(f"{cls.name}: field {st.target.id} not supplied")
                    vals[st.target.id] = self.ev(st.value, {})
            obj.fields.update(vals)
            obj.init_args = dict(vals)
        elif args or kwargs:
            raise _Cannot(f"{cls.name}(...) with arguments but without a constructor in the module")
        if self.on_new is not None:
            self.on_new(cls, obj)
        return obj

    # -- calls ------------------------------------------------------------------------------------------------------------------------------------
    def call_function(self, fn, args, kwargs, cls=None, record=None, outer=None):
        if isinstance(fn, ast.AsyncFunctionDef) or any(isinstance(n, (ast.Yield, ast.YieldFrom)) for n in walk_body(fn)):
            raise _Cannot(f"{fn.name}: coroutines / generators are not interpreted")
        a = fn.args
        names = [x.arg for x in a.posonlyargs + a.args]
        if len(args) > len(names) and a.vararg is None:
            raise _Cannot(f"{fn.name}: too many positional arguments")
        env = dict(zip(names, args))
        if a.vararg is not None:
            env[a.vararg.arg] = tuple(args[len(names):])
        kwonly = [x.arg for x in a.kwonlyargs]
        extra = {}
        for k, v in kwargs.items():
            if k in names and k not in env or k in kwonly:
                env[k] = v
            elif a.kwarg is not None:
                extra[k] = v
            else:
                raise _Cannot(f"{fn.name}: unexpected argument {k}")
        if a.kwarg is not None:
            env[a.kwarg.arg] = extra
        dflt = dict(zip(names[len(names) - len(a.defaults):], a.defaults))
        dflt.update({k: d for k, d in zip(kwonly, a.kw_defaults) if d is not None})
        for nm in names + kwonly:
            if nm not in env:
                if nm not in dflt:
                    raise _Cannot(f"{fn.name}: argument {nm} not supplied")
                env[nm] = self.ev(dflt[nm], {})
        if record is not None:
            record.init_args = {k: v for k, v in env.items() if k != names[0]} if names else {}
        env["__class__"] = cls
        if outer is not None:
            # a function nested in another one sees (not: assigns) the variables of the activation that defined it, with the values they have when it is called
            for k_, v_ in outer.items():
                if k_ == "__class__":
                    env["__class__"] = cls if cls is not None else v_
                else:
                    env.setdefault(k_, v_)
        self.depth += 1
        if self.depth > 40:
            raise _Cannot("call depth")
        try:
            self.block(fn.body, env)
        except _Ret as r:
            return r.v
        finally:
            self.depth -= 1
        return None

    def _call(self, e, env):
        if is_logging_call(e):
            return None
        f = e.func
        # arguments
        args, kwargs = [], {}

        def eval_args():
            for x in e.args:
                if isinstance(x, ast.Starred):
                    args.extend(self._iter(self.ev(x.value, env), x))
                else:
                    args.append(self.ev(x, env))
            for k in e.keywords:
                if k.arg is None:
                    v = self.ev(k.value, env)
                    if not isinstance(v, dict):
                        raise _Cannot(f"** of {short(k.value, 40)}")
                    kwargs.update(v)
                else:
                    kwargs[k.arg] = self.ev(k.value, env)

        d = dotted(f)
        head = d.split(".")[0] if d else None
        if d is not None and head not in env:
            if self.call_hook is not None:
                eval_args()
                r = self.call_hook(d, args, kwargs)
                if r is not NotImplemented:
                    return r
                args, kwargs = [], {}
            if d == "super":
                return _Opaque("super()")  # base classes outside the module are not modelled: their constructor / methods are opaque
            if d == "isinstance" and len(e.args) == 2:
                v = self.ev(e.args[0], env)
                cands = e.args[1].elts if isinstance(e.args[1], ast.Tuple) else [e.args[1]]
                res = False
                for c in cands:
                    cn = dotted(c)
                    if cn == "type(self)" or cn is None:
                        raise _Cannot(f"isinstance against {short(c, 40)}")
                    if cn in self.classes:
                        res = res or (isinstance(v, _Obj) and v.cls is not None and self.classes[cn] in self._mro(v.cls))
                    elif cn in _SAFE_BUILTINS and isinstance(_SAFE_BUILTINS[cn], type):
                        res = res or isinstance(v, _SAFE_BUILTINS[cn]) or (cn == "tuple" and isinstance(v, _Rec))
                    elif cn in self.records:
                        res = res or (isinstance(v, _Rec) and v.cls is None and v.name == cn)
                    else:
                        raise _Cannot(f"isinstance against {cn}")
                if isinstance(v, _Opaque):
                    raise _Cannot(f"isinstance of {v!r}")
                return res
            if d in _SAFE_BUILTINS and d not in self.functions and d not in self.classes:
                eval_args()
                return self._apply(_SAFE_BUILTINS[d], args, kwargs, e)
            full = (self.mod.imports.get(head, head) + d[len(head):]) if head in self.mod.imports else d
            if full in _SAFE_LIB:
                eval_args()
                return self._apply(_SAFE_LIB[full], args, kwargs, e)
            if d in self.classes:
                eval_args()
                return self.new(self.classes[d], args, kwargs)
            if d in self.records:
                eval_args()
                return self.record(None, d, self.records[d][0], self.records[d][1], args, kwargs)
            if d in self.functions:
                eval_args()
                return self.call_function(self.functions[d], args, kwargs)
            if head in self.classes and d.count(".") == 1:  # Class.method(...)
                fn, owner = self._member(self.classes[head], d.split(".")[1])
                if fn is not None:
                    eval_args()
                    if "staticmethod" in self._decos(fn):
                        return self.call_function(fn, args, kwargs, owner)
                    if "classmethod" in self._decos(fn):
                        return self.call_function(fn, [self.classes[head]] + args, kwargs, owner)
                    return self.call_function(fn, args, kwargs, owner)
            eval_args()
            return _Opaque(f"{d}()")
        callee = self.ev(f, env)
        eval_args()
        return self.apply(callee, args, kwargs, e)

    def apply(self, callee, args, kwargs, e=None):
        if isinstance(callee, _Bound):
            decos = self._decos(callee.fn)
            if "staticmethod" in decos:
                return self.call_function(callee.fn, args, kwargs, callee.cls)
            first = callee.obj.cls if "classmethod" in decos and isinstance(callee.obj, _Obj) else callee.obj
            return self.call_function(callee.fn, [first] + list(args), kwargs, callee.cls)
        if isinstance(callee, ast.ClassDef):
            return self.new(callee, args, kwargs)
        if isinstance(callee, _Closure):
            return self.call_function(callee.fn, args, kwargs, outer=callee.env)
        if isinstance(callee, source.FUNC_TYPES):
            return self.call_function(callee, args, kwargs)
        if isinstance(callee, ast.Lambda):
            names = [x.arg for x in callee.args.args]
            if len(names) != len(args) or kwargs:
                raise _Cannot("lambda arguments")
            return self.ev(callee.body, dict(getattr(callee, "_env", {}), **dict(zip(names, args))))
        if isinstance(callee, _Opaque):
            return _Opaque(f"{callee.what}()")
        if callable(callee) and getattr(callee, "__self__", None) is not None and type(callee.__self__) in _SAFE_METHODS \
                and callee.__name__ in _SAFE_METHODS[type(callee.__self__)]:
            return self._apply(callee, args, kwargs, e)
        if callable(callee) and (callee in _SAFE_BUILTINS.values() or callee in _SAFE_LIB.values()):
            return self._apply(callee, args, kwargs, e)
        if callable(callee) and getattr(callee, "_model_callable", False):
            return callee(*args, **kwargs)
        raise _Cannot(f"call of {callee!r}" + (f" in `{short(e, 60)}`" if e is not None else ""))

    def _apply(self, fn, args, kwargs, e):
        for v in list(args) + list(kwargs.values()):
            if isinstance(v, _Opaque) and fn not in (list.append, ) and getattr(fn, "__name__", "") not in ("append", "add", "insert", "setdefault", "appendleft", "extend", "update", "get", "pop"):
                raise _Cannot(f"`{short(e, 60) if e is not None else fn}` needs the value of {v!r}")
        if "key" in kwargs and not callable(kwargs["key"]):
            k = kwargs["key"]
            kwargs = dict(kwargs, key=lambda x: self.apply(k, [x], {}))
        try:
            r = fn(*args, **kwargs)
        except (TypeError, ValueError, IndexError, KeyError, ZeroDivisionError, StopIteration, AttributeError) as x:
            raise _Cannot(f"`{short(e, 60) if e is not None else fn}`: {type(x).__name__}: {x}")
        if isinstance(r, (enumerate, zip, reversed, map, filter, type({}.items()), type({}.keys()), type({}.values()))):
            r = list(r)
        return r

    # -- expressions ----------------------------------------------------------------------------------------------------------------------------
    def truth(self, v, node):
        if isinstance(v, _Opaque):
            if self.choose is None:
                raise _Cannot(f"branch on {v!r} in `{short(node, 60)}`")
            return bool(self.choose(node))
        if isinstance(v, _Obj):
            return True
        return bool(v)

    def _iter(self, v, node):
        if isinstance(v, _Obj):
            if v.items is None:
                raise _Cannot(f"iteration over {v!r} in `{short(node, 60)}`")
            return list(v.items(v) if callable(v.items) else v.items)
        if isinstance(v, (list, tuple, set, frozenset, dict, str, range, collections.deque)):
            return list(v)
        if isinstance(v, (itertools.count, itertools.cycle, itertools.repeat)):
            raise _Cannot(f"unbounded iteration in `{short(node, 60)}`")
        if hasattr(v, "__next__") and not isinstance(v, _Opaque):
            return list(itertools.islice(v, 100000))
        raise _Cannot(f"iteration over {v!r} in `{short(node, 60)}`")

    def getattr(self, v, name, node=None):
        if isinstance(v, _Obj):
            if name in v.fields:
                return v.fields[name]
            if v.cls is not None:
                fn, owner = self._member(v.cls, name)
                if fn is not None:
                    decos = self._decos(fn)
                    if decos & _CACHED_PROPS:  # computed on the first read and kept in the instance from then on (the caching is part of what is interpreted)
                        v.fields[name] = self.call_function(fn, [v], {}, owner)
                        return v.fields[name]
                    if "property" in decos:
                        return self.call_function(fn, [v], {}, owner)
                    return _Bound(v, fn, owner)
                for c in self._mro(v.cls):  # class-level constants
                    for st in c.body:
                        if isinstance(st, ast.Assign) and any(isinstance(t, ast.Name) and t.id == name for t in st.targets):
                            return self.ev(st.value, {})
            if isinstance(v, _Rec):  # what every named tuple has besides its fields
                if name == "_fields":
                    return tuple(v.names)
                if name in ("_asdict", "_replace", "index", "count"):
                    def helper(*a, _v=v, _name=name, **k):
                        if _name == "_asdict" and not a and not k:
                            return {f: _v.fields[f] for f in _v.names}
                        if _name == "_replace" and not a and set(k) <= set(_v.names):
                            return _Rec(_v.cls, _v.name, _v.names, dict({f: _v.fields[f] for f in _v.names}, **k))
                        if _name in ("index", "count") and len(a) == 1 and not k and not isinstance(a[0], _Opaque):
                            try:
                                return getattr(_v.astuple(), _name)(a[0])
                            except ValueError as x:
                                raise _Cannot(f"{_v!r}.{_name}: {x}")
                        raise _Cannot(f"arguments of {_v.name}.{_name}")

                    helper._model_callable = True
                    return helper
                raise _Cannot(f"record {v.name} has no field {name}")
            if self.attr_hook is not None:
                r = self.attr_hook(v, name)
                if r is not NotImplemented:
                    return r
            return _Opaque(f"{v!r}.{name}")
        if isinstance(v, _Opaque):
            return _Opaque(f"{v.what}.{name}")
        if isinstance(v, ast.ClassDef):
            fn, owner = self._member(v, name)
            if fn is not None:
                return _Bound(v, fn, owner) if self._decos(fn) & {"staticmethod", "classmethod"} else fn
            for c in self._mro(v):  # class-level constants
                for st in c.body:
                    if isinstance(st, ast.Assign) and any(isinstance(t, ast.Name) and t.id == name for t in st.targets):
                        return self.ev(st.value, {})
            raise _Cannot(f"{v.name}.{name}")
        if type(v) in _SAFE_METHODS and name in _SAFE_METHODS[type(v)]:
            return getattr(v, name)
        raise _Cannot(f"attribute {name} of {type(v).__name__}" + (f" in `{short(node, 60)}`" if node is not None else ""))

    def ev(self, e, env):
        self.steps += 1
        if self.steps > self.MAX_STEPS:
            raise _Cannot("step budget exhausted (unbounded loop?)")
        if isinstance(e, ast.Constant):
            return e.value
        if isinstance(e, ast.Name):
            if e.id in env:
                return env[e.id]
            if e.id in self.classes:
                return self.classes[e.id]
            if e.id in self.functions:
                return self.functions[e.id]
            if e.id in _SAFE_BUILTINS:
                return _SAFE_BUILTINS[e.id]
            if e.id in ("True", "False", "None"):
                return {"True": True, "False": False, "None": None}[e.id]
            return _Opaque(e.id)
        if isinstance(e, ast.Attribute):
            d = dotted(e)
            if d is not None and d.split(".")[0] not in env:
                head = d.split(".")[0]
                full = (self.mod.imports.get(head, head) + d[len(head):]) if head in self.mod.imports else d
                if full in _SAFE_LIB:
                    return _SAFE_LIB[full]
                if head in self.classes:
                    return self.getattr(self.ev(e.value, env), e.attr, e)
                return _Opaque(d)
            return self.getattr(self.ev(e.value, env), e.attr, e)
        if isinstance(e, ast.Call):
            return self._call(e, env)
        if isinstance(e, ast.Subscript):
            v = self.ev(e.value, env)
            if isinstance(v, _Opaque):
                return _Opaque(f"{v.what}[]")
            k = self._slice(e.slice, env)
            try:
                return v[k]
            except (KeyError, IndexError, TypeError) as x:
                raise _Cannot(f"`{short(e, 60)}`: {type(x).__name__}")
        if isinstance(e, ast.BinOp) and type(e.op) in _BIN:
            a, b = self.ev(e.left, env), self.ev(e.right, env)
            if isinstance(a, (_Opaque, _Obj)) or isinstance(b, (_Opaque, _Obj)):
                if isinstance(e.op, ast.Mod) and isinstance(a, str):
                    return _Opaque("formatted text")
                if isinstance(e.op, ast.Mult) and (isinstance(a, list) or isinstance(b, list)) and not isinstance(a, _Opaque) and not isinstance(b, _Opaque):
                    pass
                else:
                    raise _Cannot(f"`{short(e, 60)}` needs the value of {a if isinstance(a, (_Opaque, _Obj)) else b!r}")
            try:
                return _BIN[type(e.op)](a, b)
            except (TypeError, ValueError, ZeroDivisionError) as x:
                raise _Cannot(f"`{short(e, 60)}`: {type(x).__name__}")
        if isinstance(e, ast.UnaryOp):
            v = self.ev(e.operand, env)
            if isinstance(e.op, ast.Not):
                return not self.truth(v, e)
            if isinstance(v, (int, float)) and not isinstance(v, bool) or isinstance(v, bool):
                return -v if isinstance(e.op, ast.USub) else (+v if isinstance(e.op, ast.UAdd) else ~v)
            raise _Cannot(f"`{short(e, 60)}`")
        if isinstance(e, ast.BoolOp):
            v = None
            for x in e.values:
                v = self.ev(x, env)
                if self.truth(v, x) != isinstance(e.op, ast.And):
                    return v
            return v
        if isinstance(e, ast.Compare):
            left = self.ev(e.left, env)
            for op, c in zip(e.ops, e.comparators):
                right = self.ev(c, env)
                if isinstance(op, (ast.Is, ast.IsNot)):
                    if (isinstance(left, _Opaque) and right is None) or (isinstance(right, _Opaque) and left is None):
                        if self.choose is None:
                            raise _Cannot(f"`{short(e, 60)}` needs the value of an opaque operand")
                        r = bool(self.choose(e))
                    else:
                        r = (left is right) == isinstance(op, ast.Is)
                else:
                    if isinstance(left, _Opaque) or isinstance(right, _Opaque):
                        if self.choose is None:
                            raise _Cannot(f"`{short(e, 60)}` needs the value of an opaque operand")
                        r = bool(self.choose(e))
                    elif isinstance(op, (ast.Eq, ast.NotEq)) and any(isinstance(x, _Obj) and x.cls is not None and self._member(x.cls, "__eq__")[0] is not None for x in (left, right)) \
                            and left is not right:
                        # equality defined by the class: interpreted, not replaced by the identity of the model objects
                        a_, b_ = (left, right) if isinstance(left, _Obj) and left.cls is not None and self._member(left.cls, "__eq__")[0] is not None else (right, left)
                        r = self.truth(self.apply(self.getattr(a_, "__eq__"), [b_], {}), e) == isinstance(op, ast.Eq)
                    elif isinstance(op, (ast.In, ast.NotIn)) and isinstance(right, (list, tuple)) and not any(x is left for x in right) \
                            and any(isinstance(x, _Obj) and x.cls is not None and self._member(x.cls, "__eq__")[0] is not None for x in [left] + list(right)):
                        raise _Cannot(f"`{short(e, 60)}`: membership by a class-defined equality")
                    else:
                        try:
                            r = _me._CMP[type(op)](left, right)
                        except TypeError as x:
                            raise _Cannot(f"`{short(e, 60)}`: {x}")
                if not r:
                    return False
                left = right
            return True
        if isinstance(e, ast.IfExp):
            return self.ev(e.body if self.truth(self.ev(e.test, env), e.test) else e.orelse, env)
        if isinstance(e, (ast.List, ast.Tuple, ast.Set)):
            vals = []
            for x in e.elts:
                if isinstance(x, ast.Starred):
                    vals.extend(self._iter(self.ev(x.value, env), x))
                else:
                    vals.append(self.ev(x, env))
            return vals if isinstance(e, ast.List) else (tuple(vals) if isinstance(e, ast.Tuple) else set(vals))
        if isinstance(e, ast.Dict):
            out = {}
            for k, v in zip(e.keys, e.values):
                if k is None:
                    out.update(self.ev(v, env))
                else:
                    out[self.ev(k, env)] = self.ev(v, env)
            return out
        if isinstance(e, (ast.ListComp, ast.GeneratorExp, ast.SetComp, ast.DictComp)):
            out = []

            def rec(i, env_):
                if i == len(e.generators):
                    out.append((self.ev(e.key, env_), self.ev(e.value, env_)) if isinstance(e, ast.DictComp) else self.ev(e.elt, env_))
                    return
                g = e.generators[i]
                if g.is_async:
                    raise _Cannot("async comprehension")
                for v in self._iter(self.ev(g.iter, env_), g.iter):
                    env2 = dict(env_)
                    self.bind(g.target, v, env2)
                    if all(self.truth(self.ev(c, env2), c) for c in g.ifs):
                        rec(i + 1, env2)

            rec(0, dict(env))
            return dict(out) if isinstance(e, ast.DictComp) else (set(out) if isinstance(e, ast.SetComp) else out)
        if isinstance(e, ast.JoinedStr):
            return _Opaque("formatted text")
        if isinstance(e, ast.NamedExpr):
            v = self.ev(e.value, env)
            self.bind(e.target, v, env)
            return v
        if isinstance(e, ast.Lambda):
            e._env = env
            return e
        if isinstance(e, ast.Starred):
            raise _Cannot("starred expression")
        raise _Cannot(f"{type(e).__name__} `{short(e, 60)}`")

    def _slice(self, s, env):
        if isinstance(s, ast.Slice):
            return slice(*(None if x is None else self.ev(x, env) for x in (s.lower, s.upper, s.step)))
        v = self.ev(s, env)
        if isinstance(v, _Opaque):
            raise _Cannot(f"subscript needs the value of {v!r}")
        return v

    # -- statements ------------------------------------------------------------------------------------------------------------------------------
    def bind(self, t, v, env):
        if isinstance(t, ast.Name):
            env[t.id] = v
        elif isinstance(t, (ast.Tuple, ast.List)):
            if isinstance(v, _Opaque):
                vals = [_Opaque(f"{v.what}[{i}]") for i in range(len(t.elts))]
            else:
                vals = self._iter(v, t)
            if any(isinstance(x, ast.Starred) for x in t.elts) or len(vals) != len(t.elts):
                raise _Cannot(f"unpacking into `{short(t, 40)}`")
            for t_, v_ in zip(t.elts, vals):
                self.bind(t_, v_, env)
        elif isinstance(t, ast.Attribute):
            o = self.ev(t.value, env)
            if isinstance(o, _Rec):
                raise _Cannot(f"store to `{short(t, 40)}`: a named tuple is immutable")
            if isinstance(o, _Obj):
                o.fields[t.attr] = v
            elif not isinstance(o, _Opaque):
                raise _Cannot(f"store to `{short(t, 40)}`")
        elif isinstance(t, ast.Subscript):
            o = self.ev(t.value, env)
            if isinstance(o, _Opaque):
                return
            try:
                o[self._slice(t.slice, env)] = v
            except (TypeError, IndexError, KeyError) as x:
                raise _Cannot(f"store to `{short(t, 40)}`: {type(x).__name__}")
        else:
            raise _Cannot(f"assignment target `{short(t, 40)}`")

    def block(self, stmts, env):
        for s in stmts:
            self.stmt(s, env)

    def stmt(self, s, env):
        self.steps += 1
        if self.steps > self.MAX_STEPS:
            raise _Cannot("step budget exhausted (unbounded loop?)")
        if isinstance(s, ast.Expr):
            if not isinstance(s.value, ast.Constant) and not is_logging_stmt(s):
                self.ev(s.value, env)
        elif isinstance(s, ast.Assign):
            v = self.ev(s.value, env)
            for t in s.targets:
                self.bind(t, v, env)
        elif isinstance(s, ast.AnnAssign):
            if s.value is not None:
                self.bind(s.target, self.ev(s.value, env), env)
        elif isinstance(s, ast.AugAssign):
            load = source.clone(s.target)
            cur = self.ev(load, env)
            rhs = self.ev(s.value, env)
            if isinstance(cur, list) and isinstance(s.op, ast.Add):
                cur.extend(self._iter(rhs, s.value))
                v = cur
            else:
                if isinstance(cur, (_Opaque, _Obj)) or isinstance(rhs, (_Opaque, _Obj)) or type(s.op) not in _BIN:
                    raise _Cannot(f"`{short(s, 60)}`")
                try:
                    v = _BIN[type(s.op)](cur, rhs)
                except (TypeError, ValueError, ZeroDivisionError) as x:
                    raise _Cannot(f"`{short(s, 60)}`: {type(x).__name__}")
            self.bind(s.target, v, env)
        elif isinstance(s, ast.If):
            self.block(s.body if self.truth(self.ev(s.test, env), s.test) else s.orelse, env)
        elif isinstance(s, ast.For):
            broke = False
            for v in self._iter(self.ev(s.iter, env), s.iter):
                self.bind(s.target, v, env)
                try:
                    self.block(s.body, env)
                except _Brk:
                    broke = True
                    break
                except _Cont:
                    continue
            if not broke:
                self.block(s.orelse, env)
        elif isinstance(s, ast.While):
            broke = False
            while self.truth(self.ev(s.test, env), s.test):
                try:
                    self.block(s.body, env)
                except _Brk:
                    broke = True
                    break
                except _Cont:
                    continue
            if not broke:
                self.block(s.orelse, env)
        elif isinstance(s, ast.Return):
            raise _Ret(self.ev(s.value, env) if s.value is not None else None)
        elif isinstance(s, ast.Break):
            raise _Brk()
        elif isinstance(s, ast.Continue):
            raise _Cont()
        elif isinstance(s, (ast.Pass, ast.Assert, ast.Import, ast.ImportFrom, ast.Global, ast.Nonlocal)):
            pass
        elif isinstance(s, ast.Raise):
            raise _Raised(s)
        elif isinstance(s, ast.Try):
            try:
                self.block(s.body, env)
                self.block(s.orelse, env)
            finally:
                self.block(s.finalbody, env)
        elif isinstance(s, ast.With):
            for it in s.items:
                v = self.ev(it.context_expr, env)
                if it.optional_vars is not None:
                    self.bind(it.optional_vars, v if isinstance(v, _Opaque) else _Opaque("context"), env)
            self.block(s.body, env)
        elif isinstance(s, source.FUNC_TYPES):
            env[s.name] = _Closure(s, env)
        elif isinstance(s, ast.Delete):
            for t in s.targets:
                if isinstance(t, ast.Name):
                    env.pop(t.id, None)
                elif isinstance(t, ast.Subscript):
                    o = self.ev(t.value, env)
                    try:
                        del o[self._slice(t.slice, env)]
                    except (TypeError, IndexError, KeyError) as x:
                        raise _Cannot(f"`{short(s, 60)}`: {type(x).__name__}")
                else:
                    raise _Cannot(f"`{short(s, 60)}`")
        else:
            raise _Cannot(f"statement {type(s).__name__} at line {getattr(s, 'lineno', '?')}")


# ---- O1.1 decided on values: the allocation matrix of representative schedules ------------------------------------------------------------------------------------------------


def _leaf(label, clients, completes=False, any_=False):
    """model of a leaf task of the schedule: iterating it yields itself (track.Task.__iter__), it has a client count and the two completed-by flags"""
    t = _Obj(None, clients=clients, completes_parent=completes, any_completes_parent=any_, _label=label)
    t.items = lambda self_: [self_]
    return t


def _par(label, subs, clients=None):
    """model of a parallel element: iterating it yields its sub-tasks, its client count is the explicit cap or the sum over the sub-tasks (track.Parallel.clients)"""
    return _Obj(None, items=list(subs), clients=sum(s.fields["clients"] for s in subs) if clients is None else clients, _label=label)


def _schedules():
    """representative schedules (name, elements): empty / single / several elements, elements narrower than the widest one (before and after it), parallel elements with and without
    over-commitment (more logical clients than rows: None padding), empty elements (first / in the middle / last), completed-by (named task and any)."""
    T, P = _leaf, _par
    return [
        ("no element", []),
        ("[1]", [T("a", 1)]),
        ("[2]", [T("a", 2)]),
        ("[3, 1, 2]", [T("a", 3), T("b", 1), T("c", 2)]),
        ("[1, 4]", [T("a", 1), T("b", 4)]),
        ("[8, 5, 8]", [T("a", 8), T("b", 5), T("c", 8)]),
        ("[par(1+1+1 on 2 clients)]", [P("p", [T("a", 1), T("b", 1), T("c", 1)], clients=2)]),
        ("[par(2+3), 2]", [P("p", [T("a", 2), T("b", 3)]), T("c", 2)]),
        ("[par(1 x5 on 2 clients), 2]", [P("p", [T(f"t{i}", 1) for i in range(5)], clients=2), T("c", 2)]),
        ("[par(3+1 on 4), par(2+2 on 3), 4]", [P("p", [T("a", 3), T("b", 1)]), P("q", [T("c", 2), T("d", 2)], clients=3), T("e", 4)]),
        ("[empty par, 1]", [P("p", [], clients=0), T("a", 1)]),
        ("[2, empty par, 2]", [T("a", 2), P("p", [], clients=0), T("b", 2)]),
        ("[3, empty par]", [T("a", 3), P("p", [], clients=0)]),
        ("[par(2 completing + 1), 1]", [P("p", [T("a", 2, completes=True), T("b", 1)]), T("c", 1)]),
        ("[par(1 any + 2 any), 3]", [P("p", [T("a", 1, any_=True), T("b", 2, any_=True)]), T("c", 3)]),
        ("[2, par(1 completing + 3 on 2 clients), 2]", [T("a", 2), P("p", [T("b", 1, completes=True), T("c", 3)], clients=2), T("d", 2)]),
    ]


def _constructs(fn, names):
    return {last_attr(c.func) for c in source.calls_in(fn)} & set(names)


def _closure_in_module(mod, fn, properties=False):
    """functions of the module reachable from fn through self.m() / cls.m() / Class.m() / f() calls (and, on request, through reads of properties of its own class)"""
    funcs = {f.name: f for f in mod.tree.body if isinstance(f, source.FUNC_TYPES)}
    seen, todo = [], [fn]
    while todo:
        f = todo.pop()
        if any(f is x for x in seen):
            continue
        seen.append(f)
        cls = source.enclosing_class(f)
        meths = mod.methods(cls) if cls is not None else {}
        for n in walk_body(f):
            if isinstance(n, ast.Call) and isinstance(n.func, ast.Attribute) and isinstance(n.func.value, ast.Name) and n.func.value.id in ("self", "cls", cls.name if cls is not None else "") \
                    and n.func.attr in meths:
                todo.append(meths[n.func.attr])
            elif isinstance(n, ast.Call) and isinstance(n.func, ast.Name) and n.func.id in funcs:
                todo.append(funcs[n.func.id])
            elif properties and is_self_attr(n) and n.attr in meths and _is_property(meths[n.attr]):
                todo.append(meths[n.attr])
    return seen


def _matrix_builder(drv):
    """(class, method, read as an attribute?) of the matrix builder, located by role: the one outermost parameterless method of the driver module whose call closure constructs both
    JoinPoint and TaskAllocation"""
    both = ("JoinPoint", "TaskAllocation")
    owners = [c for c in drv.classes() if set(both) <= set().union(*[_constructs(f, both) for f in drv.methods(c).values()] or [set()])]
    cands = [f for c in owners for f in drv.methods(c).values() if params_of(f) == ["self"]
             and set(both) <= set().union(*[_constructs(g, both) for g in _closure_in_module(drv, f)])]
    outer = [f for f in cands if not any(g is not f and any(f is h for h in _closure_in_module(drv, g)) for g in cands)]
    if len(outer) != 1:
        raise AnchorMissing("matrix builder (the one outermost parameterless method whose call closure constructs both JoinPoint and TaskAllocation)")
    builder = outer[0]
    A = source.enclosing_class(builder)
    if [p for p in params_of(builder) if p != "self"]:
        raise AnchorMissing(f"{A.name}.{builder.name}: a matrix builder that takes nothing but the schedule its object was constructed with")
    return A, builder, _is_property(builder)  # read as an attribute (plain or cached property) or called


def allocation_matrix_rule(chk, rid, drv):
    """O1.1 on values. The matrix builder (located by role: the outermost function of the driver module whose call closure constructs both JoinPoint and TaskAllocation) is interpreted,
    together with the helper methods / properties of its class it calls, on representative model schedules; the obligations are read off the matrices it returns. No shape of the
    loops, of the row container or of the id counter is assumed; whatever cannot be interpreted is reported as not recognised."""
    JP, TA = drv.cls("JoinPoint"), drv.cls("TaskAllocation")
    A, builder, is_prop = _matrix_builder(drv)
    # the identity of a join point across processes: the attributes its __eq__ / __hash__ read
    ident = sorted({n.attr for nm in ("__eq__", "__hash__") for m in [drv.methods(JP).get(nm)] if m is not None for n in walk_body(m) if is_self_attr(n)})

    def is_a(v, cls):
        return isinstance(v, _Obj) and v.cls is cls

    results = {k: [] for k in ("initial", "after", "fresh", "segment", "ids", "column", "count", "announce")}
    evaluated = 0
    said_ = set()
    for name, sched in _schedules():
        m = _Machine(drv)
        try:
            alloc = m.new(A, [list(sched)])
            M = m.getattr(alloc, builder.name) if is_prop else m.apply(m.getattr(alloc, builder.name), [], {})
        except (_Cannot, _Raised) as x:
            if str(x) not in said_:  # one line per reason, not per schedule
                said_.add(str(x))
                chk.unknown(rid, f"matrix builder {A.name}.{builder.name} on schedule {name}: " + ("raises: " if isinstance(x, _Raised) else "not interpretable: ") + str(x), builder)
            continue
        if not (isinstance(M, (list, tuple)) and M and all(isinstance(r, (list, tuple)) for r in M)):
            chk.unknown(rid, f"matrix builder {A.name}.{builder.name} on schedule {name}: the result is not a non-empty sequence of rows", builder)
            continue
        evaluated += 1
        rows = [list(r) for r in M]
        n_el = len(sched)
        jps = [[(i, e) for i, e in enumerate(r) if is_a(e, JP)] for r in rows]
        # initial join point: first entry of every row, one object
        bad = [ri for ri, r in enumerate(rows) if not r or not is_a(r[0], JP) or r[0] is not rows[0][0]]
        results["initial"].append((name, not bad, f"row(s) {bad} do not start with the (one) initial join point" if bad else ""))
        # a join point after every element, on every row, the same object on all rows
        bad = [ri for ri, j in enumerate(jps) if len(j) != n_el + 1 or not is_a(rows[ri][-1], JP) or any(a[1] is not b[1] for a, b in zip(j, jps[0]))]
        after_ok = not bad and len(jps[0]) == n_el + 1
        results["after"].append((name, after_ok, "" if after_ok else f"{n_el} element(s): row(s) {bad or [0]} hold {[len(jps[ri]) for ri in (bad or [0])]} join point(s) instead of {n_el + 1} shared ones "
                                 "(a row without the element's join point never reports, or reports a step early)"))
        objs = [e for _, e in jps[0]]
        fresh = all(a is not b for i, a in enumerate(objs) for b in objs[i + 1:])
        results["fresh"].append((name, fresh, "" if fresh else "one JoinPoint object is appended for several elements"))
        if ident:
            keys = [tuple(repr(e.fields.get(a, _Opaque("unset"))) for a in ident) for e in objs]
            distinct = len(set(keys)) == len(keys)
            results["ids"].append((name, distinct, "" if distinct else f"join points with equal identity {ident}: {keys}"))
        else:
            results["ids"].append((name, fresh, "JoinPoint defines no __eq__/__hash__: identity is the object"))
        col = all(len({j[k][0] for j in jps if len(j) > k}) <= 1 for k in range(max(len(j) for j in jps))) and len({len(r) for r in rows}) == 1
        results["column"].append((name, col, "" if col else f"join points / row ends are not aligned: positions {[[i for i, _ in j] for j in jps]}, row lengths {[len(r) for r in rows]}"))
        if not after_ok:
            continue
        # between join point k and k+1 a row holds nothing but allocations of the leaf tasks of element k (or None)
        seg_bad, count = [], {}
        for ri, r in enumerate(rows):
            pos = [i for i, _ in jps[ri]]
            for k in range(n_el):
                leaves = list(m._iter(sched[k], None))
                for e in r[pos[k] + 1:pos[k + 1]]:
                    if e is None:
                        continue
                    owner = [lf for lf in leaves if is_a(e, TA) and any(v is lf for v in e.fields.values())]
                    if not owner:
                        seg_bad.append((ri, k, repr(e)))
                    else:
                        count[id(owner[0])] = count.get(id(owner[0]), 0) + 1
        results["segment"].append((name, not seg_bad, "" if not seg_bad else f"(row, element, entry) {seg_bad[:3]}: the entry does not belong to the element between these two join points"))
        miss = [(lf.fields["_label"], lf.fields["clients"], count.get(id(lf), 0)) for el in sched for lf in m._iter(el, None) if count.get(id(lf), 0) != lf.fields["clients"]]
        results["count"].append((name, not miss, "" if not miss else f"(task, clients, allocations in its element) {miss[:3]}"))
        # what a join point says about completed-by (the client lists it was constructed with) describes the element in front of it and no other: the rows that execute a completing
        # task / an any-completing task of THAT element; the initial join point says nothing
        wrong = []
        for k in range(n_el + 1):
            said = sorted(sorted(set(v)) for v in objs[k].fields.values() if isinstance(v, (list, tuple, set)) and v)
            want_ = []
            if k > 0:
                for flag in ("completes_parent", "any_completes_parent"):
                    rws = sorted({ri for ri, r in enumerate(rows) for e in r[jps[ri][k - 1][0] + 1:jps[ri][k][0]] if is_a(e, TA)
                                  for lf in m._iter(sched[k - 1], None) if lf.fields[flag] and any(v is lf for v in e.fields.values())})
                    if rws:
                        want_.append(rws)
            if said != sorted(want_):
                wrong.append((k, said, sorted(want_)))
        results["announce"].append((name, not wrong, "" if not wrong else f"(join point, client lists it carries, rows completing the element in front of it) {wrong[0]}: completed-by of one element "
                                    "is announced at the join point of another (tasks of that other element are cut short / the element never completes)"))
    if not evaluated:
        raise AnchorMissing(f"{A.name}.{builder.name}: no representative schedule could be interpreted")
    texts = {"initial": "initial join point on every row before the first element", "after": "join point on every row after every schedule element (one shared object per element)",
             "fresh": "a fresh JoinPoint per schedule element", "segment": "no task allocation outside the two join points of its element",
             "ids": "join point ids are distinct", "column": "the join point of an element is at the same position on every row (rows of one worker advance with one index)",
             "count": "every task is allocated once per client between the join points of its element",
             "announce": "a join point carries the completing clients of the element in front of it and of no other element"}
    for k, rs in results.items():
        if not rs:
            chk.unknown(rid, f"{texts[k]}: no schedule reached this check", builder)
            continue
        fails = [(n, d) for n, ok, d in rs if not ok]
        chk.ob(rid, texts[k], not fails, builder, f"{len(rs)} schedule(s) interpreted" + ("" if not fails else f"; schedule {fails[0][0]}: {fails[0][1]}" + (f" (+{len(fails) - 1} more)" if len(fails) > 1 else "")),
               key=f"{_D}:{A.name}.{builder.name}:matrix:{k}")
    return builder


# ---------------------------------------------------------------------------------------------------------------------------------------------
# Local helper (not in sa/): an anchored function analysed TOGETHER WITH the private helpers it calls. `_expand(fn, ...)` returns a copy of fn in which every call of a helper
# method of its class / helper function of its module that is private to fn (all its call sites in the package lie in fn or in other such helpers; it is none of the functions
# the rules anchor on by name) is replaced by the helper's body: parameters bound to the arguments, colliding locals renamed, `return` turned into the assignment / the end of
# the inlined block. Guards, guard facts, CFG queries and statement searches of the rules then see the caller and the extracted code as ONE function, whatever was extracted.
# Statements keep their positions in the file (reports point at the real lines); when nothing is inlined the function itself is returned.

# functions the rules look up by name (anchors): never inlined into their callers
_ANCHORS = {"joinpoint_reached", "move_to_next_task", "may_complete_current_task", "finished", "start_benchmark", "drive", "at_joinpoint", "current_tasks_and_advance", "send_samples",
            "drive_at", "complete_current_task", "on_benchmark_complete", "on_task_finished", "start_worker", "tasks", "is_joinpoint", "run", "update_progress_message",
            "post_process_samples", "__init__", "__call__", "send", "wakeupAfter", "schedule_for", "execute_single", "allocations", "join_points", "tasks_per_joinpoint", "clients"}


def _clone(n):
    """structural copy of a syntax tree WITHOUT the parent / module links (copy.deepcopy would follow them and copy the whole module); positions and the N8 marks are kept"""
    if isinstance(n, list):
        return [_clone(x) for x in n]
    if not isinstance(n, ast.AST):
        return n
    new = type(n)()
    for f, v in ast.iter_fields(n):
        setattr(new, f, _clone(v))
    for a in n._attributes:
        if hasattr(n, a):
            setattr(new, a, getattr(n, a))
    for a in ("_synthetic_arm", "_from_constant", "_boolctx"):
        if hasattr(n, a):
            setattr(new, a, getattr(n, a))
    return new


def _calls_in_order(e, cond=False):
    """(call, conditionally evaluated?) for the calls of an expression in the order in which they complete"""
    if e is None:
        return
    if isinstance(e, (ast.Lambda, ast.ListComp, ast.SetComp, ast.DictComp, ast.GeneratorExp)):
        for c in ast.walk(e):
            if isinstance(c, ast.Call):
                yield c, True
        return
    if isinstance(e, ast.BoolOp):
        for i, v in enumerate(e.values):
            yield from _calls_in_order(v, cond or i > 0)
        return
    if isinstance(e, ast.IfExp):
        yield from _calls_in_order(e.test, cond)
        yield from _calls_in_order(e.body, True)
        yield from _calls_in_order(e.orelse, True)
        return
    if isinstance(e, ast.Compare):
        yield from _calls_in_order(e.left, cond)
        for i, v in enumerate(e.comparators):
            yield from _calls_in_order(v, cond or i > 0)
        return
    for ch in ast.iter_child_nodes(e):
        if isinstance(ch, ast.expr) or isinstance(ch, (ast.keyword, ast.Starred)):
            yield from _calls_in_order(ch, cond)
        elif isinstance(ch, ast.keyword):
            yield from _calls_in_order(ch.value, cond)
    if isinstance(e, ast.Call):
        yield e, cond


def _tail_returns_only(stmts, top=True):
    """every `return` of the block is in tail position: the last statement, or inside the arms of a trailing if (N8 has already folded guard clauses into that form)"""
    for i, s in enumerate(stmts):
        last = i == len(stmts) - 1
        if isinstance(s, ast.Return):
            if not last:
                return False
        elif isinstance(s, ast.If) and last:
            if not (_tail_returns_only(s.body, False) and _tail_returns_only(s.orelse, False)):
                return False
        elif any(isinstance(x, ast.Return) for x in source.walk_local(s)):
            return False
    return True


class _Expander:
    MAX_INLINES = 16

    def __init__(self, root, mod, repo):
        self.root, self.mod, self.repo = root, mod, repo
        self.cls = source.enclosing_class(root)
        self.meths = mod.methods(self.cls) if self.cls is not None else {}
        self.funcs = {f.name: f for f in mod.tree.body if isinstance(f, source.FUNC_TYPES)}
        self.names = {n.id for n in ast.walk(root) if isinstance(n, ast.Name)} | set(params_of(root))
        self.bound_in_root = {n.id for n in ast.walk(root) if isinstance(n, ast.Name) and isinstance(n.ctx, (ast.Store, ast.Del))} | set(params_of(root))
        self.inlined = []
        self.count = 0
        self.split = 0  # parallel assignments rewritten one target per statement
        self._private = {}

    # -- which calls are helper calls ----------------------------------------------------------------------------------------------------------------
    def resolve(self, c):
        """(helper def, bound?) for a call of a private helper of the root, else None"""
        f = c.func
        h, bound = None, False
        if isinstance(f, ast.Attribute) and isinstance(f.value, ast.Name) and self.cls is not None and f.value.id in ("self", "cls", self.cls.name) and f.attr in self.meths:
            h = self.meths[f.attr]
            decos = {dotted(d) for d in h.decorator_list}
            if decos - {"staticmethod", "classmethod"}:
                return None
            bound = "staticmethod" not in decos
            if f.value.id == self.cls.name and bound and "classmethod" not in decos:
                return None  # Class.method(obj, ...): explicit receiver, not followed
        elif isinstance(f, ast.Name) and f.id in self.funcs and f.id not in self.bound_in_root:
            h = self.funcs[f.id]
            if h.decorator_list:
                return None
        if h is None or h is self.root or not isinstance(h, ast.FunctionDef) or h.name in _ANCHORS or h.name.startswith("receive") or (h.name.startswith("__") and h.name.endswith("__")):
            return None
        a = h.args
        if a.vararg or a.kwarg or a.posonlyargs or any(isinstance(x, ast.Starred) for x in c.args) or any(k.arg is None for k in c.keywords):
            return None
        if any(isinstance(n, (ast.Yield, ast.YieldFrom, ast.Await, ast.Global, ast.Nonlocal, ast.FunctionDef, ast.AsyncFunctionDef, ast.ClassDef, ast.Try)) for n in walk_body(h)):
            return None
        if sum(1 for n in walk_body(h) if isinstance(n, ast.stmt)) > 60 or not self.private(h, ()):
            return None
        return h, bound

    def private(self, h, stack):
        """every call site of the helper's name in the package lies in the root or in another private helper of the root, and the name is not handed around as a value"""
        if h.name in self._private:
            return self._private[h.name]
        if h.name in stack:
            return False
        sites = _calls_named(self.repo, self.mod, h.name)
        ok = bool(sites)  # something that is never called by name (a message handler, an entry point) is not a helper of anybody
        for x in sites:
            ef = source.enclosing_func(x)
            if ef is self.root or getattr(ef, "_origin", None) is self.root:
                continue
            if ef is None or ef is h or source.module_of(x) is not self.mod or ef.name in _ANCHORS or ef.name.startswith("receive") \
                    or source.enclosing_class(ef) is not source.enclosing_class(self.root) or not self.private(ef, stack + (h.name,)):
                ok = False
                break
        if ok:
            idx = getattr(self.mod, "_c01_value_refs", None)
            if idx is None:  # names of the module that are read as VALUES (not in call position): one walk per module
                idx = {"attr": set(), "name": set()}
                for n in ast.walk(self.mod.tree):
                    if isinstance(n, (ast.Attribute, ast.Name)) and isinstance(n.ctx, ast.Load) and not (isinstance(source.parent(n), ast.Call) and source.parent(n).func is n):
                        idx["attr" if isinstance(n, ast.Attribute) else "name"].add(n.attr if isinstance(n, ast.Attribute) else n.id)
                self.mod._c01_value_refs = idx
            ok = h.name not in idx["attr" if source.enclosing_class(h) is not None else "name"]
        self._private[h.name] = ok
        return ok

    # -- inlining one call ---------------------------------------------------------------------------------------------------------------------------
    def fresh(self, base):
        nm, i = base, 1
        while nm in self.names:
            i += 1
            nm = f"{base}_{i}"
        self.names.add(nm)
        return nm

    def body_for(self, c, h, bound, mode, target, at):
        """statements replacing the call c of helper h. mode: 'expr' (value unused), 'assign' (value stored to the Name `target`), 'return' (the caller returns the value)"""
        a = h.args
        pnames = [x.arg for x in a.args]
        selfname = pnames[0] if bound and pnames else None
        params = pnames[1:] if bound else pnames
        argmap = {}
        for i, x in enumerate(c.args):
            if i >= len(params):
                return None
            argmap[params[i]] = x
        kwonly = [x.arg for x in a.kwonlyargs]
        for k in c.keywords:
            if k.arg in argmap or (k.arg not in params and k.arg not in kwonly):
                return None
            argmap[k.arg] = k.value
        dflt = dict(zip(pnames[len(pnames) - len(a.defaults):], a.defaults))
        dflt.update({k: d for k, d in zip(kwonly, a.kw_defaults) if d is not None})
        for p in params + kwonly:
            if p not in argmap:
                if p not in dflt:
                    return None
                argmap[p] = dflt[p]
        body = [s for s in h.body if not (isinstance(s, ast.Expr) and isinstance(s.value, ast.Constant))]
        if mode != "return" and not _tail_returns_only(body):
            return None
        stored = {n.id for s in body for n in ast.walk(s) if isinstance(n, ast.Name) and isinstance(n.ctx, (ast.Store, ast.Del))}
        scoped = {n.id for s in body for x in ast.walk(s) if isinstance(x, (ast.ListComp, ast.SetComp, ast.DictComp, ast.GeneratorExp, ast.Lambda))
                  for g in (x.generators if not isinstance(x, ast.Lambda) else []) for n in ast.walk(g.target) if isinstance(n, ast.Name)}
        scoped |= {x.arg for s in body for l in ast.walk(s) if isinstance(l, ast.Lambda) for x in l.args.args}
        free_in_args = {n.id for v in argmap.values() for n in ast.walk(v) if isinstance(n, ast.Name)}
        if scoped & (free_in_args | set(argmap)) or (selfname is not None and selfname in stored):
            return None
        ren, pre = {}, []
        for p in params + kwonly:
            v = argmap[p]
            if p not in stored and isinstance(v, (ast.Name, ast.Constant)):
                ren[p] = _clone(v)
            else:
                nm = p if p not in self.names else self.fresh(f"{p}__{h.name.strip('_')}")
                self.names.add(nm)
                ren[p] = ast.Name(id=nm, ctx=ast.Load())
                pre.append(ast.copy_location(ast.Assign(targets=[ast.Name(id=nm, ctx=ast.Store())], value=_clone(v)), at))
        for x in sorted(stored - set(params) - set(kwonly) - scoped):
            if x in self.names:
                ren[x] = ast.Name(id=self.fresh(f"{x}__{h.name.strip('_')}"), ctx=ast.Load())
            else:
                self.names.add(x)
        if selfname is not None and selfname != "self":
            recv = c.func.value.id if isinstance(c.func, ast.Attribute) else "self"
            ren[selfname] = ast.Name(id=recv, ctx=ast.Load())

        class R(ast.NodeTransformer):
            def visit_Name(self_, n):
                if n.id in ren and n.id not in scoped:
                    r = _clone(ren[n.id])
                    if isinstance(r, ast.Name):
                        r.ctx = type(n.ctx)()
                    elif not isinstance(n.ctx, ast.Load):
                        raise ValueError("store to a substituted parameter")
                    return ast.copy_location(r, n)
                return n

        try:
            new = [R().visit(_clone(s)) for s in body]
        except ValueError:
            return None

        def conv(stmts):
            out = []
            for s in stmts:
                if isinstance(s, ast.Return):
                    if mode == "assign":
                        out.append(ast.copy_location(ast.Assign(targets=[ast.Name(id=target, ctx=ast.Store())], value=s.value if s.value is not None else ast.Constant(value=None)), s))
                    elif s.value is not None and any(isinstance(x, ast.Call) for x in ast.walk(s.value)):
                        out.append(ast.copy_location(ast.Expr(value=s.value), s))
                    elif not out and len(stmts) == 1:
                        out.append(ast.copy_location(ast.Pass(), s))
                elif isinstance(s, ast.If):
                    s.body, s.orelse = conv(s.body) or [ast.copy_location(ast.Pass(), s)], conv(s.orelse)
                    out.append(s)
                else:
                    out.append(s)
            return out

        if mode != "return":
            falls = not source._terminates(new)
            new = conv(new)
            if mode == "assign" and falls:
                new.append(ast.copy_location(ast.Assign(targets=[ast.Name(id=target, ctx=ast.Store())], value=ast.Constant(value=None)), at))
        elif not source._terminates(new):
            new.append(ast.copy_location(ast.Return(value=None), at))
        for s in pre + new:
            for x in ast.walk(s):
                if not hasattr(x, "lineno") and isinstance(x, (ast.expr, ast.stmt)):
                    ast.copy_location(x, at)
        self.inlined.append(h)
        self.count += 1
        return pre + new

    # -- statements --------------------------------------------------------------------------------------------------------------------------------
    def own_exprs(self, s):
        """the expressions a statement evaluates itself, once, before any nested block runs (evaluation order)"""
        if isinstance(s, ast.Assign):
            return [s.value] + list(s.targets)
        if isinstance(s, ast.AugAssign):
            return [s.target, s.value]
        if isinstance(s, ast.AnnAssign):
            return [s.value, s.target]
        if isinstance(s, (ast.Expr, ast.Return)):
            return [s.value]
        if isinstance(s, ast.If):
            return [s.test]
        if isinstance(s, ast.For):
            return [s.iter]
        if isinstance(s, ast.With):
            return [s.items[0].context_expr] if s.items else []
        if isinstance(s, (ast.Raise,)):
            return [s.exc, s.cause]
        return []

    def one(self, s, stack):
        """[statements] replacing s after inlining its first helper call, or None"""
        if self.count >= self.MAX_INLINES:
            return None
        calls = [x for e in self.own_exprs(s) if e is not None for x in _calls_in_order(e)]
        if any(isinstance(x, (ast.Await, ast.Yield, ast.YieldFrom, ast.NamedExpr)) for e in self.own_exprs(s) if e is not None for x in ast.walk(e)):
            return None
        before = []  # calls that complete before the candidate
        for c, cond in calls:
            if is_logging_call(c):
                continue
            r = self.resolve(c)
            if r is None:
                before.append(c)
                continue
            own_args = {id(x) for x in ast.walk(c)}
            if cond or r[0].name in stack or any(id(x) not in own_args for x in before):
                return None  # evaluated conditionally / recursion / another call completes first: inlining the body in front of the statement would reorder effects
            h, bound = r
            if isinstance(s, ast.Expr) and s.value is c:
                new = self.body_for(c, h, bound, "expr", None, s)
                return None if new is None else (new, h)
            if isinstance(s, ast.Return) and s.value is c:
                new = self.body_for(c, h, bound, "return", None, s)
                return None if new is None else (new, h)
            if isinstance(s, ast.Assign) and s.value is c and len(s.targets) == 1 and isinstance(s.targets[0], ast.Name):
                new = self.body_for(c, h, bound, "assign", s.targets[0].id, s)
                return None if new is None else (new, h)
            tmp = self.fresh(f"r__{h.name.strip('_')}")
            new = self.body_for(c, h, bound, "assign", tmp, s)
            if new is None:
                return None

            class Sub(ast.NodeTransformer):
                def visit_Call(self_, n):
                    if n is c:
                        return ast.copy_location(ast.Name(id=tmp, ctx=ast.Load()), n)
                    return self_.generic_visit(n)

            return new + [Sub().visit(s)], h
        return None

    # -- parallel assignments ------------------------------------------------------------------------------------------------------------------------
    def sequential(self, s):
        """[statements] equal to the parallel assignment `t1, t2 = v1, v2` (merged take-and-reset: `old, self.m = self.m, {}`), one target per statement, or None when s is not
        one. All values are evaluated before any target is bound: `t1 = v1; t2 = v2` is the same only when no later value can observe an earlier store (it reads neither the
        name / the attribute stored, nor - after a store to an attribute or an item - calls anything) and the targets themselves evaluate nothing; otherwise the values go
        through fresh temporaries first (`a, b = b, a`), which is exact in every case. The rules then see the shape they see for the two-statement spelling."""
        if not (isinstance(s, ast.Assign) and len(s.targets) == 1 and isinstance(s.targets[0], (ast.Tuple, ast.List)) and isinstance(s.value, (ast.Tuple, ast.List))):
            return None
        ts, vs = s.targets[0].elts, s.value.elts
        if len(ts) != len(vs) or len(ts) < 2 or any(isinstance(x, ast.Starred) for x in list(ts) + list(vs)):
            return None

        def observes(v, t):
            if isinstance(t, ast.Name):
                return any(isinstance(x, ast.Name) and x.id == t.id for x in ast.walk(v))
            if isinstance(t, ast.Attribute) and not any(isinstance(x, (ast.Call, ast.Subscript)) for x in ast.walk(t)):
                return any((isinstance(x, ast.Attribute) and x.attr == t.attr) or isinstance(x, (ast.Call, ast.Await)) for x in ast.walk(v))
            return not (isinstance(v, ast.Constant) or (isinstance(v, (ast.List, ast.Tuple)) and not v.elts) or (isinstance(v, ast.Dict) and not v.keys))  # item store: literals only

        plain = all(not any(isinstance(x, (ast.Call, ast.Await, ast.NamedExpr)) for x in ast.walk(t)) for t in ts) \
            and not any(observes(vs[j], ts[i]) for i in range(len(ts)) for j in range(i + 1, len(vs)))
        out = []
        if plain:
            for t, v in zip(ts, vs):
                out.append(ast.copy_location(ast.Assign(targets=[t], value=v), s))
        else:
            tmps = [self.fresh("v__parallel") for _ in vs]
            for nm, v in zip(tmps, vs):
                out.append(ast.copy_location(ast.Assign(targets=[ast.copy_location(ast.Name(id=nm, ctx=ast.Store()), v)], value=v), s))
            for nm, t in zip(tmps, ts):
                out.append(ast.copy_location(ast.Assign(targets=[t], value=ast.copy_location(ast.Name(id=nm, ctx=ast.Load()), t)), s))
        self.split += 1
        return out

    def block(self, stmts, stack=()):
        out = []
        todo = [(s, stack) for s in stmts]
        while todo:
            s, st = todo.pop(0)
            seq = self.sequential(s)
            if seq is not None:
                todo = [(x, st) for x in seq] + todo
                continue
            r = self.one(s, st)
            if r is not None:
                new, h = r
                todo = [(x, st + (h.name,)) if x is not s else (x, st) for x in new] + todo
                continue
            for fld in ("body", "orelse", "finalbody"):
                b = getattr(s, fld, None)
                if isinstance(b, list) and b and isinstance(b[0], ast.stmt):
                    setattr(s, fld, self.block(b, st))
            for hd in getattr(s, "handlers", []) or []:
                hd.body = self.block(hd.body, st)
            out.append(s)
        return out or ([ast.copy_location(ast.Pass(), stmts[0])] if stmts else [])


_expanded: dict = {}


def _expand(fn, repo):
    """fn analysed together with its private helpers (see above); fn itself when it calls none"""
    key = id(fn)
    if key in _expanded and _expanded[key][0] is fn:
        return _expanded[key][1]
    mod = source.module_of(fn)
    ex = _Expander(fn, mod, repo)
    body = ex.block(_clone(fn.body))
    if not ex.inlined and not ex.split:
        new = fn
    else:
        new = type(fn)(name=fn.name, args=_clone(fn.args), body=body, decorator_list=_clone(fn.decorator_list), returns=_clone(fn.returns), type_comment=None)
        if "type_params" in type(fn)._fields:
            new.type_params = []
        ast.copy_location(new, fn)
        ast.fix_missing_locations(new)
        source.set_parents(new)
        new._parent = source.parent(fn)
        for n in ast.walk(new):
            n._module = mod
        new._origin = fn
        new._inlined = list(ex.inlined)
    _expanded[key] = (fn, new)
    return new


def _origin(fn):
    return getattr(fn, "_origin", fn)


def _within(node, fn):
    """node (of the real module) lies in fn or in one of the private helpers that were inlined into fn"""
    ef = source.enclosing_func(node)
    return ef is not None and (ef is _origin(fn) or ef is fn or any(ef is h for h in getattr(fn, "_inlined", [])))


def _pure_defs(defs):
    """the single-assignment locals whose value is computed without calls other than pure builtins (len, min, ...): reading the local is reading the expression"""
    pure = {"len", "min", "max", "sum", "abs", "bool", "int", "float", "sorted", "list", "tuple", "set", "any", "all"}
    return {k: v for k, v in defs.items() if all(dotted(x.func) in pure for x in ast.walk(v) if isinstance(x, ast.Call)) and not any(isinstance(x, (ast.Await, ast.Yield)) for x in ast.walk(v))}


def _class_view(mod, cls, repo):
    """method name -> the method analysed together with its private helpers; helpers that were inlined into their caller are left out (their code is seen there)"""
    meths = mod.methods(cls)
    exp = {n: _expand(f, repo) for n, f in meths.items()}
    inl = {id(h) for f in exp.values() for h in getattr(f, "_inlined", [])}
    return {n: f for n, f in exp.items() if id(meths[n]) not in inl}


def _same_value_locals(fn):
    """name -> representative of the locals of fn that hold the same value through plain copies `a = b` (each of them stored once): the name a value travels under plays no role"""
    stores = collections.Counter(n.id for n in walk_body(fn) if isinstance(n, ast.Name) and isinstance(n.ctx, (ast.Store, ast.Del)))
    rep = {}

    def find(x):
        while rep.get(x, x) != x:
            x = rep[x]
        return x

    for n in walk_body(fn):
        if isinstance(n, ast.Assign) and len(n.targets) == 1 and isinstance(n.targets[0], ast.Name) and isinstance(n.value, ast.Name) and stores[n.targets[0].id] == 1 \
                and stores[n.value.id] <= 1:
            a, b = find(n.targets[0].id), find(n.value.id)
            if a != b:
                rep[a] = b
    return find


def _worker_list_attrs(dm):
    """Driver attributes that collect the started workers: self.<attr>.append(w) where w is what start_worker() is called with (role by data flow, not by attribute name). The
    start may be delegated: to another method of the driver or to a function nested in the method, which returns what it called start_worker() with; its result may be bound
    to a local first or appended directly."""
    out = set()

    def returns_started(h):
        hsame = _same_value_locals(h)
        hstarted = {hsame(c.args[0].id) for c in source.calls_in(h, attr="start_worker") if c.args and isinstance(c.args[0], ast.Name)}
        rets = [r for r in walk_body(h) if isinstance(r, ast.Return)]
        return bool(hstarted) and bool(rets) and all(isinstance(r.value, ast.Name) and hsame(r.value.id) in hstarted for r in rets)

    for m in dm.values():
        same = _same_value_locals(m)
        nested = {n.name: n for n in ast.walk(m) if isinstance(n, ast.FunctionDef) and n is not m}
        started = {same(c.args[0].id) for c in source.calls_in(m, attr="start_worker") if c.args and isinstance(c.args[0], ast.Name)
                   and not any(c in list(ast.walk(f_)) for f_ in nested.values())}

        def helper_of(call):
            f = call.func
            if isinstance(f, ast.Attribute) and isinstance(f.value, ast.Name) and f.value.id == "self" and f.attr in dm and dm[f.attr] is not m:
                return dm[f.attr]
            if isinstance(f, ast.Name) and f.id in nested:
                return nested[f.id]
            return None

        def starts(call):
            h = helper_of(call) if isinstance(call, ast.Call) else None
            return h is not None and returns_started(h)

        for n in walk_body(m):
            if isinstance(n, ast.Assign) and len(n.targets) == 1 and isinstance(n.targets[0], ast.Name) and starts(n.value):
                started.add(same(n.targets[0].id))
        for c in source.calls_in(m, attr="append"):
            if isinstance(c.func, ast.Attribute) and is_self_attr(c.func.value) and c.args and (
                    isinstance(c.args[0], ast.Name) and same(c.args[0].id) in started or starts(c.args[0])):
                out.add(c.func.value.attr)
    return out


def _client_to_worker_attrs(dm):
    """Driver attributes mapping a client id to the id of its worker: self.<attr>[client] = <id>, where <id> is the per-worker counter handed to start_worker()"""
    out = set()
    # functions nested in a method (a start-up step written as a local function) are looked at like methods
    for m in list(dm.values()) + [n for m_ in dm.values() for n in ast.walk(m_) if isinstance(n, ast.FunctionDef) and n is not m_]:
        given = {a.id for c in source.calls_in(m, attr="start_worker") for a in list(c.args[1:]) + [k.value for k in c.keywords] if isinstance(a, ast.Name)}
        counted = {n.target.id for n in walk_body(m) if isinstance(n, ast.AugAssign) and isinstance(n.target, ast.Name) and isinstance(n.op, ast.Add) and source.is_const(n.value, 1)}
        also = {a.id for c in source.calls_in(m, attr="create_client") for a in list(c.args) + [k.value for k in c.keywords] if isinstance(a, ast.Name)}
        ids = given & (counted | also)
        for n in walk_body(m):
            if isinstance(n, ast.Assign) and len(n.targets) == 1 and isinstance(n.targets[0], ast.Subscript) and is_self_attr(n.targets[0].value) and isinstance(n.value, ast.Name) and n.value.id in ids:
                out.add(n.targets[0].value.attr)
    return out


def _arrival_roles(repo, drv, jr, jr_calls):
    """parameters of joinpoint_reached by what the handler passes for them: 'id' = the message field the worker fills with an attribute of its own (its id), 'ts' = the field the
    message constructor fills with a clock read (the worker's own timestamp). Falls back to the positions (id, timestamp) when the chain cannot be followed."""
    ps = params_of(jr)
    roles = {"id": ps[1] if len(ps) > 1 else None, "ts": ps[2] if len(ps) > 2 else None}
    try:
        init = drv.methods(drv.cls("JoinPointReached")).get("__init__")
    except AnchorMissing:
        return roles
    if init is None or not jr_calls:
        return roles
    fields = {}
    for n in walk_body(init):
        if isinstance(n, ast.Assign) and len(n.targets) == 1 and is_self_attr(n.targets[0]):
            if isinstance(n.value, ast.Name) and n.value.id in params_of(init):
                fields[n.targets[0].attr] = ("param", n.value.id)
            elif isinstance(n.value, ast.Call) and (dotted(n.value.func) or "").startswith("time."):
                fields[n.targets[0].attr] = ("clock", None)
    cons = package_calls(repo, "JoinPointReached")

    def identity(c, arg):
        """arg is an attribute of the sending actor that is its identity: stored once outside the constructor, from a field of a message it received, and never changed"""
        cls = source.enclosing_class(c)
        if cls is None or not is_self_attr(arg):
            return False
        ws = [n for m in cls.body if isinstance(m, source.FUNC_TYPES) and m.name != "__init__" for n in walk_body(m) if isinstance(n, (ast.Assign, ast.AugAssign))
              and any(is_self_attr(t_, arg.attr) for t_ in (n.targets if isinstance(n, ast.Assign) else [n.target]))]
        return len(ws) == 1 and isinstance(ws[0], ast.Assign) and isinstance(ws[0].value, ast.Attribute) and isinstance(ws[0].value.value, ast.Name) \
            and ws[0].value.value.id in params_of(source.enclosing_func(ws[0]))[1:2]

    derived = {"id": [], "ts": []}
    for p, a in source.bind_args(jr_calls[0], jr).items():
        if isinstance(a, ast.Attribute) and isinstance(a.value, ast.Name) and a.attr in fields:
            kind, ip = fields[a.attr]
            if kind == "clock":
                derived["ts"].append(p)
            elif cons and all(identity(c, source.bind_args(c, init).get(ip)) for c in cons):
                derived["id"].append(p)
    if len(derived["id"]) == 1 and len(derived["ts"]) == 1:
        return {"id": derived["id"][0], "ts": derived["ts"][0]}
    return roles


def _ctor_params(drv, cls):
    """what a class of the module is constructed with: the parameters of its (inherited) __init__, or the annotated fields of a @dataclass, in order; None when neither exists"""
    for c in _Machine(drv)._mro(cls):
        init = drv.methods(c).get("__init__")
        if init is not None:
            return [p for p in params_of(init)[1:]]
    if _is_namedtuple_class(drv, cls):
        return [f for f, _ in _namedtuple_fields(cls)]
    if {"dataclass", "dataclasses.dataclass"} & {dotted(d.func if isinstance(d, ast.Call) else d) for d in cls.decorator_list}:
        return [st.target.id for c in reversed(_Machine(drv)._mro(cls)) for st in c.body if isinstance(st, ast.AnnAssign) and isinstance(st.target, ast.Name)]
    return None


def _row_view_model(drv):
    """(machine, row view object, model rows, is_joinpoint, tasks): a ClientAllocations object of the analysed module, filled through its own adder method with the rows of two
    clients - client 7: (JP, task, task, JP), client 9: (JP, None, JP, JP) - built from interpreted JoinPoint / TaskAllocation instances. Whatever container the view keeps its
    rows in (dicts, tuples, records) is its own business: the rules only call its methods on the model."""
    cached = getattr(drv, "_c01_row_view_model", None)
    if cached is not None:
        return cached
    CA = drv.cls("ClientAllocations")
    ij = drv.methods(CA).get("is_joinpoint")
    tk = drv.methods(CA).get("tasks")
    adders = [f for f in drv.methods(CA).values() if len(params_of(f)) == 3 and f.name not in ("tasks", "is_joinpoint", "__init__")]
    if ij is None or tk is None or len(adders) != 1:
        raise AnchorMissing("ClientAllocations.is_joinpoint / tasks / the method that adds a client's row")
    m2 = _Machine(drv)
    JPc, TAc = drv.cls("JoinPoint"), drv.cls("TaskAllocation")
    j0, j1 = m2.new(JPc, [0]), m2.new(JPc, [1])
    ta_params = _ctor_params(drv, TAc)
    if ta_params is None:
        raise AnchorMissing("what TaskAllocation is constructed with (an __init__ or the fields of a dataclass)")
    ta0, ta1 = (m2.new(TAc, [_Opaque(f"arg{i}") for i in range(len(ta_params))]) for _ in range(2))
    rows = {7: [j0, ta0, ta1, j1], 9: [j0, None, j1, j1]}
    view = m2.new(CA)
    for cid, row in rows.items():
        m2.apply(m2.getattr(view, adders[0].name), [cid, row], {})
    drv._c01_row_view_model = (m2, view, rows, ij, tk)
    # what the view's OWN is_joinpoint answers on a padding row: a worker all of whose clients idle through an element holds rows of None entries only (the allocator pads
    # the rows of idle clients); the answer - `all(...)` over no entries is True - is part of the model the drive routine is interpreted on (_drive_on_values)
    try:
        pad = m2.new(CA)
        m2.apply(m2.getattr(pad, adders[0].name), [7, [j0, None, j1]], {})
        drv._c01_padding_is_joinpoint = bool(m2.apply(m2.getattr(pad, ij.name), [1], {}))
    except _Cannot:
        drv._c01_padding_is_joinpoint = None
    return drv._c01_row_view_model


def _adapter_on_values(drv, repo, wcls, w_sampler, w_cancel, w_done):
    """O1.10 (executor adapter) on VALUES. The adapter's run routine (private helpers inlined) is interpreted up to its asyncio.gather(...) on a model row that the module's own
    allocator and row view produce for the parallel element (task a: 2 clients, task b: 1 client) on the clients 3, 5, 8; the adapter object is built by its own constructor from
    tokens that stand for the worker attributes handed over at the worker's construction site (roles by data flow: parameter <- argument <- `self.<attr>` of the worker; the row is
    the argument that comes from current_tasks_and_advance()). track.operation_parameters(...) and schedule_for(...) return records of what they were called with; calling an executor
    object gives a record of the object (the coroutine that is awaited). Conditions on configuration are tried both ways. What is read off the values handed to gather():
      executors   one awaited coroutine per (client, allocation) of the row, each from its own AsyncExecutor
      wiring      the executor of client c was constructed with c, the task of c's allocation, and keeps the worker's sampler / events under the attributes it adds samples to / sets / polls
      schedule    its schedule was computed from c's allocation and a parameter source created for c's task
      params      one parameter source per task: clients of the same task share it
      gather      one gather, awaited, over all of them
    Returns {name: (ok, detail)}; raises _Cannot when some part is outside the interpreted subset (the caller then falls back to the syntactic form of the same obligations)."""
    AD, EXc, CA = drv.cls("AsyncIoAdapter"), drv.cls("AsyncExecutor"), drv.cls("ClientAllocations")
    arun, ainit, einit, xcall = drv.methods(AD).get("run"), drv.methods(AD).get("__init__"), drv.methods(EXc).get("__init__"), drv.methods(EXc).get("__call__")
    if arun is None or ainit is None or einit is None or xcall is None:
        raise _Cannot("AsyncIoAdapter.run / __init__, AsyncExecutor.__init__ / __call__")
    arun = _expand(arun, repo)
    xcall = _expand(xcall, repo)
    ga = [n for n in walk_body(arun) if isinstance(n, ast.Call) and dotted(n.func) == "asyncio.gather"]
    if len(ga) != 1:
        raise _Cannot(f"{len(ga)} asyncio.gather(...) calls in AsyncIoAdapter.run")
    # roles of the executor's attributes by use: samples are added to it / it is set / it is polled
    xdefs = local_defs(xcall)

    def _attrs_with(meth):
        out = set()
        for c in source.calls_in(xcall):
            f = source.inline_node(c.func, xdefs)
            if isinstance(f, ast.Attribute) and f.attr == meth and is_self_attr(f.value):
                out.add(f.value.attr)
        return out

    x_sampler, x_set, x_polled = _attrs_with("add"), _attrs_with("set"), _attrs_with("is_set")
    if len(x_sampler) != 1 or not x_set or not x_polled:
        raise _Cannot("the executor attributes samples are added to / that are set / polled in AsyncExecutor.__call__")
    # the worker's construction site of the adapter: parameter -> worker attribute; the row parameter
    sites = [c for c in _calls_named(repo, drv, "AsyncIoAdapter") if source.enclosing_class(c) is wcls]
    if len(sites) != 1:
        raise _Cannot(f"{len(sites)} construction sites of AsyncIoAdapter in the worker")
    wfn = source.enclosing_func(sites[0])
    bound = source.bind_args(sites[0], ainit)
    tokens, row_params = {}, []
    for p_ in [x for x in params_of(ainit) if x != "self"]:
        a_ = bound.get(p_)
        if a_ is not None and is_self_attr(a_):
            tokens[p_] = _Opaque(f"worker.{a_.attr}")
        elif isinstance(a_, ast.Name) and wfn is not None:
            srcs = [n.value for n in walk_body(wfn) if isinstance(n, ast.Assign) and any(isinstance(t, ast.Name) and t.id == a_.id for t in n.targets)]
            if srcs and all(isinstance(v, ast.Call) and last_attr(v.func) == "current_tasks_and_advance" for v in srcs):
                row_params.append(p_)
            else:
                tokens[p_] = _Opaque(f"argument {p_}")
        else:
            tokens[p_] = _Opaque(f"argument {p_}")
    if len(row_params) != 1:
        raise _Cannot("the adapter parameter that receives the worker's current row (the result of current_tasks_and_advance())")
    by_attr = {t.what.split(".", 1)[1]: t for t in tokens.values() if t.what.startswith("worker.")}
    if not {w_sampler, w_cancel, w_done} <= set(by_attr):
        raise _Cannot(f"the worker attributes {sorted({w_sampler, w_cancel, w_done} - set(by_attr))} are not handed to the adapter as such")
    A, builder, is_prop = _matrix_builder(drv)
    tk = drv.methods(CA).get("tasks")
    adders = [f for f in drv.methods(CA).values() if len(params_of(f)) == 3 and f.name not in ("tasks", "is_joinpoint", "__init__")]
    if tk is None or len(adders) != 1:
        raise _Cannot("ClientAllocations.tasks / the method that adds a client's row")
    verdicts = {}

    def note(name, ok, detail):
        if name not in verdicts or (verdicts[name][0] and not ok):
            verdicts[name] = (ok, detail)

    for choice in (False, True):
        created, scheds = [], []

        def hook(d, args, kwargs, created=created, scheds=scheds):
            nm = d.split(".")[-1]
            if nm == "operation_parameters":
                created.append(_Obj(None, _label=f"parameter source #{len(created)}", args=list(args) + list(kwargs.values())))
                return created[-1]
            if nm == "schedule_for":
                scheds.append(_Obj(None, _label=f"schedule #{len(scheds)}", args=list(args) + list(kwargs.values())))
                return scheds[-1]
            return NotImplemented

        class _M(_Machine):
            def apply(self, callee, args, kwargs, e=None):
                if isinstance(callee, _Obj) and callee.cls is not None and self._member(callee.cls, "__call__")[0] is not None:
                    return _Obj(None, _label="coroutine", target=callee)
                return super().apply(callee, args, kwargs, e)

        m = _M(drv, call_hook=hook, choose=lambda node, choice=choice: choice)
        la, lb = _leaf("a", 2), _leaf("b", 1)
        alloc = m.new(A, [[_par("p", [la, lb])]])
        M = m.getattr(alloc, builder.name) if is_prop else m.apply(m.getattr(alloc, builder.name), [], {})
        if not (isinstance(M, (list, tuple)) and len(M) == 3 and all(isinstance(r, (list, tuple)) for r in M)):
            raise _Cannot("the allocation matrix of par(a x2, b x1) is not three rows")
        TAc = drv.cls("TaskAllocation")
        idx = [i for i in range(len(M[0])) if all(isinstance(r[i], _Obj) and r[i].cls is TAc for r in M)]
        if len(idx) != 1:
            raise _Cannot("the column of par(a x2, b x1) in the allocation matrix")
        cids = (3, 5, 8)
        view = m.new(CA)
        for cid, r in zip(cids, M):
            m.apply(m.getattr(view, adders[0].name), [cid, list(r)], {})
        row = m.apply(m.getattr(view, tk.name), [idx[0]], {})
        want = []
        for cid, r in zip(cids, M):
            ta = r[idx[0]]
            leaf = [lf for lf in (la, lb) if any(v is lf for v in ta.fields.values())]
            if len(leaf) != 1:
                raise _Cannot("the task of a model TaskAllocation")
            want.append((cid, ta, leaf[0]))
        ad = m.new(AD, [], dict(tokens, **{row_params[0]: row}))
        env = {"self": ad}
        state = {"gathered": None}

        def run_block(stmts):
            for st in stmts:
                if any(x is ga[0] for x in ast.walk(st)):
                    if isinstance(st, ast.Try):
                        return run_block(st.body)
                    out = []
                    for x in ga[0].args:
                        if isinstance(x, ast.Starred):
                            out.extend(m._iter(m.ev(x.value, env), x))
                        else:
                            out.append(m.ev(x, env))
                    state["gathered"] = out
                    return True
                if isinstance(st, source.FUNC_TYPES):
                    continue  # a nested function (client factory ...): calls of it give an opaque value
                m.stmt(st, env)
            return False

        try:
            if not run_block(arun.body):
                raise _Cannot("asyncio.gather(...) is not reached by interpreting the statements of AsyncIoAdapter.run in order")
        except (_Ret, _Brk, _Cont):
            raise _Cannot("AsyncIoAdapter.run leaves before asyncio.gather(...)")
        gathered = state["gathered"]

        def executor_of(aw):
            t = aw.fields.get("target") if isinstance(aw, _Obj) and aw.fields.get("_label") == "coroutine" else None
            for _ in range(3):  # through wrappers that are handed the executor (profiler)
                if not isinstance(t, _Obj) or t.cls is EXc:
                    break
                inner = [v for v in t.fields.values() if isinstance(v, _Obj) and v.cls is not None and m._member(v.cls, "__call__")[0] is not None]
                t = inner[0] if len(inner) == 1 else None
            return t if isinstance(t, _Obj) and t.cls is EXc else None

        how = f" (conditions on configuration taken as {choice})"
        exs = [executor_of(aw) for aw in gathered]
        distinct = all(x is not None for x in exs) and all(a_ is not b_ for i, a_ in enumerate(exs) for b_ in exs[i + 1:])
        note("executors", distinct and len(exs) == len(want), f"row of {len(want)} (client, allocation) pairs: {len(gathered)} awaited, {sum(1 for x in exs if x is not None)} of them coroutines of an executor"
             + ("" if distinct or not all(x is not None for x in exs) else ", one executor awaited twice") + how)
        wiring, schedule, shared = [], [], {}
        for cid, ta, leaf in want:
            mine = [x for x in exs if x is not None and any(isinstance(v, int) and not isinstance(v, bool) and v == cid for v in x.init_args.values())]
            if len(mine) != 1:
                wiring.append(f"client {cid}: {len(mine)} executor(s) constructed with its id")
                continue
            x = mine[0]
            vals = list(x.init_args.values())
            if not any(v is leaf for v in vals):
                wiring.append(f"client {cid}: its executor is not constructed with the task of its allocation ({leaf!r})")
            samp = x.fields.get(next(iter(x_sampler)))
            if samp is not by_attr[w_sampler]:
                wiring.append(f"client {cid}: samples are added to {samp!r}, not to the worker's self.{w_sampler}")
            for a_ in sorted(x_set):
                if x.fields.get(a_) is not by_attr[w_done]:
                    wiring.append(f"client {cid}: the event it sets (self.{a_}) is {x.fields.get(a_)!r}, not the worker's self.{w_done}")
            polled = {id(x.fields.get(a_)) for a_ in x_polled}
            if polled != {id(by_attr[w_cancel]), id(by_attr[w_done])}:
                wiring.append(f"client {cid}: the events it polls are {[repr(x.fields.get(a_)) for a_ in sorted(x_polled)]}, not the worker's self.{w_cancel} and self.{w_done}")
            ss = [v for v in vals if any(v is s_ for s_ in scheds)]
            if len(ss) != 1:
                schedule.append(f"client {cid}: {len(ss)} schedule(s) handed to its executor")
                continue
            ps = [v for v in ss[0].fields["args"] if any(v is c_ for c_ in created)]
            if not any(v is ta for v in ss[0].fields["args"]):
                schedule.append(f"client {cid}: its schedule is not computed from its own allocation")
            if len(ps) != 1 or not any(v is leaf for v in ps[0].fields["args"]):
                schedule.append(f"client {cid}: its schedule is not computed with a parameter source created for its task")
            else:
                shared.setdefault(id(leaf), []).append(ps[0])
        note("wiring", not wiring, (wiring[0] if wiring else f"clients {list(cids)}: own id, own task, worker's sampler / cancel / complete") + how)
        note("schedule", not schedule, (schedule[0] if schedule else "schedule_for(own allocation, parameter source of own task)") + how)
        one_per_task = len(created) == 2 and all(all(p_ is ps[0] for p_ in ps) for ps in shared.values())
        note("params", one_per_task and not schedule, f"{len(created)} parameter source(s) created for 2 tasks on 3 clients" + ("" if one_per_task else ": not one per task") + how)
        note("gather", isinstance(source.parent(ga[0]), ast.Await) and distinct and len(exs) == len(want), "gather(...) " + ("is" if isinstance(source.parent(ga[0]), ast.Await) else "is NOT") + f" awaited, over {len(gathered)} of {len(want)}" + how)
    return verdicts, arun, ga[0]


def _drive_on_values(drv, wcls, drive_name, view_attr, w_cancel, w_done, complete_from_call=None, calls=9, handlers=None, complete_when=None):
    """O1.9 (which rows the worker executes) on VALUES: Worker.drive - whatever it was split into, whether it repeats itself for a skipped row by recursion or in a loop - is
    interpreted on a model worker (its own constructor; the two request events, the thread pool, send / wakeupAfter / send_samples replaced by recording stand-ins; nothing of the
    repository is executed) over the model rows
         0 join point | 1 tasks | 2 empty | 3 tasks | 4 join point | 5 tasks | 6 tasks | 7 join point
    drive() is called once per Drive / wake-up that would call it; with complete_from_call=k the complete event is set before the k-th call (a CompleteCurrentTask that arrives while
    the row of call k-1 runs). Returns per call the list of what it did: ("jp", row) a JoinPointReached message sent (row: the one it carries, else the last one read),
    ("run", row) an executor adapter built from that row handed to the pool. Raises _Cannot outside the interpreted subset.
    With handlers=(name of the Drive handler, name of the WakeupMessage handler) nothing is assumed about WHICH wake-up calls drive(): the model worker is driven through its own
    message handlers (O1.12). drive() is called once (the end of the start-up handler); from then on every report of a join point is answered by ONE delivery of Drive (the driver's
    answer once all workers have arrived), and every wake-up the worker armed (wakeupAfter - counted, whatever delay it asks for) is delivered, one per step, to the WakeupMessage
    handler. The future the pool returns says done() == False at its first poll and True from the second one on (a row that takes longer than one wake-up interval), has no
    exception and is not running afterwards. complete_when=("running", r): the complete event is set right after the delivery that handed row r to the pool;
    complete_when=("pending", r): right after the Drive that answers the report of join point r (before the start wake-up). Returns (one list of events per delivery that did
    something, complete event still set?, outcome) with outcome None when the last join point was reported, else what stopped the worker."""
    JP, EMPTY, LAST = {0, 4, 7}, {2}, 7
    reads, trace, empties = [], [], {}

    class _PastEnd(Exception):
        pass

    def tasks(idx, *a, **k):
        if not isinstance(idx, int) or isinstance(idx, bool):
            raise _Cannot(f"the row view is asked for row {idx!r}")
        if not 0 <= idx <= LAST:
            trace[-1].append(("beyond", idx))  # located and wrong: the worker walked past the last join point (or backwards) without reporting it
            raise _PastEnd()
        reads.append(idx)
        return empties.setdefault(idx, []) if idx in EMPTY else [("row", idx)]

    _row_view_model(drv)
    pad_is_jp = getattr(drv, "_c01_padding_is_joinpoint", None)
    if pad_is_jp is None:
        raise _Cannot("what the row view's is_joinpoint answers on a row of padding entries (None for every client of the worker) cannot be interpreted")

    def is_joinpoint(idx):
        # the padding row answers what the module's own row view answers on it (interpreted on a model view): a drive routine that asks `at join point?` there must cope with it
        return idx in JP or (idx in EMPTY and pad_is_jp)

    def event(label):
        st = {"v": False}

        def is_set():
            return st["v"]

        def set_():
            st["v"] = True

        def clear():
            st["v"] = False

        for f in (is_set, set_, clear):
            f._model_callable = True
        return _Obj(None, is_set=is_set, set=set_, clear=clear, _label=label), st

    def row_in(v, depth=0, seen=None):
        """the model row a value was built from (searched through the fields of model objects and containers)"""
        seen = seen if seen is not None else set()
        if id(v) in seen or depth > 4:
            return None
        seen.add(id(v))
        if isinstance(v, list) and len(v) == 1 and isinstance(v[0], tuple) and len(v[0]) == 2 and v[0][0] == "row":
            return v[0][1]
        for i_, e_ in empties.items():
            if v is e_:
                return i_
        kids = [x for k_, x in v.fields.items() if k_ != "_label"] + list(v.init_args.values()) if isinstance(v, _Obj) else list(v) if isinstance(v, (list, tuple)) \
            else list(v.values()) if isinstance(v, dict) else []
        for x in kids:
            r = row_in(x, depth + 1, seen)
            if r is not None:
                return r
        return None

    def submit(what, *a, **k):
        r = row_in([what, list(a), k])
        if r is None:
            raise _Cannot("what the worker hands to its thread pool is not built from the row it read")
        trace[-1].append(("run", r))
        done = lambda *a_, **k_: None  # noqa: E731
        polls = {"n": 0}

        def is_done(*a_, **k_):
            polls["n"] += 1
            box["polled"] = True
            return polls["n"] >= 2

        def running(*a_, **k_):
            return polls["n"] < 2

        for f_ in (done, is_done, running):
            f_._model_callable = True
        return _Obj(None, result=done, done=is_done, exception=done, running=running, _label="future")

    def send(target, msg=None, *a, **k):
        if isinstance(msg, _Obj) and msg.cls is not None and msg.cls.name == "JoinPointReached":
            r = row_in(msg)
            trace[-1].append(("jp", r if r is not None else (reads[-1] if reads else None)))

    def nothing(*a, **k):
        return None

    box = {"armed": 0, "polled": False}

    def arm(*a, **k):
        box["armed"] += 1

    for f in (tasks, is_joinpoint, submit, send, nothing, arm):
        f._model_callable = True
    pools = {c.func.value.attr for m in drv.methods(wcls).values() for c in source.calls_in(m, attr="submit") if isinstance(c.func, ast.Attribute) and is_self_attr(c.func.value)}
    if len(pools) != 1:
        raise AnchorMissing("the worker attribute whose submit(...) starts the executor (self.<pool>.submit(...))")
    mach = _Machine(drv, attr_hook=lambda obj, name: {"send": send, "wakeupAfter": arm}.get(name, NotImplemented),
                    call_hook=(lambda d, a, k: 0.0 if d in ("time.perf_counter", "time.time", "time.monotonic") else NotImplemented) if handlers else None)
    wobj = mach.new(wcls)
    # attributes still None after the constructor that the drive routine (and what it calls) never stores: filled in by the start-up handlers from messages / the configuration
    # (configuration, track, ids, intervals ...) - values without a representative. What drive() itself manages (the pending future, the sampler ...) keeps its initial value.
    own = {t_.attr for f_ in _closure_in_module(drv, drv.methods(wcls)[drive_name]) for n in walk_body(f_) if isinstance(n, (ast.Assign, ast.AnnAssign, ast.AugAssign))
           for t_ in (n.targets if isinstance(n, ast.Assign) else [n.target]) if is_self_attr(t_)}
    for k_, v_ in list(wobj.fields.items()):
        if v_ is None and k_ not in own:
            wobj.fields[k_] = _Opaque(f"worker.{k_}")
    (done_ev, done_st), (cancel_ev, _) = event("complete event"), event("cancel event")
    wobj.fields.update({view_attr: _Obj(None, tasks=tasks, is_joinpoint=is_joinpoint, _label="row view"), w_done: done_ev, w_cancel: cancel_ev,
                        next(iter(pools)): _Obj(None, submit=submit, _label="pool"), "send_samples": nothing})
    if handlers is not None:
        drive_h, wake_h = handlers
        for h_ in handlers:
            if mach._member(wcls, h_)[0] is None:
                raise AnchorMissing(f"{wcls.name}.{h_}")
        outcome, idle, answered = None, 0, set()
        trace.append([])
        try:
            mach.apply(mach.getattr(wobj, drive_name), [], {})
            for _step in range(80):
                reported = [x[1] for c_ in trace for x in c_ if x[0] == "jp"]
                if LAST in reported:
                    break
                todo = [r for r in reported if r not in answered]
                trace.append([])
                if todo:
                    answered.add(todo[0])
                    mach.apply(mach.getattr(wobj, drive_h), [_Obj(None, client_start_timestamp=0.0, _label="Drive"), _Opaque("sender")], {})
                    if complete_when == ("pending", todo[0]):
                        done_st["v"] = True
                    continue
                if not box["armed"]:
                    outcome = "no wake-up is armed and no join point report is outstanding: nothing will ever call the worker again"
                    break
                box["armed"] -= 1
                box["polled"] = False
                mach.apply(mach.getattr(wobj, wake_h), [_Opaque("WakeupMessage"), _Opaque("sender")], {})
                if complete_when is not None and complete_when[0] == "running" and ("run", complete_when[1]) in trace[-1]:
                    done_st["v"] = True
                idle = 0 if trace[-1] or box["polled"] else idle + 1
                if idle >= 6:
                    outcome = ("six wake-ups in a row were delivered while no executor was running and no Drive was outstanding, and none of them advanced the worker "
                               f"(row index stays at {reads[-1] if reads else None}): it polls for ever, the join point is never reported")
                    break
            else:
                outcome = "the last join point is not reported within 80 deliveries"
        except _PastEnd:
            outcome = "the worker walked past the last join point"
        return [c_ for c_ in ([x for x in c_ if not (x[0] == "run" and x[1] in EMPTY)] for c_ in trace) if c_], done_st["v"], outcome
    for k in range(1, calls + 1):
        if complete_from_call == k:
            done_st["v"] = True
        trace.append([])
        try:
            mach.apply(mach.getattr(wobj, drive_name), [], {})
        except _PastEnd:
            break
        if ("jp", LAST) in trace[-1]:
            break
    # an executor started for an EMPTY row has nothing to run (no client is allocated to anything there): harmless for this property, not part of the comparison
    idle = lambda c_: bool(c_) and all(x[0] == "run" and x[1] in EMPTY for x in c_)  # noqa: E731
    return [[x for x in c_ if not (x[0] == "run" and x[1] in EMPTY)] for c_ in trace if not idle(c_)], done_st["v"]


def _same_entry(a, b, depth=0):
    """two values of two evaluations of the matrix builder on the SAME model schedule stand for the same matrix entry: model tasks (objects of the rule) by identity, objects of
    classes of the module field by field, containers element by element, plain values by equality; a value without a representative says nothing"""
    if isinstance(a, _Opaque) or isinstance(b, _Opaque) or depth > 6:
        return True
    if isinstance(a, _Obj) or isinstance(b, _Obj):
        if not (isinstance(a, _Obj) and isinstance(b, _Obj)) or a.cls is not b.cls:
            return False
        if a.cls is None:
            return a is b
        return set(a.fields) == set(b.fields) and all(_same_entry(a.fields[k], b.fields[k], depth + 1) for k in a.fields)
    if isinstance(a, (list, tuple)) and isinstance(b, (list, tuple)):
        return len(a) == len(b) and all(_same_entry(x, y, depth + 1) for x, y in zip(a, b))
    if isinstance(a, (set, frozenset)) and isinstance(b, (set, frozenset)):
        return len(a) == len(b) and all(any(_same_entry(x, y, depth + 1) for y in b) for x in a)
    if isinstance(a, dict) and isinstance(b, dict):
        return set(a) == set(b) and all(_same_entry(a[k], b[k], depth + 1) for k in a)
    return type(a) is type(b) and a == b


def _start_up_on_values(drv, driver_cls, start_name, hosts, sched):
    """O1.13 (which rows the workers are started with) on VALUES. Driver.start_benchmark - with whatever it was split into - is interpreted on a model driver (its own constructor;
    attributes the constructor leaves None and the routine never stores are values without a representative; conditions on the configuration are taken as False) for the model
    schedule `sched` and the load driver hosts `hosts` ([{"host": .., "cores": ..}]): the matrix builder class is constructed with the model schedule wherever the routine
    constructs it, calculate_worker_assignments(...) is interpreted with the model hosts in the place of its non-integer argument, `create_client` / `start_worker` of the driver's
    actor are recording stand-ins. Read off the recorded start_worker(...) calls: the one row view (a ClientAllocations of the module, filled by the interpreted code through its own
    adder) each worker was started with, and through the view's OWN tasks(index) method the (client id, entry) pairs it yields at every index.
    Returns (reference matrix, [[(index, client id, entry), ...] per started worker]); raises _Cannot / AnchorMissing when a role is not located or outside the interpreted subset."""
    A, builder, is_prop = _matrix_builder(drv)
    CA, JPc, TAc = drv.cls("ClientAllocations"), drv.cls("JoinPoint"), drv.cls("TaskAllocation")
    tk = drv.methods(CA).get("tasks")
    cwa = [f for f in drv.functions() if f.name == "calculate_worker_assignments"]
    start, _ = _Machine(drv)._member(driver_cls, start_name)
    if tk is None or len(cwa) != 1 or start is None:
        raise AnchorMissing("ClientAllocations.tasks / calculate_worker_assignments / Driver.start_benchmark")
    started, created = [], []

    def create_client(*a, **k):
        created.append(_Obj(None, _label=f"worker #{len(created)}", args=list(a) + list(k.values())))
        return created[-1]

    def start_worker(*a, **k):
        started.append(list(a) + list(k.values()))

    create_client._model_callable = start_worker._model_callable = True
    state = {"built": 0, "assigned": 0}

    def hook(d, args, kwargs):
        if d == A.name:
            state["built"] += 1
            return mach.new(A, [list(sched)])
        if d == cwa[0].name:
            state["assigned"] += 1
            swap = lambda v: v if isinstance(v, int) and not isinstance(v, bool) else [dict(h) for h in hosts]  # noqa: E731
            return mach.call_function(cwa[0], [swap(v) for v in args], {k: swap(v) for k, v in kwargs.items()})
        return NotImplemented

    mach = _Machine(drv, call_hook=hook, choose=lambda node: False)
    actor_ = _Obj(None, create_client=create_client, start_worker=start_worker, _label="driver actor")
    dobj = mach.new(driver_cls, [actor_, _Opaque("config")])
    own = {t_.attr for f_ in _closure_in_module(drv, start) for n in walk_body(f_) if isinstance(n, (ast.Assign, ast.AnnAssign, ast.AugAssign))
           for t_ in (n.targets if isinstance(n, ast.Assign) else [n.target]) if is_self_attr(t_)}
    for k_, v_ in list(dobj.fields.items()):
        if v_ is None and k_ not in own:
            dobj.fields[k_] = _Opaque(f"driver.{k_}")
    mach.apply(mach.getattr(dobj, start_name), [], {})
    if not state["built"] or not state["assigned"]:
        raise _Cannot(f"{driver_cls.name}.{start_name} does not construct {A.name}(...) / call {cwa[0].name}(...) by name")
    ref = mach.new(A, [list(sched)])
    M = mach.getattr(ref, builder.name) if is_prop else mach.apply(mach.getattr(ref, builder.name), [], {})
    if not (isinstance(M, (list, tuple)) and M and all(isinstance(r, (list, tuple)) for r in M) and len({len(r) for r in M}) == 1):
        raise _Cannot("the allocation matrix of the model schedule is not a rectangle of rows")
    is_entry = lambda v: isinstance(v, _Obj) and v.cls in (JPc, TAc)  # noqa: E731
    out = []
    for rec in started:
        views = [v for v in rec if isinstance(v, _Obj) and v.cls is CA]
        if len(views) != 1:
            raise _Cannot(f"start_worker(...) is handed {len(views)} {CA.name} objects")
        got = []
        for i in range(len(M[0])):
            for e in mach._iter(mach.apply(mach.getattr(views[0], tk.name), [i], {}), tk):
                vals = list(e.astuple()) if isinstance(e, _Rec) else [v for k_, v in e.fields.items() if k_ != "_label"] if isinstance(e, _Obj) and not is_entry(e) \
                    else list(e) if isinstance(e, (tuple, list)) else None
                ids = [v for v in (vals or []) if isinstance(v, int) and not isinstance(v, bool)]
                ents = [v for v in (vals or []) if is_entry(v)]
                if len(ids) != 1 or len(ents) != 1:
                    raise _Cannot(f"the row view returns `{e!r}`: not a (client id, entry) pair")
                got.append((i, ids[0], ents[0]))
        out.append(got)
    return [list(r) for r in M], out


class _AlreadyDecided(Exception):
    """leaves a rule section whose obligations were decided by a stronger method before"""


def _worker_sampler_attr(wm):
    """the worker attribute that holds Sampler(...) (None when there is not exactly one)"""
    c = sorted({n.targets[0].attr for m in wm.values() for n in walk_body(m) if isinstance(n, ast.Assign) and len(n.targets) == 1 and is_self_attr(n.targets[0])
                and isinstance(n.value, ast.Call) and last_attr(n.value.func) == "Sampler"})
    if len(c) != 1:
        raise _Cannot("the worker attribute that holds Sampler(...)")
    return c[0]


class _Section:
    """one rule section of run(): an anchor that cannot be located makes THIS rule inconclusive and lets the remaining rules be evaluated (a later rule that needs a role located
    by a skipped section is inconclusive too); a defect in one part of the protocol is still reported when another part has an unknown shape."""

    def __init__(self, chk, rid):
        self.chk, self.rid = chk, rid

    def __enter__(self):
        return self

    def __exit__(self, et, ev, tb):
        if et is None:
            return False
        if issubclass(et, _AlreadyDecided):
            return True
        if issubclass(et, AnchorMissing):
            self.chk.inconclusive.append(f"anchor missing: {ev}")
            return True
        if issubclass(et, _Cannot):
            self.chk.inconclusive.append(f"{self.rid}: not interpretable: {ev}")
            return True
        if issubclass(et, NameError):  # UnboundLocalError / free variable of a closure defined by a skipped section
            self.chk.inconclusive.append(f"{self.rid}: anchor missing: needs a role that an earlier rule could not locate ({ev})")
            return True
        return False


def run(chk):
    repo = chk.repo
    drv = repo.module(_D)
    chk.use(drv, repo.module("esrally/actor.py"))
    model = ActorModel(repo)
    chk.explanation = (
        "Decides the barrier/wake-up protocol skeleton: join points bracket every schedule element on all rows; Drive is constructed only behind the "
        "all-workers barrier and not-finished test; broadcasts iterate the full worker list; BenchmarkComplete exactly once behind barrier and finished; "
        "CompleteCurrentTask guarded by a per-step flag; the worker waits for its executor, ships samples and clears both events before JoinPointReached; "
        "the complete event is set only with cause; every normal exit of the wake-up chain has scheduled a successor (no dead end); "
        "the allocation matrix (O1.1), the worker's row index and the row view (O1.9, O1.10) are decided on VALUES: the builder / the methods are interpreted as syntax trees on model "
        "schedules and a model matrix (local interpreter, nothing of the repository is executed); methods are analysed together with the private helpers extracted from them; "
        "the first of several co-located clients of the task named by completed-by must not set the worker-wide complete event on static conditions alone (O1.11, decided on values); "
        "the worker driven through its own Drive / WakeupMessage handlers reaches every join point, with and without a completion request (O1.12, on values); "
        "Driver.start_benchmark hands every client's matrix row to exactly one worker under the client's own id on layouts with several clients per worker (O1.13, on values)."
    )
    chk.not_decided = ("races between the executor thread and the actor thread, FIFO/fairness assumptions, 'every client runs its task exactly once' as a count, "
                       "virtual time; the set of interleavings is not enumerated.")

    Driver = drv.cls("Driver")
    DA = model.actor("DriverActor")
    W = model.actor("Worker")
    TE = model.actor("TaskExecutionActor")
    # every method is analysed together with the private helpers extracted from it (see _expand); a helper that was inlined into its caller is not looked at a second time
    dm = _class_view(drv, Driver, repo)
    wm = _class_view(drv, W.node, repo)

    # ---- O1.1 join points bracket every element ---------------------------------------------------------
    chk.rule("O1.1", "in the allocation matrix the builder returns for representative schedules (interpreted on model values, helper methods followed) every row starts with one shared "
             "JoinPoint and holds one further shared, fresh JoinPoint after each schedule element, at the same position on every row; every TaskAllocation lies between the two join "
             "points of its element, each task once per client; join point ids are distinct; a join point names the completing clients of its own element only", 8,
             "any schedule with >= 2 elements: clients would run into the next element without synchronising (or deadlock at a missing join point on one row)")
    with _Section(chk, "O1.1"):
        allocation_matrix_rule(chk, "O1.1", drv)

    # ---- O1.2 barrier guards Drive ----------------------------------------------------------------------------
    chk.rule("O1.2", "Drive is constructed only in the routine reached from the JoinPointReached handler (private helpers analysed in place), behind the barrier test - the branch on the "
             "arrival counter, evaluated for 1, 2, 3 arrivals of 3 started workers: it must hold for the last arrival only - and the false edge of the finished test; the counter is "
             "incremented exactly once per arrival", 6,
             "two workers, the second slower: the first would be driven into the next element early")
    with _Section(chk, "O1.2"):
        jr = dm.get("joinpoint_reached")
        mv = dm.get("move_to_next_task")
        if jr is None or mv is None:
            raise AnchorMissing("Driver.joinpoint_reached / move_to_next_task")
        gjr = cfg_of(jr)
        wl = _worker_list_attrs(dm)  # the list of started workers (role: collects what start_worker() was called with)
        if not wl:
            raise AnchorMissing("the Driver attribute that collects the started workers (self.<attr>.append(w) next to start_worker(w, ...))")
        drive_sites = package_calls(repo, "Drive")
        if not drive_sites:
            raise AnchorMissing("construction of Drive")
        for c in drive_sites:
            fn = source.enclosing_func(c)
            cls = source.enclosing_class(c)
            if fn is None:
                raise AnchorMissing(f"function enclosing the construction of Drive at {source.loc(c)}")
            callers = [x for x in package_calls(repo, fn.name) if source.enclosing_func(x) is not fn]
            if not callers:
                chk.unknown("O1.2", f"no call site of {fn.name} (which constructs Drive) is visible by name", c)
                continue
            ok = cls is not None and cls.name == "DriverActor" and not fn.name.startswith("receive") and all(_within(x, mv) for x in callers)
            chk.ob("O1.2", f"Drive() constructed in {cls.name if cls else '?'}.{fn.name}, called only from Driver.move_to_next_task", ok, c,
                   f"callers: {sorted({source.qualname(x) for x in callers})}")
        mv_sites = package_calls(repo, "move_to_next_task")
        if not mv_sites:
            raise AnchorMissing("call of move_to_next_task")
        chk.ob("O1.2", "move_to_next_task called only from joinpoint_reached", all(_within(x, jr) for x in mv_sites), mv_sites[0], f"{len(mv_sites)} call site(s)")
        mv_calls = source.calls_in(jr, attr="move_to_next_task")  # as they appear in the handler routine (private helpers inlined)
        jr_calls = package_calls(repo, "joinpoint_reached")
        hjr = DA.methods.get("receiveMsg_JoinPointReached")
        if not jr_calls or hjr is None:
            raise AnchorMissing("call of joinpoint_reached / DriverActor.receiveMsg_JoinPointReached")
        hjr = _expand(hjr, repo)
        chk.ob("O1.2", "joinpoint_reached called only from the JoinPointReached handler", all(_within(x, hjr) for x in jr_calls), jr_calls[0], f"{len(jr_calls)} call site(s)")
        # barrier counter: the attribute incremented by one, unconditionally, per arrival; barrier test: the branch of the routine that reads it. The test is EVALUATED for arrived in
        # (1, 2, 3) of 3 started workers: it must separate exactly `arrived == 3`; the arm taken then is the barrier-closed arm
        incs = [n for n in walk_body(jr) if isinstance(n, ast.AugAssign) and is_self_attr(n.target) and isinstance(n.op, ast.Add) and source.is_const(n.value, 1)
                and not guards(n, path_sensitive=True)]
        counter, bt, res = None, None, None
        jdefs = _pure_defs(local_defs(jr))
        for n in walk_body(jr):
            if not isinstance(n, ast.If):
                continue
            test = source.inline_node(n.test, jdefs)
            reads = {x.attr for x in ast.walk(test) if is_self_attr(x)}
            cands = [i.target.attr for i in incs if i.target.attr in reads]
            if len(cands) != 1:
                continue
            # what the other attributes of the test stand for with three started workers: the worker list itself, or an attribute the class derives from it (n = len(self.workers))
            three = {w: ["w0", "w1", "w2"] for w in wl}
            others_, foreign, unknown_ = {}, [], []
            for x_ in sorted(reads - {cands[0]}):
                if x_ in wl:
                    others_[x_] = three[x_]
                    continue
                defs_ = [a_.value for m_ in dm.values() for a_ in walk_body(m_) if isinstance(a_, ast.Assign) and any(is_self_attr(t_, x_) for t_ in a_.targets) and m_.name != "__init__"]
                derived = [d_ for d_ in defs_ if any(is_self_attr(y_) and y_.attr in wl for y_ in ast.walk(d_))]
                try:
                    if derived and len(derived) == len(defs_):
                        others_[x_] = _me.ev(derived[0], {"self": _me.Record(**three)})
                    elif defs_:
                        foreign.append(x_)
                        others_[x_] = 3
                    else:
                        unknown_.append(x_)
                except _me.CannotEval:
                    unknown_.append(x_)
            if unknown_:
                continue
            vals = None
            for stand_in in (3, ["x0", "x1", "x2"]):  # an attribute that is not derived from the started workers: a number or a collection, whichever the test can be evaluated with
                trial = {k_: (stand_in if k_ in foreign else v_) for k_, v_ in others_.items()}
                try:
                    vals = [bool(_me.ev(test, {"self": _me.Record(**{cands[0]: a}, **trial)})) for a in (1, 2, 3)]
                    break
                except (_me.CannotEval, TypeError):
                    continue
            if vals is None:
                continue
            counter, bt, res, bt_reads = cands[0], n, vals, reads - {cands[0]}
            break
        if counter is None:
            raise AnchorMissing("barrier test on the arrival counter (attribute incremented by one per arrival) in joinpoint_reached")
        ok = bool(bt_reads) and not foreign and res[0] == res[1] and res[1] != res[2]
        closed_pol = bool(res[2])
        chk.ob("O1.2", "barrier: arrival counter == len(workers)", ok, bt, f"`{u(bt.test)}` for 1, 2, 3 of 3 workers: {res}" + ("" if ok else
               (" lets the step close before all workers arrived (or never)" if not foreign else f" compares the arrivals with {foreign} (not derived from the started workers {sorted(wl)})")))

        def closed(node):
            """node runs only when the barrier has just closed (explicit arm or what is left after a guard clause)"""
            return any(t is bt.test and pol == closed_pol for t, pol in guards(node, path_sensitive=True))

        def still_open(node):
            return any(t is bt.test and pol != closed_pol for t, pol in guards(node, path_sensitive=True))

        cinc = [n for n in walk_body(jr) if isinstance(n, (ast.AugAssign, ast.Assign)) and any(is_self_attr(t_, counter) for t_ in (n.targets if isinstance(n, ast.Assign) else [n.target]))
                and not (isinstance(n, ast.Assign) and source.is_const(source.inline_node(n.value, jdefs), 0))]  # a 0 that travels through a single-assignment local is the same reset
        btn = gjr.node_of(bt)
        ok = len(cinc) == 1 and isinstance(cinc[0], ast.AugAssign) and isinstance(cinc[0].op, ast.Add) and source.is_const(cinc[0].value, 1) \
            and gjr.dominated_by_nodes(btn, [gjr.node_of(cinc[0])]) and not guards(cinc[0], path_sensitive=True)
        chk.ob("O1.2", "arrival counter incremented exactly once per arrival, before the barrier test", ok, cinc[0] if cinc else jr, f"{len(cinc)} increment(s) of self.{counter}")
        others = [n for m in dm.values() for n in walk_body(m) if isinstance(n, (ast.Assign, ast.AugAssign)) and
                  any(is_self_attr(t, counter) for t in (n.targets if isinstance(n, ast.Assign) else [n.target])) and m.name not in ("__init__",) and not any(n is x for x in cinc)]
        for o in others:
            ok = isinstance(o, ast.Assign) and source.is_const(source.inline_node(o.value, jdefs) if source.enclosing_func(o) is jr else o.value, 0) and source.enclosing_func(o) is jr and closed(o)
            chk.ob("O1.2", "arrival counter reset only when the barrier closes", ok, o, short(o, 60))
        for x in mv_calls:
            gs = guards(x, path_sensitive=True)
            not_finished = _call_fact(x, "finished", False)
            chk.ob("O1.2", "next element driven only behind barrier and not finished", closed(x) and not_finished, x,
                   f"guards: {[(u(t), pol) for t, pol in gs]}")

    # ---- O1.2b broadcasts cover the whole worker list ----------------------------------------------------------------
    chk.rule("O1.2b", "the loops that send Drive and CompleteCurrentTask address every started worker exactly once (loop header and address argument evaluated for three started workers) "
             "with no filter, break, continue or return; each worker's start time is read from the per-step entry stored under that worker's id, the pair read in the order written", 3,
             ">= 2 workers: one worker is never driven / never told to complete, so the barrier never closes")
    with _Section(chk, "O1.2b"):
        for fname, sendname in (("move_to_next_task", "drive_at"), ("may_complete_current_task", "complete_current_task")):
            fn = dm.get(fname)
            if fn is None:
                raise AnchorMissing(f"Driver.{fname}")
            sends = source.calls_in(fn, attr=sendname)
            if not sends:
                raise AnchorMissing(f"{sendname} call in Driver.{fname}")
            # the argument that is the address the message goes to: the parameter the sending method hands to send() as target
            sm = DA.methods.get(sendname)
            tpar = [c_.args[0].id for c_ in source.calls_in(sm, attr="send") if c_.args and isinstance(c_.args[0], ast.Name) and c_.args[0].id in params_of(sm)] if sm is not None else []
            for c in sends:
                loop = source.enclosing(c, (ast.For, ast.While, ast.ListComp, ast.GeneratorExp, ast.SetComp, ast.DictComp), )
                addr = source.bind_args(c, sm).get(tpar[0]) if tpar else (c.args[0] if c.args else None)
                if not isinstance(loop, ast.For) or addr is None or fn not in list(source.ancestors(loop)):
                    chk.unknown("O1.2b", f"{fname}: the {sendname} call is not inside a for loop of the routine (broadcast shape not recognised)", c)
                    continue
                # the loop header and the address argument are EVALUATED for three started workers: every worker must be addressed exactly once
                mach = _Machine(drv)
                started = ["w0", "w1", "w2"]
                me_ = _Obj(None, **{w: list(started) for w in wl})
                step_entries, covered, keyed, timed = {}, [], [], []
                # the closed step's arrival map as move_to_next_task receives it: keyed by worker id, in ARRIVAL order (worker 2 first), every entry (worker's timestamp, receive
                # time) distinct; every other local the loop reads from in front of it (the coordinator's start time) is one number S. The time a worker is sent is then
                # ts + S - received of exactly one entry: it must be the entry of the worker addressed, however the loop pairs workers and entries
                S_ = 500000.0
                entries_ = {2: (3000.0, 30.0), 0: (1000.0, 10.0), 1: (2000.0, 20.0)}
                base_env = {"self": me_}
                if sendname == "drive_at":
                    fpar = [p_ for p_ in params_of(fn) if p_ != "self"]
                    if fpar:
                        base_env[fpar[0]] = dict(entries_)
                    bound_in_loop = {x.id for x in ast.walk(loop) if isinstance(x, ast.Name) and isinstance(x.ctx, ast.Store)}
                    read_in_loop = {x.id for x in ast.walk(loop) if isinstance(x, ast.Name) and isinstance(x.ctx, ast.Load)} - bound_in_loop
                    in_loop = {id(y) for y in ast.walk(loop)}
                    for n_ in walk_body(fn):  # the locals the loop reads from in front of it: what they evaluate to on the model (a list made of the map ...), else the number S
                        if isinstance(n_, ast.Assign) and id(n_) not in in_loop and len(n_.targets) == 1 and isinstance(n_.targets[0], ast.Name) and n_.targets[0].id in read_in_loop \
                                and n_.targets[0].id not in base_env:
                            try:
                                v_ = mach.ev(n_.value, dict(base_env))
                            except _Cannot:
                                v_ = S_
                            base_env[n_.targets[0].id] = S_ if isinstance(v_, _Opaque) else v_
                tpar_time = [p_ for p_ in (params_of(sm) if sm is not None else []) if p_ != "self" and tpar and p_ != tpar[0]]
                try:
                    for v in mach._iter(mach.ev(loop.iter, dict(base_env)), loop.iter):
                        env = dict(base_env)
                        mach.bind(loop.target, v, env)
                        for st_ in loop.body:  # plain assignments in front of the call (w = entry[1]; a, b = entry ...)
                            if isinstance(st_, ast.Assign) and len(st_.targets) == 1 and not any(isinstance(x, (ast.Call, ast.Attribute)) for x in ast.walk(st_.targets[0])) \
                                    and not any(isinstance(x, ast.Call) for x in ast.walk(st_.value)):
                                try:
                                    mach.bind(st_.targets[0], mach.ev(st_.value, env), env)
                                except _Cannot:
                                    pass
                        a_ = mach.ev(addr, env)
                        covered.append(a_)
                        if sendname == "drive_at" and len(tpar_time) == 1 and source.bind_args(c, sm).get(tpar_time[0]) is not None:
                            try:
                                tv_ = mach.ev(source.bind_args(c, sm)[tpar_time[0]], env)
                            except _Cannot:
                                tv_ = None
                            if isinstance(tv_, (int, float)) and not isinstance(tv_, bool):
                                timed.append((a_, [k_ for k_, (ts_, rc_) in entries_.items() if tv_ == ts_ + S_ - rc_]))
                        if sendname == "drive_at":
                            for n in ast.walk(loop):
                                if isinstance(n, ast.Subscript) and isinstance(n.value, ast.Name) and n.value.id in params_of(fn) and isinstance(n.ctx, ast.Load):
                                    try:
                                        k_ = mach.ev(n.slice, env)
                                    except _Cannot:
                                        continue  # a key that has no value in this iteration's bindings (the variable of a comprehension): the evaluation of the time sent decides
                                    if not isinstance(k_, _Opaque):
                                        keyed.append((a_, k_, n))
                except _Cannot as x:
                    chk.unknown("O1.2b", f"{fname}: broadcast loop `for {u(loop.target)} in {u(loop.iter)}` not interpretable: {x}", loop)
                    continue
                full = sorted(map(repr, covered)) == sorted(map(repr, started))
                cond = guards(c, stop=loop, path_sensitive=True)
                ok = full and not _has_jump(loop) and not cond
                detail = f"for ... in {u(loop.iter)} addresses {covered} of {started}" + ("" if full else " (not every started worker exactly once)") + (" with jump statements" if _has_jump(loop) else "") \
                    + (f" under {[(u(t), p) for t, p in cond]}" if cond else "")
                if ok and sendname == "drive_at":
                    # the per-step entry read for a worker is the one stored under that worker's id (= its position in the list of started workers)
                    by_value = [(w_, ks_[0]) for w_, ks_ in timed if len(ks_) == 1 and w_ in started]
                    if not keyed and not by_value:
                        chk.unknown("O1.2b", f"{fname}: no read of a per-worker entry of the closed step's arrival map in the Drive loop", loop)
                        continue
                    # the time actually sent decides; the keys read are the fallback where the time is not ts + S - received of one entry
                    wrong = [(w_, k_) for w_, k_, _ in keyed if not (w_ in started and k_ == started.index(w_))] if not by_value else []
                    wrong_v = [(w_, k_) for w_, k_ in by_value if k_ != started.index(w_)]
                    ok = not wrong and not wrong_v
                    detail += (f"; start time from {u(keyed[0][2])}" if keyed else "; start time evaluated on an arrival map filled in the order worker 2, 0, 1") \
                        + ("" if not wrong else f": (worker, key read) {wrong[:2]} is another worker's entry") \
                        + ("" if not wrong_v else f": (worker, worker whose timestamps its start time is computed from) {wrong_v[:3]} - the entry of another worker (entries taken in arrival order?)")
                chk.ob("O1.2b", f"{fname}: {sendname} to every worker", ok, c, detail)
        # the map key is the worker id of the arriving worker
        roles = _arrival_roles(repo, drv, jr, jr_calls)
        jdefs_ = local_defs(jr)
        stores = [n for n in walk_body(jr) if isinstance(n, ast.Assign) and isinstance(n.targets[0], ast.Subscript) and is_self_attr(n.targets[0].value)
                  and isinstance(n.value, ast.Tuple)]
        if len(stores) != 1:
            raise AnchorMissing("the one store of an arrival into the per-step map (self.<map>[<key>] = (<timestamp>, <clock read>)) in joinpoint_reached")
        key_ = source.inline_node(stores[0].targets[0].slice, jdefs_, no_calls=True)
        ok = isinstance(key_, ast.Name) and key_.id == roles["id"] and not guards(stores[0], path_sensitive=True)
        chk.ob("O1.2b", "per-step map keyed by the arriving worker's id", ok, stores[0], short(stores[0], 70) + ("" if ok else f": the key is not the worker id parameter `{roles['id']}` (or the store is conditional)"))
        stepmap = stores[0].targets[0].value.attr
        # the entry is (worker's own timestamp, coordinator's receive time); the start time sent back is worker_ts + (start - received): the same pair order at writer and reader
        dcall = source.calls_in(mv, attr="drive_at")
        # the reader: the unpacking of an entry into two locals - the entry read off the map parameter directly or arriving through a local / a loop variable (WHOSE entry it is, is
        # decided on values above; here only the order of the pair matters)
        unp = [n for n in walk_body(mv) if isinstance(n, ast.Assign) and isinstance(n.targets[0], ast.Tuple) and len(n.targets[0].elts) == 2 and all(isinstance(t, ast.Name) for t in n.targets[0].elts)
               and ((isinstance(n.value, ast.Subscript) and isinstance(n.value.value, ast.Name)) or isinstance(n.value, ast.Name))]
        unp = [n for n in unp if isinstance(n.value, ast.Subscript) and n.value.value.id in params_of(mv)] or unp
        elts = list(stores[0].value.elts)
        pos_ts = [i for i, e in enumerate(elts) if isinstance(source.inline_node(e, jdefs_, no_calls=True), ast.Name) and source.inline_node(e, jdefs_, no_calls=True).id == roles["ts"]]
        pos_ck = [i for i, e in enumerate(elts) if isinstance(e, ast.Call) and (dotted(e.func) or "").startswith("time.")]
        if not (len(elts) == 2 and len(pos_ts) == 1 and len(pos_ck) == 1 and dcall and unp and len(dcall[0].args) >= 2):
            chk.unknown("O1.2b", "start-time pair: the writer is not a pair of (worker timestamp parameter, clock read) or the reader does not unpack the pair (shape not recognised)", stores[0])
        else:
            e0, e1 = elts[pos_ts[0]], elts[pos_ck[0]]
            names = [t.id for t in unp[0].targets[0].elts]
            A, B = names[pos_ts[0]], names[pos_ck[0]]  # what the reader takes for the worker's timestamp / the coordinator's receive time, by position in the pair as written
            mdefs = local_defs(mv)
            inl = source.inline_node(dcall[0].args[1], mdefs, no_calls=True)
            free = {n.id for n in ast.walk(inl) if isinstance(n, ast.Name)} - {A, B}
            ok = False
            if len(free) == 1:
                S = next(iter(free))
                sdef = mdefs.get(S)
                ok = rat_equal(inl, parse_expr(f"{A} + {S} - {B}")) and sdef is not None and any(isinstance(x, ast.Call) and (dotted(x.func) or "") == dotted(e1.func) for x in ast.walk(sdef))
            detail = f"written {u(stores[0].value)}, read as ({', '.join(names)}), start time sent: {u(inl)}"
            chk.ob("O1.2b", "start time == worker's timestamp + (coordinator's start - coordinator's receive time), pair read in the order written", ok, stores[0], detail,
                   key="esrally/driver/driver.py:Driver.move_to_next_task:start-time-pair")

    # ---- O1.3 completion exactly once ------------------------------------------------------------------------------
    chk.rule("O1.3", "BenchmarkComplete is constructed at one site reached only behind barrier-complete and finished; the step attribute is incremented exactly "
             "once before the finished test; finished (evaluated for step 0, 1, 2 of 2) holds from the last step on and the number of steps is len(join_points)-1 (evaluated for 3 "
             "join points); counter and per-step map are reset before any message is sent", 6,
             "last element, any worker count: completion reported early, twice or never")
    with _Section(chk, "O1.3"):
        bc = package_calls(repo, "BenchmarkComplete")
        if not bc:
            raise AnchorMissing("construction of BenchmarkComplete")
        chk.ob("O1.3", "single construction site of BenchmarkComplete", len(bc) == 1, bc[0], f"{len(bc)} site(s)")
        for c in bc:
            fn = source.enclosing_func(c)
            if fn is None:
                raise AnchorMissing(f"function enclosing the construction of BenchmarkComplete at {source.loc(c)}")
            sites = [x for x in package_calls(repo, fn.name) if source.enclosing_func(x) is not fn and source.enclosing_class(x) is not None
                     and source.enclosing_class(x).name in ("Driver",)]
            if not sites:
                chk.unknown("O1.3", f"no call site of {fn.name} (which constructs BenchmarkComplete) in Driver is visible by name", c)
                continue
            ok = all(_within(x, jr) for x in sites)
            callers = source.calls_in(jr, attr=fn.name)
            for x in callers:
                ok = ok and closed(x) and _call_fact(x, "finished", True)
            chk.ob("O1.3", "completion only behind barrier and finished", ok and bool(callers), c, f"callers: {[source.loc(x) for x in sites]}")
        fin = dm.get("finished")
        if fin is None:
            raise AnchorMissing("Driver.finished")
        rets = [n for n in walk_body(fin) if isinstance(n, ast.Return)]
        sb = dm.get("start_benchmark")

        def _written(fn_, attr):
            return fn_ is not None and any(isinstance(n, (ast.Assign, ast.AugAssign)) and any(is_self_attr(t, attr) for t in (n.targets if isinstance(n, ast.Assign) else [n.target]))
                                           for n in walk_body(fn_))

        # roles, not operand positions: the total is the attribute start_benchmark assigns, the step attribute is the one joinpoint_reached writes. The returned expression is
        # EVALUATED for step in (0, 1, 2) of total 2: it must hold exactly from step == total on
        fexpr = source.inline_node(rets[0].value, local_defs(fin), no_calls=True) if len(rets) == 1 and rets[0].value is not None else None
        freads = sorted({x.attr for x in ast.walk(fexpr) if is_self_attr(x)}) if fexpr is not None else []
        steps_ = [a for a in freads if _written(jr, a) and not _written(sb, a)]
        totals_ = [a for a in freads if _written(sb, a) and not _written(jr, a)]
        if len(steps_) != 1 or len(totals_) != 1 or len(freads) != 2:
            raise AnchorMissing("Driver.finished: one expression over the step attribute (written by joinpoint_reached) and the number of steps (assigned by start_benchmark)")
        stepattr, total = steps_[0], totals_[0]
        try:
            shape = [bool(_me.ev(fexpr, {"self": _me.Record(**{stepattr: s, total: 2})})) for s in (0, 1, 2)]
        except _me.CannotEval as x:
            raise AnchorMissing(f"Driver.finished: `{u(fexpr)}` cannot be evaluated: {x}")
        # total assigned from len(<allocator>.join_points) - 1: evaluated for 3 join points
        tot = [n for n in walk_body(sb) if isinstance(n, ast.Assign) and any(is_self_attr(t, total) for t in n.targets)]
        if len(tot) != 1:
            raise AnchorMissing(f"the one assignment of self.{total} in start_benchmark")
        tv = source.inline_node(tot[0].value, {k: v for k, v in local_defs(sb).items() if not any(isinstance(x, ast.Call) and last_attr(x.func) != "len" for x in ast.walk(v))})
        # the number of steps may be taken from any of the allocator's views of the same matrix (join_points: one per barrier column; tasks_per_joinpoint: one entry per column
        # behind the first, EMPTY for an element left without tasks): driver attributes assigned once in start_benchmark are looked through, the views are replaced by model values
        # for 3 join points / 2 elements, the second of them empty, and the expression is evaluated. An expression that reads none of the views is "not recognised", not a finding.
        _views = {"join_points": ("JPS", ["j0", "j1", "j2"]), "tasks_per_joinpoint": ("TPJ", [{"t0", "t1"}, set()])}
        _sb_attrs = {}
        for n_ in walk_body(sb):
            if isinstance(n_, ast.Assign) and len(n_.targets) == 1 and is_self_attr(n_.targets[0]) and n_.targets[0].attr != total:
                _sb_attrs.setdefault(n_.targets[0].attr, []).append(n_.value)

        class _Through(ast.NodeTransformer):
            def __init__(self, depth=0):
                self.depth = depth

            def visit_Attribute(self, n):
                if n.attr in _views:
                    return ast.copy_location(ast.Name(id=_views[n.attr][0], ctx=ast.Load()), n)
                if is_self_attr(n) and isinstance(n.ctx, ast.Load) and len(_sb_attrs.get(n.attr, [])) == 1 and self.depth < 3:
                    return _Through(self.depth + 1).visit(source.clone(source.inline_node(_sb_attrs[n.attr][0], {k: v for k, v in local_defs(sb).items() if not any(
                        isinstance(x, ast.Call) and last_attr(x.func) != "len" for x in ast.walk(v))})))
                return self.generic_visit(n)

        tv_m = ast.fix_missing_locations(_Through().visit(source.clone(tv)))
        jp_reads = [x for x in ast.walk(tv_m) if isinstance(x, ast.Name) and x.id in ("JPS", "TPJ")]
        if not jp_reads:
            chk.unknown("O1.3", f"finished: step == len(join_points) - 1: self.{total} = {u(tv)} reads none of the allocator's views of the join points", tot[0])
        else:
            try:
                tval = _me.ev(tv_m, {v_[0]: v_[1] for v_ in _views.values()})
            except _me.CannotEval as x:
                raise AnchorMissing(f"start_benchmark: `{u(tv)}` cannot be evaluated: {x}")
            ok = shape == [False, False, True] and tval == 2
            chk.ob("O1.3", "finished: step == len(join_points) - 1", ok, fin, f"`{short(rets[0], 70)}` for step 0, 1, 2 of 2: {shape}; self.{total} = `{u(tv)}` = {tval} for 3 join points (2 elements)")
        sincs = [n for m in dm.values() for n in walk_body(m) if isinstance(n, (ast.AugAssign, ast.Assign)) and
                 any(is_self_attr(t, stepattr) for t in (n.targets if isinstance(n, ast.Assign) else [n.target])) and m.name != "__init__"]
        ok = len(sincs) == 1 and isinstance(sincs[0], ast.AugAssign) and source.is_const(sincs[0].value, 1) and isinstance(sincs[0].op, ast.Add) and source.enclosing_func(sincs[0]) is jr \
            and [t is bt.test and pol == closed_pol for t, pol in guards(sincs[0], path_sensitive=True)] == [True]
        chk.ob("O1.3", "step attribute incremented exactly once per closed barrier", ok, sincs[0] if sincs else jr, f"{len(sincs)} writer(s) of self.{stepattr} outside __init__")
        if sincs:
            # every evaluation of finished() in the handler routine (whatever the polarity / form of the test it feeds)
            fin_tests = [n for n in walk_body(jr) if isinstance(n, ast.Call) and last_attr(n.func) == "finished"]
            if not fin_tests:
                raise AnchorMissing("evaluation of finished() in joinpoint_reached")
            ok = all(gjr.dominated_by_nodes(gjr.node_of(t), [gjr.node_of(sincs[0])]) for t in fin_tests) and source.enclosing_func(sincs[0]) is jr
            chk.ob("O1.3", "step incremented before the finished test", ok, source.enclosing_stmt(fin_tests[0]), "")
        # resets before any message. A reset is an assignment of the attribute, on the barrier-closed path, whose VALUE - read through single-assignment locals and evaluated
        # in the state the barrier closes in (three arrivals counted and stored) - is 0 / an empty map, however the statement is spelt (`old, self.m = self.m, {}` has been
        # rewritten one target per statement by the expansion). Both attributes must be reset, each on every path to every sending call.
        jloc = local_defs(jr)
        closing = {"self": _me.Record(**{counter: 3, stepmap: {0: (1.0, 2.0), 1: (1.0, 2.0), 2: (1.0, 2.0)}})}

        def _fresh_empty(e):
            """True: e evaluates to 0 / an empty container in the closing state; False: to something else; None: not evaluable"""
            e = source.inline_node(e, jloc, no_calls=True)
            if isinstance(e, ast.Call) and dotted(e.func) in ("dict", "collections.OrderedDict", "OrderedDict") and not e.args and not e.keywords:
                return True
            try:
                v = _me.ev(e, closing)
            except (_me.CannotEval, TypeError):
                return None
            return (v == 0 and not isinstance(v, bool)) if isinstance(v, (int, float)) else (len(v) == 0 if isinstance(v, (dict, list, tuple, set)) else False)

        msg_calls = [c for c in source.calls_in(jr) if last_attr(c.func) in ("move_to_next_task", "on_benchmark_complete", "on_task_finished", "drive_at", "send")]
        resets, n_resets, unrec = {}, 0, []
        for attr_, what_ in ((counter, "arrival counter"), (stepmap, "per-step map")):
            writes_ = [n for n in walk_body(jr) if isinstance(n, ast.Assign) and any(is_self_attr(t, attr_) for t in n.targets) and closed(n)]
            verdicts = [(n, _fresh_empty(n.value)) for n in writes_]
            resets[attr_] = [n for n, v_ in verdicts if v_ is True]
            n_resets += len(resets[attr_])
            if not resets[attr_]:
                # another way of emptying it (map.clear(), counter -= n, del ..., an unpacking assignment, a value that cannot be evaluated) is a shape this rule does not judge
                unrec += [n for n, v_ in verdicts if v_ is None]
                unrec += [n for n in walk_body(jr) if closed(n) and not any(n is x for x in cinc) and (
                    (isinstance(n, ast.AugAssign) and is_self_attr(n.target, attr_))
                    or (isinstance(n, ast.Delete) and any(is_self_attr(x, attr_) for x in ast.walk(n)))
                    or (isinstance(n, ast.Assign) and not any(is_self_attr(t, attr_) for t in n.targets) and any(is_self_attr(x, attr_) and isinstance(x.ctx, ast.Store) for t in n.targets for x in ast.walk(t)))
                    or (isinstance(n, ast.Call) and isinstance(n.func, ast.Attribute) and n.func.attr in ("clear", "pop", "popitem") and is_self_attr(n.func.value, attr_))
                    or (isinstance(n, ast.Call) and dotted(n.func) == "setattr" and len(n.args) == 3 and source.is_const(n.args[1], attr_)))]
        first_reset = next((r_[0] for r_ in resets.values() if r_), None)
        if unrec:
            chk.unknown("O1.3", f"arrival counter / per-step map are emptied by `{short(unrec[0], 50)}` instead of a fresh assignment (reset shape not recognised)", unrec[0])
        else:
            missing = [what_ for attr_, what_ in ((counter, "arrival counter"), (stepmap, "per-step map")) if not resets[attr_]]
            late = [(what_, c) for attr_, what_ in ((counter, "arrival counter"), (stepmap, "per-step map")) if resets[attr_] for c in msg_calls
                    if not gjr.dominated_by_nodes(gjr.node_of(c), [gjr.node_of(r) for r in resets[attr_]])]
            ok = not missing and not late
            chk.ob("O1.3", "arrival counter and per-step map reset before any message is sent", ok, first_reset if first_reset is not None else jr,
                   f"{n_resets} reset(s), {len(msg_calls)} sending call(s)" + (f"; no assignment of 0 / an empty map to the {' and the '.join(missing)} when the barrier closes" if missing else "")
                   + (f"; `{short(late[0][1], 40)}` can run before the {late[0][0]} is reset" if late else ""))
        # what is handed to move_to_next_task is the map of the step that has just closed: the argument - traced through single-assignment locals and shallow copies to the read
        # of the map attribute - is read at a statement no reset of the attribute can run before
        jstmt = {n.targets[0].id: n for n in walk_body(jr) if isinstance(n, ast.Assign) and len(n.targets) == 1 and isinstance(n.targets[0], ast.Name) and n.targets[0].id in jloc}
        map_writes = [n for n in walk_body(jr) if isinstance(n, ast.Assign) and any(is_self_attr(t, stepmap) for t in n.targets)]
        for x in mv_calls:
            mvp = [p_ for p_ in params_of(mv) if p_ != "self"]
            a = source.bind_args(x, mv).get(mvp[0]) if mvp else None  # positional or by keyword
            if a is None:
                chk.unknown("O1.3", "what move_to_next_task is called with cannot be matched to its parameter (shape not recognised)", x)
                continue
            e, read_at = a, source.enclosing_stmt(x)
            for _ in range(12):
                if isinstance(e, ast.Name) and e.id in jstmt:
                    read_at, e = jstmt[e.id], jstmt[e.id].value
                elif isinstance(e, ast.Call) and not e.keywords and len(e.args) == 1 and dotted(e.func) in ("dict", "copy.copy", "copy.deepcopy", "copy", "deepcopy"):
                    e = e.args[0]
                elif isinstance(e, ast.Call) and not e.keywords and not e.args and isinstance(e.func, ast.Attribute) and e.func.attr == "copy":
                    e = e.func.value
                elif isinstance(e, ast.Dict) and e.keys == [None] and len(e.values) == 1:
                    e = e.values[0]
                else:
                    break
            if is_self_attr(e, stepmap):
                early = [r for r in map_writes if r is not read_at and gjr.path_exists(gjr.node_of(r), gjr.node_of(read_at))]
                chk.ob("O1.3", "the closed step's arrival map is handed to move_to_next_task", not early, x,
                       short(x, 60) + f": self.{stepmap} read at line {read_at.lineno}" + (f" after `{short(early[0], 50)}` (line {early[0].lineno}): not the arrivals of the closed step" if early else ""))
            elif _fresh_empty(e) is True or isinstance(e, ast.Constant):
                chk.ob("O1.3", "the closed step's arrival map is handed to move_to_next_task", False, x, short(x, 60) + f": `{short(e, 40)}` is not the map the arrivals were stored in (self.{stepmap})")
            else:
                chk.unknown("O1.3", f"move_to_next_task is called with `{short(a, 40)}`, which cannot be traced to a read of the per-step map self.{stepmap} (shape not recognised)", x)

    # ---- O1.4 completed-by broadcast at most once per step ----------------------------------------------------------------------
    chk.rule("O1.4", "every CompleteCurrentTask broadcast (wherever it was extracted to) is prevented by one boolean attribute that is set on the same path before the "
             "broadcast (guard facts evaluated with the attribute set) and cleared only when the barrier closes; the pending test maps client -> worker before it consults the "
             "worker-keyed arrival map; the 'any' selection is evaluated on three arrivals", 4,
             ">= 3 workers arriving one by one after the completing task: the broadcast is repeated, cutting short the next element")
    with _Section(chk, "O1.4"):
        mc = dm.get("may_complete_current_task")
        if mc is None:
            raise AnchorMissing("Driver.may_complete_current_task")
        gmc = cfg_of(mc)
        cc_calls = source.calls_in(mc, attr="complete_current_task")
        if not cc_calls:
            raise AnchorMissing("complete_current_task call in may_complete_current_task")
        # single-assignment locals that merely rename another local (x = y): facts are read through them
        mc_defs = local_defs(mc)
        alias = {k: v.id for k, v in mc_defs.items() if isinstance(v, ast.Name)}

        def canon(nm):
            seen_ = set()
            while nm in alias and nm not in seen_:
                seen_.add(nm)
                nm = alias[nm]
            return nm

        def blocked_by(c, attr):
            """with self.<attr> == True some condition on the way to c is false: decided by evaluating the atomic guard facts of c (negations pushed in, guard clauses included)"""
            for f_ in _fact_nodes(c, path_sensitive=True):
                if not any(is_self_attr(x, attr) for x in ast.walk(f_)):
                    continue
                try:
                    if not _me.ev(f_, {"self": _me.Record(**{attr: True})}):
                        return True
                except _me.CannotEval:
                    continue
            return False

        flag = None
        for c in cc_calls:
            cn = gmc.node_of(c)
            sets = [n for n in walk_body(mc) if isinstance(n, ast.Assign) and len(n.targets) == 1 and is_self_attr(n.targets[0]) and source.is_const(n.value, True)
                    and gmc.dominated_by_nodes(cn, [gmc.node_of(n)])]
            flags = sorted({n.targets[0].attr for n in sets if blocked_by(c, n.targets[0].attr)})
            f0 = flags[0] if flags else None
            if f0 is None:
                # a memo of another representation (a set of steps, a counter ...): something of the object is changed before the broadcast AND read on the way to it
                changed = {x.attr for n in walk_body(mc) if isinstance(n, (ast.Assign, ast.AugAssign, ast.Expr)) and gmc.dominated_by_nodes(cn, [gmc.node_of(n)])
                           for x in ast.walk(n) if is_self_attr(x) and (isinstance(x.ctx, ast.Store) or (isinstance(source.parent(x), ast.Attribute) and isinstance(source.parent(source.parent(x)), ast.Call)
                                                                                                    and source.parent(x).attr in ("add", "append", "update", "setdefault")))}
                read_ = {x.attr for f_ in _fact_nodes(c, path_sensitive=True) for x in ast.walk(f_) if is_self_attr(x)}
                if changed & read_:
                    chk.unknown("O1.4", f"the broadcast is controlled by self.{sorted(changed & read_)[0]}, which is not a boolean set to True before it (memo shape not recognised)", c)
                    continue
            flag = flag or f0
            ok = f0 is not None and f0 == flag
            chk.ob("O1.4", "broadcast guarded by `not <flag>` and flag set before it", ok, c, f"flag={f0}, {len(sets)} attribute(s) set to True before the broadcast"
                   + ("" if ok else ": no attribute that is set before the broadcast also prevents it when set"))
        if flag:
            clears = [n for m in dm.values() for n in walk_body(m) if isinstance(n, ast.Assign) and any(is_self_attr(t, flag) for t in n.targets)
                      and not source.is_const(n.value, True) and m.name != "__init__"]
            ok = len(clears) >= 1 and all(source.enclosing_func(n) is jr and closed(n) and source.is_const(n.value, False) for n in clears)
            chk.ob("O1.4", "flag cleared only when the barrier closes", ok, clears[0] if clears else jr, f"{len(clears)} clearing store(s)")
        # key-domain agreement: the per-step arrival map is keyed by WORKER id; the pending test must map client -> worker first (through the client -> worker map start_benchmark fills)
        c2w = _client_to_worker_attrs(dm)
        if not c2w:
            raise AnchorMissing("the Driver attribute mapping a client id to its worker's id (self.<map>[client] = <id given to start_worker>)")
        lookups = []
        for n in walk_body(mc):
            if isinstance(n, ast.Compare) and len(n.ops) == 1 and isinstance(n.ops[0], (ast.In, ast.NotIn)) and is_self_attr(n.comparators[0], stepmap):
                lookups.append((n, n.left))
            elif isinstance(n, ast.Subscript) and is_self_attr(n.value, stepmap):
                lookups.append((n, n.slice))
            elif isinstance(n, ast.Call) and isinstance(n.func, ast.Attribute) and n.func.attr in ("get", "__contains__") and is_self_attr(n.func.value, stepmap) and n.args:
                lookups.append((n, n.args[0]))
        mdefs = dict(mc_defs)
        # loop-local single assignments too
        for n in walk_body(mc):
            if isinstance(n, ast.Assign) and len(n.targets) == 1 and isinstance(n.targets[0], ast.Name):
                mdefs.setdefault(n.targets[0].id, n.value)
        for n, key in lookups:
            src = key
            for _ in range(4):
                if isinstance(src, ast.Name) and src.id in mdefs:
                    src = mdefs[src.id]
            if isinstance(src, ast.Call) and isinstance(src.func, ast.Attribute) and src.func.attr == "get" and src.args:
                src = ast.Subscript(value=src.func.value, slice=src.args[0], ctx=ast.Load())
            ok = isinstance(src, ast.Subscript) and is_self_attr(src.value) and src.value.attr in c2w
            chk.ob("O1.4", "arrival map (keyed by worker id) consulted with the client's worker id", ok, n,
                   f"key `{u(key)}` = `{u(src) if src is not None else '?'}`" + ("" if ok else f" is not a worker id obtained from self.{sorted(c2w)[0]}[client]: with several clients per worker the test reads the wrong entry"))
        if not lookups:
            if any(is_self_attr(x, stepmap) for x in walk_body(mc)):
                chk.unknown("O1.4", f"pending test: self.{stepmap} is read in may_complete_current_task in a form that is not recognised", mc)
            else:
                chk.ob("O1.4", "pending test for the completing task's clients", False, mc, "the completed-by branch never consults the per-step arrival map")
        # the decision to broadcast depends on nothing but (which join points complete their parent, already sent?, is a client of the completing task still pending?):
        # every condition on a path to a broadcast reads only those quantities. Roles by data flow: selections = locals computed from the arrivals parameter alone;
        # pending = locals filled / filtered under a test on the per-step arrival map
        if len(params_of(mc)) < 2:
            raise AnchorMissing("may_complete_current_task(self, <arrivals>)")
        tp = params_of(mc)[1]

        def _only_reads(e, names):
            loc = {x.id for x in ast.walk(e) if isinstance(x, ast.Name) and isinstance(x.ctx, ast.Store)}
            return {x.id for x in ast.walk(e) if isinstance(x, ast.Name) and isinstance(x.ctx, ast.Load)} - loc - {"len", "list", "set", "tuple", "sorted", "any", "all", "bool"} <= set(names) \
                and not any(is_self_attr(x) for x in ast.walk(e))

        selections = {t.id: n.value for n in walk_body(mc) if isinstance(n, ast.Assign) for t in n.targets if isinstance(t, ast.Name)
                      and isinstance(n.value, (ast.ListComp, ast.GeneratorExp, ast.SetComp, ast.Call)) and any(isinstance(x, ast.Name) and x.id == tp for x in ast.walk(n.value))
                      and _only_reads(n.value, [tp])}
        jl_names = sorted(selections)

        def _on_stepmap(e):
            return any(is_self_attr(x, stepmap) for x in ast.walk(e))

        pend_names = {n.func.value.id for n in walk_body(mc) if isinstance(n, ast.Call) and last_attr(n.func) in ("append", "add") and isinstance(n.func.value, ast.Name)
                      and any(_on_stepmap(source.inline_node(f_, mdefs)) for f_ in _fact_nodes(n))}
        pend_names |= {t.id for n in walk_body(mc) if isinstance(n, ast.Assign) for t in n.targets if isinstance(t, ast.Name)
                       and isinstance(n.value, (ast.ListComp, ast.GeneratorExp, ast.SetComp)) and any(_on_stepmap(i_) for g_ in n.value.generators for i_ in g_.ifs)}
        allowed = {canon(x) for x in jl_names} | {canon(x) for x in pend_names} | ({f"self.{flag}"} if flag else set())
        for c in cc_calls:
            extra = []
            for f_ in _fact_nodes(c, path_sensitive=True):
                reads = {canon(x.id) if isinstance(x, ast.Name) else u(x) for x in ast.walk(f_)
                         if (isinstance(x, ast.Name) and x.id not in ("len", "self", "any", "all", "bool")) or (isinstance(x, ast.Attribute) and isinstance(x.value, ast.Name) and x.value.id == "self")}
                if not reads <= allowed:
                    extra.append(u(f_))
            chk.ob("O1.4", "the broadcast depends only on (completing join points, already sent, pending clients of the completing task)", not extra, c,
                   f"quantities {sorted(allowed)}" + ("" if not extra else f"; further condition(s) {extra}: for some layout of clients on workers the element is never completed (or completed early)"),
                   key=f"{_D}:Driver.may_complete_current_task:broadcast-conditions:{cc_calls.index(c)}")
        # the join point object is shared by all rows, so its attributes describe the ELEMENT, not the arriving client: with 'any' an arrival counts only when the arriving client
        # executes a task of the element (a worker whose clients idle through the element reaches the join point at once). Decided on values: the selections over the arrivals are
        # evaluated for an arrival of client 0 / client 1 at a join point whose element is executed by client 0 only, and at a join point of an element without completed-by; the
        # 'any' selection is the one that selects the arrival of the executing client.
        from sa.minieval import CannotEval as Unknown, Record, ev as _ev
        jp_any = Record(any_task_completes_parent=[0], clients_executing_completing_task=[], num_clients_executing_completing_task=0, preceding_task_completes_parent=False)
        jp_none = Record(any_task_completes_parent=[], clients_executing_completing_task=[], num_clients_executing_completing_task=0, preceding_task_completes_parent=False)
        cases = [("client 0 (executes a task of the element)", Record(client_id=0, task=jp_any), 1), ("client 1 (idle in the element)", Record(client_id=1, task=jp_any), 0),
                 ("client 0 at a join point without completed-by", Record(client_id=0, task=jp_none), 0)]

        def _count(expr, arr):
            v = _ev(expr, {tp: [arr]})
            return len(list(v)) if isinstance(v, (list, tuple, set)) else int(bool(v))

        any_sel, undecided = None, []
        for nm, expr in selections.items():
            try:
                if _count(expr, cases[0][1]) == 1:
                    any_sel = any_sel or (nm, expr)
            except Unknown as e:
                undecided.append(f"{nm}: {e}")
        if any_sel is None:
            raise AnchorMissing("selection of arrivals that complete an 'any' element in may_complete_current_task" + (f" ({'; '.join(undecided)})" if undecided else ""))
        any_node = source.enclosing_stmt(any_sel[1])
        for what, arr, want in cases:
            try:
                got = _count(any_sel[1], arr)
            except Unknown as e:
                chk.unknown("O1.4", f"'any' selection for {what}: cannot evaluate: {e}", any_node)
                continue
            chk.ob("O1.4", f"'any': arrival of {what} {'completes' if want else 'does not complete'} the element", got == want, any_node,
                   f"`{short(any_sel[1], 110)}` selects {got} arrival(s)" + ("" if got == want else ": the element is completed although none of its tasks has finished (every request after the first is cut)" if got > want else ": the element never completes"),
                   key=f"{_D}:Driver.may_complete_current_task:any-arrival:{what.split(' (')[0]}:{want}")
        mc_sites = package_calls(repo, "may_complete_current_task")
        if not mc_sites:
            raise AnchorMissing("call of may_complete_current_task")
        mc_calls = source.calls_in(jr, attr="may_complete_current_task")
        ok = all(_within(x, jr) for x in mc_sites) and bool(mc_calls) and all(still_open(x) for x in mc_calls)
        chk.ob("O1.4", "completion check only while the barrier is still open", ok, mc_calls[0] if mc_calls else mc_sites[0], "")
        ccs = package_calls(repo, "CompleteCurrentTask")
        for c in ccs:
            fn = source.enclosing_func(c)
            if fn is None:
                raise AnchorMissing(f"function enclosing the construction of CompleteCurrentTask at {source.loc(c)}")
            callers = [x for x in package_calls(repo, fn.name) if source.enclosing_func(x) is not fn]
            if not callers:
                chk.unknown("O1.4", f"no call site of {fn.name} (which constructs CompleteCurrentTask) is visible by name", c)
                continue
            ok = all(_within(x, mc) for x in callers)
            chk.ob("O1.4", "CompleteCurrentTask constructed only for may_complete_current_task", ok, c, f"callers {[source.qualname(x) for x in callers]}")

    with _Section(chk, "O1.4"):
        from rules.C02 import joinpoint_lists_reset  # owned by rules/C02.py; the same necessary condition is decided on values by O1.1 (announce)

        joinpoint_lists_reset(chk, "O1.4", drv)

    # ---- worker roles (by data flow): the two request events, the executor future, the "start wake-up pending" flag ------------------------------------------------------------
    te = _class_view(drv, TE.node, repo)
    w_done, w_cancel, x_done = "complete", "cancel", "complete"
    try:
        revs = request_events(repo, drv)
        d_ = [(a, y) for a, (y, setters) in revs.items() if "receiveMsg_CompleteCurrentTask" in setters]
        o_ = [(a, y) for a, (y, setters) in revs.items() if "receiveMsg_CompleteCurrentTask" not in setters]
        if len(d_) == 1 and len(o_) == 1:
            (x_done, w_done), (_, w_cancel) = d_[0], o_[0]
    except AnchorMissing:
        pass
    fut_ = sorted({n.targets[0].attr for m in wm.values() for n in walk_body(m) if isinstance(n, ast.Assign) and len(n.targets) == 1 and is_self_attr(n.targets[0])
                   and isinstance(n.value, ast.Call) and last_attr(n.value.func) == "submit"})
    w_future = fut_[0] if len(fut_) == 1 else "executor_future"
    dr0, wk0 = wm.get("receiveMsg_Drive"), wm.get("receiveMsg_WakeupMessage")
    sd_ = sorted({n.targets[0].attr for n in (walk_body(dr0) if dr0 is not None else []) if isinstance(n, ast.Assign) and len(n.targets) == 1 and is_self_attr(n.targets[0]) and source.is_const(n.value, True)}
                 & {n.targets[0].attr for n in (walk_body(wk0) if wk0 is not None else []) if isinstance(n, ast.Assign) and len(n.targets) == 1 and is_self_attr(n.targets[0]) and source.is_const(n.value, False)})
    w_pending = sd_[0] if len(sd_) == 1 else "start_driving"

    def _recv(n, defs):
        """text of the receiver of a method call, single-assignment locals resolved (`fut = self.executor_future; fut.result()`)"""
        return inline(n.func.value, defs) if isinstance(n, ast.Call) and isinstance(n.func, ast.Attribute) else None

    def _jp_sends(fn):
        """send(...) calls of fn whose payload is a JoinPointReached (constructed in place or into a single-assignment local first)"""
        fdefs = local_defs(fn)
        out = []
        for c_ in source.calls_in(fn, attr="send"):
            pl = c_.args[1] if len(c_.args) >= 2 else None
            if isinstance(pl, ast.Name):
                pl = fdefs.get(pl.id)
            if isinstance(pl, ast.Call) and last_attr(pl.func) == "JoinPointReached":
                out.append(c_)
        return out

    def _jp(f_):
        return isinstance(f_, ast.Call) and last_attr(f_.func) == "at_joinpoint"

    # ---- O1.5 worker side of the barrier ------------------------------------------------------------------------------------------
    chk.rule("O1.5", "JoinPointReached is sent only in the join-point branch of the worker's drive routine, after waiting for the executor future (if any), "
             "shipping samples and clearing both events (cancel, complete)", 5,
             "completed-by in element k cuts short element k+1 (stale complete event), or the step closes while requests are still running")
    with _Section(chk, "O1.5"):
        wd = wm.get("drive")
        if wd is None:
            raise AnchorMissing("Worker.drive")
        gwd = cfg_of(wd)
        wdefs = local_defs(wd)
        jps = package_calls(repo, "JoinPointReached")
        if not jps:
            raise AnchorMissing("construction of JoinPointReached")
        chk.ob("O1.5", "single construction site of JoinPointReached", len(jps) == 1 and _within(jps[0], wd), jps[0], f"{len(jps)} site(s)")
        sends = _jp_sends(wd)
        if not sends and any(_within(c, wd) for c in jps):
            raise AnchorMissing("send(...) of the JoinPointReached message constructed in Worker.drive")
        for send in sends:
            sn = gwd.node_of(send)
            gs = guards(send, path_sensitive=True)
            fs_ = _fact_nodes(send)
            ok = len(fs_) == 1 and _jp(fs_[0])
            chk.ob("O1.5", "sent only at a join point", ok, send, f"guards {[(u(t), p) for t, p in gs]}")
            res = [n for n in walk_body(wd) if isinstance(n, ast.Call) and last_attr(n.func) == "result" and _recv(n, wdefs) == f"self.{w_future}"]
            ok = False
            if res:
                # only guarded by the join-point test and `future is not None` (guard facts: either arm, either polarity of the written test)
                extra = [f_ for f_ in _fact_nodes(res[0]) if not (_jp(f_) or _is_not(f_, _jp)) and inline(f_, wdefs) not in (f"self.{w_future} is not None", f"None is not self.{w_future}", f"self.{w_future}")]
                ok = not extra and not gwd.path_exists(sn, gwd.node_of(res[0]), avoid=[gwd.entry])
                # the send is not reachable from the arm of the future test that holds result() without passing result()
                ift = source.enclosing(res[0], ast.If)
                if ok and ift is not None:
                    tnode = gwd.node_of(ift)
                    arm = "true" if any(res[0] in list(ast.walk(s_)) for s_ in ift.body) else "false"
                    tstarts = gwd.edge_targets(tnode, arm)
                    ok = all(sn.id not in gwd.reachable([s], avoid=[gwd.node_of(res[0])]) for s in tstarts)
            elif [n for n in walk_body(wd) if isinstance(n, ast.Call) and last_attr(n.func) in ("result", "wait", "exception", "as_completed") and gwd.dominated_by_nodes(sn, [gwd.node_of(n)])]:
                chk.unknown("O1.5", f"the join-point branch waits for something, but not through self.{w_future}.result() (shape not recognised)", send)
                continue
            chk.ob("O1.5", "executor future awaited before the barrier message", ok, res[0] if res else send, "result() on the pending future precedes JoinPointReached" if ok else "the future is not (always) awaited")
            for what, pred in (("samples shipped", lambda n: isinstance(n, ast.Call) and last_attr(n.func) == "send_samples"),
                               ("cancel event cleared", lambda n: isinstance(n, ast.Call) and last_attr(n.func) == "clear" and _recv(n, wdefs) == f"self.{w_cancel}"),
                               ("complete event cleared", lambda n: isinstance(n, ast.Call) and last_attr(n.func) == "clear" and _recv(n, wdefs) == f"self.{w_done}")):
                xs = [n for n in walk_body(wd) if pred(n)]
                if not xs and "cleared" in what:
                    # the event may be cleared through another spelling (a loop over both events, a helper that is handed the event ...): a clear() whose receiver does not resolve to
                    # an attribute of the worker, in front of the message, is a shape this rule does not judge
                    other_ = [n for n in walk_body(wd) if isinstance(n, ast.Call) and last_attr(n.func) == "clear" and not (_recv(n, wdefs) or "").startswith("self.")
                              and gwd.dominated_by_nodes(sn, [gwd.node_of(n)])]
                    if other_:
                        chk.unknown("O1.5", f"{what}: no self.<event>.clear() for it, but `{short(other_[0], 50)}` clears something that is not written as an attribute of the worker "
                                            "(shape not recognised)", other_[0])
                        continue
                ok = bool(xs) and gwd.dominated_by_nodes(sn, [gwd.node_of(x) for x in xs])
                chk.ob("O1.5", f"{what} before JoinPointReached", ok, xs[0] if xs else send, "")

    # ---- O1.6 complete is set only with cause ---------------------------------------------------------------------------------------
    chk.rule("O1.6", "the complete event is set only (a) in the CompleteCurrentTask handler when not at a join point, (b) in the executor's finally under "
             "completes_parent / any_completes_parent of its own task", 3,
             "a plain sequential task following a parallel element is cut short")
    with _Section(chk, "O1.6"):
        ev_names = {w_done, x_done}

        def _on_event(n, meth):
            return isinstance(n, ast.Call) and isinstance(n.func, ast.Attribute) and n.func.attr == meth and last_attr(n.func.value) in ev_names

        sets = [n for m in repo.all_modules() for n in ast.walk(m.tree) if _on_event(n, "set")]
        if len(sets) < 2:
            raise AnchorMissing("set sites of the complete event")
        ex_call = drv.methods(drv.cls("AsyncExecutor")).get("__call__")
        hct = wm.get("receiveMsg_CompleteCurrentTask")
        if ex_call is None or hct is None:
            raise AnchorMissing("AsyncExecutor.__call__ / Worker.receiveMsg_CompleteCurrentTask")
        ex_call = _expand(ex_call, repo)
        edefs = local_defs(ex_call)
        reach_ = {id(f) for f in _closure_in_module(drv, _origin(ex_call)) + _closure_in_module(drv, _origin(hct))}
        for s in sets:
            if not (_within(s, hct) or _within(s, ex_call)):  # the handler is decided below as a truth table over (at join point, Drive pending), the executor right here
                if id(source.enclosing_func(s)) in reach_:
                    chk.unknown("O1.6", f"complete.set() in {source.qualname(s)}, a helper of the two sanctioned places that could not be analysed in place (shape not recognised)", s)
                    continue
                chk.ob("O1.6", f"complete.set() in {source.qualname(s)}", False, s, "set site outside the two sanctioned places")
        ex_sets = [n for n in walk_body(ex_call) if _on_event(n, "set") and _recv(n, edefs) == f"self.{x_done}"]
        # decided on VALUES: the conditions on the way to each set site (whatever their boolean structure: if / elif chain, one merged `a or b` test, guard clauses, locals,
        # private helpers) are extracted and evaluated for the executor of a task that completes nothing, of the task named by completed-by, and of a task of a
        # `completed-by: any` element; polls of the request events are free inputs
        try:
            x_events = set(request_events(repo, drv))
        except AnchorMissing:
            x_events = set()
        x_events |= {x_done}
        CAUSES = {"self.task.completes_parent": (True, False), "self.task.any_completes_parent": (False, True)}
        on_cause = {}
        for s in ex_sets:
            in_finally = any(isinstance(a, ast.Try) and any(s in list(ast.walk(fb)) for fb in a.finalbody) for a in source.ancestors(s))
            plain, open_ = _executed_on(s, ex_call, edefs, _task_env(False, False), x_events)
            on_cause[id(s)] = {c: _executed_on(s, ex_call, edefs, _task_env(*fl), x_events) for c, fl in CAUSES.items()}
            names = [c.split(".")[-1] for c, (st_, _) in on_cause[id(s)].items() if st_ != "no"]
            on_cause[id(s)]["plain"] = plain
            if in_finally and plain == "open":
                chk.unknown("O1.6", f"executor: `{u(s)}` is controlled by {open_}, which cannot be evaluated for a task that completes nothing (shape not recognised)", s)
                continue
            ok = in_finally and plain == "no"
            chk.ob("O1.6", "executor: complete.set() only for a task that completes its parent", ok, s, f"in finally={in_finally}, executed for a task with {names or 'neither flag'}; "
                   f"for a task without completes_parent / any_completes_parent: {plain}")

        # both causes must be signalled by the executor (several clients of one worker share the event: a finished completing client must end its siblings)
        for cause in CAUSES:
            sts = [(on_cause[id(s_)][cause], on_cause[id(s_)]["plain"]) for s_ in ex_sets if id(s_) in on_cause]
            sure = any(st_ == "yes" for (st_, _), _ in sts)
            # executed under further conditions that have no representative value, but never without the flag: the flag is what makes the difference
            cond = [o_ for (st_, o_), plain_ in sts if st_ == "open" and plain_ == "no"]
            unsure = [o_ for (st_, o_), plain_ in sts if st_ == "open" and plain_ != "no"]
            if not sure and not cond and unsure:
                chk.unknown("O1.6", f"executor: whether complete.set() is executed when {cause.split('.')[-1]} depends on {unsure[0]}, which cannot be evaluated (shape not recognised)", ex_call)
                continue
            have = sure or bool(cond)
            chk.ob("O1.6", f"executor signals completion when {cause.split('.')[-1]}", have, ex_call,
                   ("complete.set() in the finally is executed for this cause" + ("" if sure else f" (under further conditions {cond[0]})")) if have else
                   "no complete.set() for this cause: sibling clients in the same worker keep running, no worker reaches the join point, the race hangs",
                   key=f"{_D}:AsyncExecutor.__call__:cause:{cause}")

        complete_read_exemption_rule(chk, "O1.6", drv, ends_others=True)
        # the event is cleared at exactly one point of the step cycle: in the join-point branch of Worker.drive before JoinPointReached is sent. The coordinator sends
        # CompleteCurrentTask only for the step it has driven, so a request set after that point belongs to the running (or about to start) tasks; clearing it anywhere
        # else (wake-up handler, Drive handler, executor) loses a request that is never repeated.
        clears_ = [n for m_ in repo.all_modules() for n in ast.walk(m_.tree) if _on_event(n, "clear")]
        wd_ = wm.get("drive")
        if wd_ is None:
            raise AnchorMissing("Worker.drive")
        gwd = cfg_of(wd_)
        jp_send = _jp_sends(wd_)
        if not clears_ or not jp_send:
            raise AnchorMissing("complete.clear() / send(JoinPointReached)")
        for n in clears_:
            if not _within(n, wd_):
                chk.ob("O1.6", "complete.clear() only at the join point, before JoinPointReached is sent", False, n, f"in {source.qualname(n)}"
                       ": a CompleteCurrentTask that arrived between Drive and this point is wiped; the worker runs tasks of an element that is already completed and the request is never repeated",
                       key=f"{_D}:{source.qualname(n)}:complete.clear")
        for n in [n for n in walk_body(wd_) if _on_event(n, "clear")]:
            ok = gwd.dominated_by_nodes(gwd.node_of(jp_send[0]), [gwd.node_of(n)]) and any(_jp(f_) for f_ in _fact_nodes(n))
            chk.ob("O1.6", "complete.clear() only at the join point, before JoinPointReached is sent", ok, n, f"in {source.qualname(n)}" + ("" if ok else
                   ": a CompleteCurrentTask that arrived between Drive and this point is wiped; the worker runs tasks of an element that is already completed and the request is never repeated"),
                   key=f"{_D}:{source.qualname(n)}:complete.clear")

        # Worker handler: truth table over (J = at join point, S = Drive received but start wake-up pending)
        from sa.sym import UnknownAtom, truth_table

        hdefs = local_defs(hct)
        hsets = [n for n in walk_body(hct) if _on_event(n, "set")]

        def classify(n):
            n = source.inline_node(n, hdefs)  # `at_jp = self.at_joinpoint()` evaluated once and tested twice
            if _jp(n) and u(n.func) == "self.at_joinpoint":
                return "J"
            if is_self_attr(n, w_pending):
                return "S"
            return None

        from sa.sym import atoms_of

        free = []
        for s_ in hsets:
            for test, pol in guards(s_, path_sensitive=True):  # what is known to hold when the set runs: guard clauses (`if not at_joinpoint(): set; return`) count like else arms
                for a in atoms_of(test):
                    if classify(a) is None and u(a) not in free:
                        free.append(u(a))

        def classify2(n):
            c = classify(n)
            if c is not None:
                return c
            return u(n) if u(n) in free else None

        names = ["J", "S"] + free
        table_all, table_any = {}, {}
        for J in (False, True):
            for S in (False, True):
                results = []
                for fv in itertools.product([False, True], repeat=len(free)):
                    env = dict(zip(names, (J, S) + fv))
                    reach = False
                    for s_ in hsets:
                        val = True
                        for test, pol in guards(s_, path_sensitive=True):
                            rows = truth_table(test, names, classify2)
                            v = [r for e, r in rows if e == env][0]
                            val = val and (v == pol)
                        reach = reach or val
                    results.append(reach)
                table_all[(J, S)] = all(results)
                table_any[(J, S)] = any(results)
        want = {(False, False): True, (False, True): True, (True, True): True, (True, False): False}
        for k, v in want.items():
            what = {(False, False): "running tasks: complete must be set", (False, True): "running tasks (flag irrelevant): complete must be set",
                    (True, True): "Drive received, start wake-up pending: the request concerns the tasks about to start and must be remembered",
                    (True, False): "waiting at the join point after finishing the step: the request is stale and must be ignored"}[k]
            ok = table_all[k] if v else not table_any[k]
            chk.ob("O1.6", f"CompleteCurrentTask handler at (join point={k[0]}, drive pending={k[1]})", ok, hct,
                   f"{what}; handler sets complete: always={table_all[k]} sometimes={table_any[k]}" + (f" (depends on extra condition(s) {free})" if free else ""),
                   key=f"{_D}:Worker.receiveMsg_CompleteCurrentTask:table{k}")

    # ---- O1.7 wake-up chain has no dead end ----------------------------------------------------------------------------------------------
    chk.rule("O1.7", "every normal-exit path of the wake-up chain routines (worker / task executor WakeupMessage handlers, Worker.drive, handlers that submit "
             "to the pool) has sent a protocol message, armed a wake-up or tail-called the drive routine", 6,
             "parallel element with capped clients and completed-by: the worker sits at a row with nothing scheduled and the race hangs")
    with _Section(chk, "O1.7"):
        _always: dict = {}

        def always(view, name, pred, stack=()):
            """every normal path through the method `name` of the class passes a call satisfying pred (directly or through another method of the class that always does)"""
            key = (id(view), name, pred.__name__)
            if key in _always:
                return _always[key]
            fn_ = view.get(name)
            if fn_ is None or name in stack:
                return False
            g_ = cfg_of(fn_)
            ns = [g_.node_of(n) for n in walk_body(fn_) if isinstance(n, ast.Call) and (pred(n, fn_) or (isinstance(n.func, ast.Attribute) and isinstance(n.func.value, ast.Name)
                  and n.func.value.id == "self" and n.func.attr in view and n.func.attr != name and always(view, n.func.attr, pred, stack + (name,))))]
            r = bool(ns) and g_.must_pass(g_.entry, ns, normal_only=True)
            if not stack:
                _always[key] = r
            return r

        def is_progress(n, fn):
            nm = last_attr(n.func)
            payload = n.args[1] if nm == "send" and len(n.args) >= 2 else None
            if isinstance(payload, ast.Name):  # the message constructed into a (single-assignment) local first
                payload = local_defs(fn).get(payload.id)
            return nm == "wakeupAfter" or (isinstance(payload, ast.Call) and last_attr(payload.func) in ("JoinPointReached", "BenchmarkFailure", "BenchmarkCancelled", "ReadyForWork", "WorkerIdle")) \
                or (nm == "drive" and isinstance(n.func, ast.Attribute) and isinstance(n.func.value, ast.Name) and n.func.value.id == "self")

        def is_wakeup(n, fn):
            return last_attr(n.func) == "wakeupAfter"

        def nodes_of(fn, g, view, pred):
            """the calls of fn that satisfy pred, plus its calls of methods of the same class (shared helpers, not inlined) that satisfy it on every normal path"""
            return [g.node_of(n) for n in walk_body(fn) if isinstance(n, ast.Call) and (pred(n, fn) or (isinstance(n.func, ast.Attribute) and isinstance(n.func.value, ast.Name)
                    and n.func.value.id == "self" and n.func.attr in view and view[n.func.attr] is not fn and always(view, n.func.attr, pred)))]

        chain = [(W, wm, "receiveMsg_WakeupMessage"), (W, wm, "drive"), (W, wm, "receiveMsg_Drive"), (W, wm, "receiveMsg_StartWorker"),
                 (TE, te, "receiveMsg_WakeupMessage"), (TE, te, "receiveMsg_DoTask")]
        for cls, view, name in chain:
            fn = view.get(name)
            if fn is None:
                raise AnchorMissing(f"{cls.name}.{name}")
            gg = cfg_of(fn)
            pn = nodes_of(fn, gg, view, is_progress)
            ok = bool(pn) and gg.must_pass(gg.entry, pn)
            path = None
            if not ok:
                p = gg.find_path(gg.entry, gg.exit, avoid=pn)
                path = gg.describe_path(p) if p else None
            chk.ob("O1.7", f"{cls.name}.{name}: no dead end", ok, fn, f"{len(pn)} progress site(s)" + ("" if ok else "; a normal-exit path schedules nothing: " + " ".join(path or [])),
                   key=f"{_D}:{cls.name}.{name}:dead-end", path=path)
            for sub in [n for n in walk_body(fn) if isinstance(n, ast.Call) and last_attr(n.func) == "submit"]:
                wk = nodes_of(fn, gg, view, is_wakeup)
                ok = bool(wk) and gg.must_pass(gg.node_of(sub), wk, normal_only=True)
                chk.ob("O1.7", f"{cls.name}.{name}: submit arms a wake-up", ok, sub, "")
        # start_driving flag: set by Drive, consumed (reset) before drive() in the wake-up handler
        wk = wm["receiveMsg_WakeupMessage"]
        gwk = cfg_of(wk)
        sd_tests = [n for n in walk_body(wk) if isinstance(n, ast.If) and any(is_self_attr(x, w_pending) for x in ast.walk(n.test))]

        def _sd(n):
            """n executes only when start_driving was found set (guard fact, whichever arm / polarity the test is written in)"""
            return any(is_self_attr(f_, w_pending) or _pat.is_(f_, f"self.{w_pending} is True", f"self.{w_pending} == True") for f_ in _fact_nodes(n))

        resets = [n for n in walk_body(wk) if isinstance(n, ast.Assign) and any(is_self_attr(x, w_pending) for x in n.targets) and source.is_const(n.value, False) and _sd(n)]
        drives = [n for n in walk_body(wk) if isinstance(n, ast.Call) and u(n.func) == "self.drive" and _sd(n)]
        ok = bool(resets) and bool(drives)
        # the flag may be consumed by another kind of store (a tuple assignment that reads and clears it at once, a helper that is handed the worker ...): not judged here
        other_w = [n for n in walk_body(wk) if isinstance(n, (ast.Assign, ast.AugAssign, ast.AnnAssign, ast.Delete)) and not any(n is r_ for r_ in resets)
                   and any(is_self_attr(x, w_pending) and isinstance(x.ctx, (ast.Store, ast.Del)) for x in ast.walk(n))
                   and not (isinstance(n, ast.Assign) and len(n.targets) == 1 and is_self_attr(n.targets[0], w_pending) and isinstance(n.value, ast.Constant))]
        if not resets and other_w:
            chk.unknown("O1.7", f"the wake-up handler writes self.{w_pending} through `{short(other_w[0], 60)}` (hand-over shape not recognised)", other_w[0])
        else:
            chk.ob("O1.7", "Drive -> start_driving -> wake-up -> drive() hand-over", ok, sd_tests[0] if sd_tests else wk,
                   "flag consumed (reset) and drive() called" if ok else "start_driving is not consumed/reset before driving")
        dr = wm["receiveMsg_Drive"]
        ok = any(isinstance(n, ast.Assign) and any(is_self_attr(x, w_pending) for x in n.targets) and source.is_const(n.value, True) for n in walk_body(dr))
        chk.ob("O1.7", "Drive handler sets start_driving", ok, dr, "")
        # the flag means "a start wake-up is pending": once it is set the handler must arm exactly that wake-up on every path and must not start driving itself
        gdr = cfg_of(dr)
        sets_ = [n for n in walk_body(dr) if isinstance(n, ast.Assign) and any(is_self_attr(x, w_pending) for x in n.targets) and source.is_const(n.value, True)]
        wkn = nodes_of(dr, gdr, wm, is_wakeup)
        direct = [n for n in walk_body(dr) if isinstance(n, ast.Call) and u(n.func) == "self.drive"]
        ok = bool(sets_) and bool(wkn) and all(gdr.must_pass(gdr.node_of(s_), wkn, normal_only=True) for s_ in sets_) and not direct
        chk.ob("O1.7", "Drive handler: flag set => start wake-up armed on every path, no direct drive()", ok, direct[0] if direct else (sets_[0] if sets_ else dr),
               "" if ok else ("drive() is called with start_driving still set: the next polling wake-up is taken for the start wake-up and the worker advances while its clients are running"
                              if direct else "a path sets the flag without arming the wake-up"), key=f"{_D}:Worker.receiveMsg_Drive:flag-implies-wakeup")

    # ---- O1.9 index advance / join-point predicate ------------------------------------------------------------------------------------------
    chk.rule("O1.9", "the worker's row index advances by exactly one per read (current := next; next += 1) and `at join point` means ALL entries at the "
             "index are join points (the worker's methods and the row view are interpreted on a model matrix)", 3, "a row is skipped or executed twice; a worker with a mixed row treats it as a join point")
    with _Section(chk, "O1.9"):
        ca0 = W.methods.get("current_tasks_and_advance")
        aj0 = W.methods.get("at_joinpoint")
        if ca0 is None or aj0 is None:
            raise AnchorMissing("Worker.current_tasks_and_advance / Worker.at_joinpoint")
        CA = drv.cls("ClientAllocations")
        # the worker attribute that holds the row view: the receiver of the .tasks(...) / .is_joinpoint(...) calls of the two methods (and of the helpers they call)
        views = {c.func.value.attr for f in _closure_in_module(drv, ca0) + _closure_in_module(drv, aj0) for c in source.calls_in(f) if isinstance(c.func, ast.Attribute)
                 and c.func.attr in ("tasks", "is_joinpoint") and is_self_attr(c.func.value)}
        if len(views) != 1:
            raise AnchorMissing("the worker attribute holding its ClientAllocations (receiver of .tasks(...) / .is_joinpoint(...))")
        view_attr = next(iter(views))
        log = []

        def _model_view():
            def tasks(idx, *a, **k):
                log.append(("tasks", idx))
                return [("row", idx)]

            def is_joinpoint(idx):
                log.append(("is_joinpoint", idx))
                return False

            tasks._model_callable = is_joinpoint._model_callable = True
            return _Obj(None, tasks=tasks, is_joinpoint=is_joinpoint)

        mach = _Machine(drv)
        wobj = mach.new(W.node)  # the constructor is interpreted: the initial indices are the worker's own
        before = {k: v for k, v in wobj.fields.items() if isinstance(v, int) and not isinstance(v, bool)}
        wobj.fields[view_attr] = _model_view()
        got, asked = [], []
        for k in range(3):
            r = mach.apply(mach.getattr(wobj, ca0.name), [], {})
            got.append(r[0][1] if isinstance(r, list) and len(r) == 1 and isinstance(r[0], tuple) and r[0][0] == "row" else repr(r))
            n0 = len(log)
            mach.apply(mach.getattr(wobj, aj0.name), [], {})
            asked.append([i for what, i in log[n0:] if what == "is_joinpoint"])
        ok = got == [0, 1, 2]
        chk.ob("O1.9", "current := next; next += 1", ok, wm.get(ca0.name, ca0), f"three reads of a fresh worker return the rows {got}" + ("" if ok else " instead of [0, 1, 2]: a row is skipped or read twice"))
        ok = asked == [[0], [1], [2]]
        chk.ob("O1.9", "the row is read at the new current index", ok, wm.get(aj0.name, aj0), f"after the k-th read at_joinpoint() asks about row(s) {asked}" + ("" if ok else ": not the row that was just read"))
        # other writers of the index attributes (the integer attributes the reads changed)
        after = {k: v for k, v in wobj.fields.items() if isinstance(v, int) and not isinstance(v, bool)}
        idx_attrs = sorted(k for k in after if before.get(k) != after[k])
        if not idx_attrs:
            raise AnchorMissing("the worker's index attributes (integer attributes changed by current_tasks_and_advance)")
        inl_ = {id(h) for h in getattr(wm.get(ca0.name), "_inlined", [])}
        for attr in idx_attrs:
            ws = [n for m in wm.values() for n in walk_body(m) if isinstance(n, (ast.Assign, ast.AugAssign)) and
                  any(is_self_attr(t, attr) for t in (n.targets if isinstance(n, ast.Assign) else [n.target])) and m.name not in ("__init__", ca0.name)]
            bad = [w for w in ws if not (isinstance(w, ast.Assign) and source.is_const(w.value, 0) and source.enclosing_func(w).name == "receiveMsg_StartWorker")]
            chk.ob("O1.9", f"no other writer of {attr}", not bad, bad[0] if bad else wm.get(ca0.name, ca0), f"{len(ws)} other store(s)")
        # the row view on a model matrix of two clients: (join point, join point) / (task, None) / (task, join point)
        m2, view, rows, ij, tk = _row_view_model(drv)
        jp_is = [bool(m2.apply(m2.getattr(view, ij.name), [i], {})) for i in range(4)]
        ok = jp_is == [True, False, False, True]
        chk.ob("O1.9", "is_joinpoint: all entries are join points", ok, ij, f"rows (JP, JP), (task, None), (task, JP), (JP, JP) -> {jp_is}" + ("" if ok else ": a row that still holds a task is taken for a join point (or a join point is not recognised)"))

    with _Section(chk, "O1.9"):
        # which rows the worker executes, on values (see _drive_on_values): without a completion request every task row is handed to the pool once, in order, and every join point
        # is reported; a completion request never carries the worker past the next join point and is forgotten there (the first row of the next element runs)
        wd0 = W.methods.get("drive")
        if wd0 is None:
            raise AnchorMissing("Worker.drive")
        plain, _ = _drive_on_values(drv, W.node, wd0.name, view_attr, w_cancel, w_done)
        want = [[("jp", 0)], [("run", 1)], [("run", 3)], [("jp", 4)], [("run", 5)], [("run", 6)], [("jp", 7)]]
        ok = plain == want
        chk.ob("O1.9", "no completion request: every task row is executed once, in order, every join point is reported", ok, wm.get(wd0.name, wd0),
               "rows JP, tasks, empty, tasks, JP, tasks, tasks, JP; one drive() per Drive / wake-up -> " + (f"{plain}" if ok else f"{plain} instead of {want}: a task row is skipped, "
               "executed twice or out of order (or a join point is passed without a report)"), key=f"{_D}:Worker.drive:rows-executed")
        cut, still_set = _drive_on_values(drv, W.node, wd0.name, view_attr, w_cancel, w_done, complete_from_call=3)
        flat = [x for c_ in cut[2:] for x in c_]
        upto = flat[:flat.index(("jp", 4)) + 1] if ("jp", 4) in flat else flat
        after = flat[len(upto):]
        ok = cut[:2] == want[:2] and upto in ([("jp", 4)], [("run", 3), ("jp", 4)]) and after == [("run", 5), ("run", 6), ("jp", 7)]
        chk.ob("O1.9", "a completion request ends at the next join point: no row of a later element is skipped", ok, wm.get(wd0.name, wd0),
               f"complete event set while row 1 runs -> {cut}" + ("" if ok else ": expected [jp 0], [run 1], then (row 3 skipped or run) jp 4 reported, then run 5, run 6, jp 7"),
               key=f"{_D}:Worker.drive:completion-request-ends-at-join-point")

    # ---- O1.12 the worker, driven through its own handlers, reaches every join point ---------------------------------------------------------------
    chk.rule("O1.12", "the worker driven through its own message handlers reaches every join point (Worker.drive, the Drive handler and the WakeupMessage handler interpreted on a "
             "model worker over model rows; every wake-up the worker arms is delivered, every join point report is answered by one Drive, the executor's future is done at its "
             "second poll): whichever way a routine hands over to the next step - a direct call, a flag plus a wake-up - the hand-over is one the receiving handler acts on. Without a "
             "completion request every task row is executed once, in order; after a completion request (while a row runs / between Drive and the start wake-up) the rows up to the "
             "next join point may be skipped, the join point is reported and the next element runs in full", 3,
             "parallel element with more tasks than clients and completed-by (or CompleteCurrentTask arriving between Drive and the start wake-up): the worker skips a row and then "
             "waits for a wake-up whose handler finds nothing to do - it polls for ever, never reports the join point, the other workers are never told to complete, the race hangs")
    with _Section(chk, "O1.12"):
        wd0 = W.methods.get("drive")
        if wd0 is None:
            raise AnchorMissing("Worker.drive")
        hs = ("receiveMsg_Drive", "receiveMsg_WakeupMessage")

        def _judge(flat, cut_in):
            """flat list of events against: jp 0, rows 1 and 3 (element A), jp 4, rows 5 and 6 (element B), jp 7. Rows of element A that come after the point `cut_in` at which the
            completion request arrives (index into [1, 3]) may be left out; everything else is mandatory, once, in order."""
            a_rows = [("run", 1), ("run", 3)]
            if flat[:1] != [("jp", 0)] or ("jp", 4) not in flat:
                return False
            seg = flat[1:flat.index(("jp", 4))]
            must = a_rows if cut_in is None else a_rows[:cut_in]
            opt = [] if cut_in is None else a_rows[cut_in:]
            ok_a = seg[:len(must)] == must and seg[len(must):] in [opt[:i] for i in range(len(opt) + 1)]
            return ok_a and flat[flat.index(("jp", 4)) + 1:] == [("run", 5), ("run", 6), ("jp", 7)]

        for title, when, cut_in, key in (
                ("no completion request: every task row is executed once, in order, every join point is reported", None, None, "handlers-rows-executed"),
                ("completion request while row 1 runs: the next join point is reported, the next element runs in full", ("running", 1), 1, "handlers-completion-while-running"),
                ("completion request between Drive and the start wake-up: the next join point is reported, the next element runs in full", ("pending", 0), 0,
                 "handlers-completion-before-start")):
            tr_, _, outcome = _drive_on_values(drv, W.node, wd0.name, view_attr, w_cancel, w_done, handlers=hs, complete_when=when)
            flat = [x for c_ in tr_ for x in c_]
            ok = outcome is None and _judge(flat, cut_in)
            chk.ob("O1.12", title, ok, wm.get(wd0.name, wd0), "rows JP, tasks, empty, tasks, JP, tasks, tasks, JP; Drive / wake-ups delivered to the worker's own handlers -> "
                   + f"{flat}" + ("" if ok else (f": {outcome}" if outcome else ": a task row is skipped without cause, executed twice or out of order, or a join point is passed without a report")),
                   key=f"{_D}:Worker.drive:{key}")

    # ---- O1.10 every allocated (client, task) pair is run exactly once ------------------------------------------------------------------------------
    chk.rule("O1.10", "the worker's row view pairs every client with its own non-empty entry at the index; the executor adapter creates exactly one executor per (client, task allocation) "
             "of the row, unconditionally, and awaits all of them; one parameter source per task", 6,
             "a client's allocation is dropped (task runs with fewer clients) or started twice; a failed/late client is not awaited before the join point")
    with _Section(chk, "O1.10"):
        m2, view, rows, ij, tk = _row_view_model(drv)  # the model of O1.9 (built once per module); located here again so that this rule does not depend on O1.9 having got that far
        matrix_objs = [x for r in rows.values() for x in r if x is not None]

        def _pairs(i):
            """(client id, entry) of every element of the row view at index i; an element that does not carry an integer and an object of the model matrix is not recognised"""
            out = []
            for e in m2._iter(m2.apply(m2.getattr(view, tk.name), [i], {}), tk):
                # a record (named tuple of either spelling, dataclass, plain class) or a tuple / list: what matters is which VALUES it carries, not how they are named
                vals = list(e.astuple()) if isinstance(e, _Rec) else [v for k_, v in e.fields.items() if k_ != "_label"] if isinstance(e, _Obj) and not any(e is x for x in matrix_objs) \
                    else list(e) if isinstance(e, (tuple, list)) else None
                ids = [v for v in (vals or []) if isinstance(v, int) and not isinstance(v, bool)]
                ents = [v for v in (vals or []) if any(v is x for x in matrix_objs)]
                if len(ids) != 1 or len(ents) != 1:
                    raise _Cannot(f"the row view returns `{e!r}`: not a (client id, entry) pair")
                out.append((ids[0], ents[0]))
            return out

        bad = []
        for i in range(4):
            got_ = _pairs(i)
            want_ = [(cid, r[i]) for cid, r in rows.items() if r[i] is not None]
            if not (len(got_) == len(want_) and all(g[0] == w[0] and g[1] is w[1] for g, w in zip(sorted(got_, key=lambda p_: p_[0]), want_))):
                bad.append((i, [(c_, repr(x)) for c_, x in got_], [(c_, repr(x)) for c_, x in want_]))
        chk.ob("O1.10", "row view: (client id, its own entry) for every non-empty entry", not bad, tk, "clients 7 / 9 over four rows with join points, tasks and a None entry"
               + ("" if not bad else f": (index, returned, expected) {bad[0]}"))
    on_values = None
    with _Section(chk, "O1.10"):
        try:
            on_values = _adapter_on_values(drv, repo, W.node, _worker_sampler_attr(wm), w_cancel, w_done)
        except (_Cannot, _Raised, AnchorMissing) as x:
            on_values = None  # outside the interpreted subset: the same obligations in their syntactic form below
        if on_values is not None:
            verdicts, arun_x, gnode = on_values
            xsite = ([n for n in walk_body(arun_x) if isinstance(n, ast.Call) and last_attr(n.func) == "AsyncExecutor"] or [arun_x])[0]
            for nm_, text_, node_ in (("executors", "one executor per allocation of the row, unconditionally", xsite),
                                      ("wiring", "executor gets this client's id, this allocation's task and the worker's shared sampler / cancel / complete", xsite),
                                      ("schedule", "schedule computed for this allocation with the task's (shared) parameter source", xsite),
                                      ("params", "one parameter source per task (created on first sight only)", xsite),
                                      ("gather", "all executors of the row are awaited together", gnode)):
                chk.ob("O1.10", text_, verdicts[nm_][0], node_, "on values: " + verdicts[nm_][1], key=f"{_D}:AsyncIoAdapter.run:{nm_}")
    with _Section(chk, "O1.10"):
        if on_values is not None:
            raise _AlreadyDecided()
        AD = drv.cls("AsyncIoAdapter")
        arun = drv.methods(AD).get("run")
        einit = drv.methods(drv.cls("AsyncExecutor")).get("__init__")
        if arun is None or einit is None:
            raise AnchorMissing("AsyncIoAdapter.run / AsyncExecutor.__init__")
        exs_all = [n for n in walk_body(arun) if isinstance(n, ast.Call) and last_attr(n.func) == "AsyncExecutor"]
        if not exs_all:
            raise AnchorMissing("AsyncExecutor(...) in AsyncIoAdapter.run")
        AL_ = source.enclosing(exs_all[0], (ast.For, ast.While, ast.ListComp, ast.GeneratorExp, ast.SetComp, ast.DictComp))
        if not isinstance(AL_, ast.For) or not (is_self_attr(AL_.iter) or (isinstance(AL_.iter, ast.Call) and any(is_self_attr(x) for x in ast.walk(AL_.iter)))):
            raise AnchorMissing("for loop over the adapter's allocations around AsyncExecutor(...) in AsyncIoAdapter.run")
        exs = [n for n in ast.walk(AL_) if isinstance(n, ast.Call) and last_attr(n.func) == "AsyncExecutor"]
        ga0 = [n for n in walk_body(arun) if isinstance(n, ast.Call) and dotted(n.func) == "asyncio.gather"]
        if not ga0:
            raise AnchorMissing("asyncio.gather(...) in AsyncIoAdapter.run")
        awl = ga0[0].args[0].value.id if ga0[0].args and isinstance(ga0[0].args[0], ast.Starred) and isinstance(ga0[0].args[0].value, ast.Name) else None
        aw = [n for n in ast.walk(AL_) if isinstance(n, ast.Call) and awl is not None and u(n.func) == f"{awl}.append"]
        if not aw:
            # what is handed to gather() is not filled by `<list>.append(...)` inside the loop (another container idiom): located, but not judged in this syntactic form
            chk.unknown("O1.10", "the coroutines handed to asyncio.gather(...) are not collected by <list>.append(...) in the loop over the adapter's allocations (shape not recognised)", ga0[0])
        else:
            ok = len(exs) == 1 and len(aw) == 1 and not guards(exs[0], stop=AL_, path_sensitive=True) and not guards(aw[0], stop=AL_, path_sensitive=True) and not _has_jump(AL_)
            chk.ob("O1.10", "one executor per allocation of the row, unconditionally", ok, AL_, f"executors={len(exs)} awaitables.append={len(aw)}")
        tnames = [t.id for t in AL_.target.elts] if isinstance(AL_.target, ast.Tuple) and all(isinstance(t, ast.Name) for t in AL_.target.elts) else []
        if len(tnames) != 2:
            chk.unknown("O1.10", "the loop over the adapter's allocations does not unpack (client id, task allocation) (shape not recognised)", AL_)
        else:
            cidv, tav = tnames
            ldefs_ = {n.targets[0].id: n.value for n in ast.walk(AL_) if isinstance(n, ast.Assign) and len(n.targets) == 1 and isinstance(n.targets[0], ast.Name)}
            eps = [p for p in params_of(einit) if p != "self"]
            b = source.bind_args(exs[0], einit)
            # roles by the constructor's parameters: (client id, task, schedule, es, sampler, cancel, complete, on_error) - bound by name or position, whichever the call uses
            vals = [u(source.inline_node(b[p], ldefs_)) if p in b else None for p in eps]
            # the adapter attribute handed on is followed back to the worker attribute the adapter was constructed with (attribute names play no role)
            ainit = drv.methods(AD).get("__init__")
            ad_from = _attr_from_param(ainit)
            ad_sites = [c for c in package_calls(repo, "AsyncIoAdapter") if source.enclosing_class(c) is W.node]

            def from_worker(p):
                e = source.inline_node(b[p], ldefs_) if p in b else None
                q = ad_from.get(e.attr) if e is not None and is_self_attr(e) else None
                srcs = {a.attr if a is not None and is_self_attr(a) else None for a in (source.bind_args(c, ainit).get(q) for c in ad_sites)} if q and ad_sites else {None}
                return srcs.pop() if len(srcs) == 1 else None

            w_sampler_ = sorted({n.targets[0].attr for m in wm.values() for n in walk_body(m) if isinstance(n, ast.Assign) and len(n.targets) == 1 and is_self_attr(n.targets[0])
                                 and isinstance(n.value, ast.Call) and last_attr(n.value.func) == "Sampler"})
            if len(eps) < 7 or len(w_sampler_) != 1 or any(from_worker(eps[i]) is None for i in (4, 5, 6)):
                chk.unknown("O1.10", "the sampler / cancel / complete arguments of AsyncExecutor(...) cannot be followed back to attributes of the worker (shape not recognised)", exs[0])
            else:
                got_ = [from_worker(eps[i]) for i in (4, 5, 6)]
                ok = vals[0] == cidv and vals[1] == f"{tav}.task" and got_ == [w_sampler_[0], w_cancel, w_done]
                chk.ob("O1.10", "executor gets this client's id, this allocation's task and the worker's shared sampler / cancel / complete", ok, exs[0],
                       short(exs[0], 120) + f"; worker attributes behind (sampler, cancel, complete): {got_}")
            sf_ = [n for n in ast.walk(AL_) if isinstance(n, ast.Call) and last_attr(n.func) == "schedule_for"]
            if not sf_:
                raise AnchorMissing("schedule_for(...) in the loop over the adapter's allocations")
            sfd = [f for f in drv.functions() if f.name == "schedule_for"]
            sfb = source.bind_args(sf_[0], sfd[0], skip_self=False) if len(sfd) == 1 else {}
            sfa = [sfb.get(p_) for p_ in params_of(sfd[0])] if len(sfd) == 1 else list(sf_[0].args)  # in the order of the parameters, whether passed by position or by keyword
            ps_ = [n for n in ast.walk(AL_) if isinstance(n, ast.Call) and last_attr(n.func) == "operation_parameters"]
            if len(sfa) < 2 or sfa[0] is None or sfa[1] is None or not ps_:
                chk.unknown("O1.10", "the arguments of schedule_for(...) / the creation of the parameter source in the loop over the adapter's allocations (shape not recognised)", sf_[0])
            else:
                src_ = source.inline_node(sfa[1], {k: v for k, v in ldefs_.items() if isinstance(v, ast.Subscript)})
                ok = u(sfa[0]) == tav and isinstance(src_, ast.Subscript) and isinstance(src_.value, ast.Name)
                ppt = src_.value.id if ok else None
                if not ok and u(sfa[0]) == tav:
                    chk.unknown("O1.10", f"the parameter source handed to schedule_for(...) is `{u(sfa[1])}`, not an entry of a per-task map (shape not recognised)", sf_[0])
                else:
                    chk.ob("O1.10", "schedule computed for this allocation with the task's (shared) parameter source", ok, sf_[0], "")
                if ppt is not None:
                    ok = len(ps_) == 1 and _pat.guarded(ps_[0], "E_k not in V_p", stop=AL_, binds={"p": ppt}) is not None
                    if not ok and len(ps_) == 1 and guards(ps_[0], stop=AL_, path_sensitive=True):
                        chk.unknown("O1.10", f"the parameter source is created under `{u(guards(ps_[0], stop=AL_, path_sensitive=True)[-1][0])}`, not under `<task> not in {ppt}` (shape not recognised)", ps_[0])
                    else:
                        chk.ob("O1.10", "one parameter source per task (created on first sight only)", ok, ps_[0], "")
        if awl is None and isinstance(source.parent(ga0[0]), ast.Await):
            chk.unknown("O1.10", f"asyncio.gather({', '.join(u(x) for x in ga0[0].args)}) is not given one starred list (shape not recognised)", ga0[0])
        else:
            ok = len(ga0) == 1 and awl is not None and [u(x) for x in ga0[0].args] == [f"*{awl}"] and isinstance(source.parent(ga0[0]), ast.Await)
            chk.ob("O1.10", "all executors of the row are awaited together", ok, ga0[0], "")

    # ---- O1.13 every client's matrix row is handed to exactly one worker, under the client's own id ------------------------------------------------
    chk.rule("O1.13", "the workers are started with the allocation matrix split by client: Driver.start_benchmark (with whatever it delegates to) interpreted on model load-driver "
             "layouts in which workers simulate several clients hands every (client c, index i) with a non-empty matrix entry to exactly ONE worker, as the pair (c, entry [c][i] "
             "of the matrix) - read through the row view's own tasks(i); no worker is started without a client", 2,
             "more clients than cores on a load driver host (4 clients on 2 cores): the clients of a worker run the row of another client - its tasks (and its slot of a "
             "multi-client task) run twice, the rows of the other clients run never; join points are on every row so the race still completes")
    with _Section(chk, "O1.13"):
        T_, P_ = _leaf, _par
        sched_ = [P_("p", [T_("a", 1), T_("b", 1), T_("c", 1), T_("d", 1)]), T_("e", 4)]
        sb_node = dm.get("start_benchmark") or Driver
        for lname, hosts_ in (("1 host x 2 cores, 4 clients", [{"host": "h0", "cores": 2}]),
                              ("2 hosts (1 core, 3 cores), 4 clients", [{"host": "h0", "cores": 1}, {"host": "h1", "cores": 3}])):
            M_, per_worker = _start_up_on_values(drv, Driver, "start_benchmark", hosts_, sched_)
            seen_, bad_ = {}, []
            for wi, got_ in enumerate(per_worker):
                if not got_:
                    bad_.append(f"worker #{wi} is started without any client: it can never report a join point")
                for i, cid, ent in got_:
                    seen_.setdefault((cid, i), []).append((wi, ent))
            for c in range(len(M_)):
                for i, want_e in enumerate(M_[c]):
                    have = seen_.pop((c, i), [])
                    if want_e is None:
                        if have:
                            bad_.append(f"client {c} is handed an entry at index {i} where its matrix row is empty")
                    elif len(have) != 1:
                        bad_.append(f"client {c}, index {i}: handed to {len(have)} worker(s) (workers {[w_ for w_, _ in have]}) instead of exactly one")
                    elif not _same_entry(have[0][1], want_e):
                        whose = [c2 for c2 in range(len(M_)) if M_[c2][i] is not None and _same_entry(have[0][1], M_[c2][i])]
                        bad_.append(f"client {c}, index {i}: worker #{have[0][0]} runs it on {have[0][1]!r}" + (f", the entry of client {whose[0]}'s row" if whose else "") + f", not on its own {want_e!r}")
            for (cid, i) in sorted(seen_):
                bad_.append(f"a worker is handed a row under the client id {cid}, which the matrix of {len(M_)} rows does not have")
            chk.ob("O1.13", f"{lname}: every client's row goes to exactly one worker under the client's own id", not bad_, sb_node,
                   f"par(a, b, c, d), e x4 -> {len(per_worker)} worker(s) with {[sorted({c_ for _, c_, _ in g_}) for g_ in per_worker]}"
                   + ("" if not bad_ else f": {bad_[0]}" + (f" (+{len(bad_) - 1} more)" if len(bad_) > 1 else "")), key=f"{_D}:Driver.start_benchmark:rows-by-client")

    # ---- O1.11 the named task is done when ALL its clients are done (F44) ---------------------------------------------------------------------------
    chk.rule("O1.11", "a client of the task named by completed-by sets the worker-wide complete event only under a condition that depends on the progress of the task's other clients: "
             "evaluated for the first of two co-located clients of the named task to finish, the conditions controlling the set must not all hold on static task configuration, "
             "client id and request events alone", 1,
             "parallel element with completed-by: <task>, the named task has >= 2 clients, one of them shares a worker with a client of a sibling task (or with another client / a later "
             "row of the named task): the sibling is cut, the later client is never started, as soon as the first co-located client of the named task is done")
    with _Section(chk, "O1.11"):
        completing_client_signal_rule(chk, "O1.11", repo, drv)

    # ---- O1.8 advisory: executor honours the flags ---------------------------------------------------------------------------------------------
    ex0 = drv.methods(drv.cls("AsyncExecutor")).get("__call__")
    loops = [n for n in walk_body(ex0) if isinstance(n, ast.AsyncFor)] if ex0 is not None else []
    if loops:
        lb_ = [s_ for s_ in loops[0].body if not is_logging_stmt(s_)]
        first = lb_[0] if lb_ else loops[0]
        brk_ = [b_ for b_ in ast.walk(first) if isinstance(b_, ast.Break) and any(isinstance(f_, ast.Call) and u(f_.func).endswith("cancel.is_set") for f_ in _fact_nodes(b_, stop=loops[0]))]
        if not (isinstance(first, ast.If) and brk_):
            chk.adv("O1.8", "the request loop does not start with `if cancel.is_set(): break`", first)
        if not any(isinstance(n, ast.Call) and u(n.func) == "self.complete.is_set" for n in ast.walk(loops[0])):
            chk.adv("O1.8", "the request loop never reads complete.is_set()", loops[0])


from sa.selftest import V  # noqa: E402

_SNAP_OLD = "            workers_curr_step = self.workers_completed_current_step\n            self.workers_completed_current_step = {}\n"
_STEPS_OLD = "        self.number_of_steps = len(allocator.join_points) - 1\n        self.tasks_per_join_point = allocator.tasks_per_joinpoint\n"
_WL_OLD = '        worker_id = 0\n        for assignment in worker_assignments:\n            host = assignment["host"]\n            for clients in assignment["workers"]:\n                # don\'t assign workers without any clients\n                if len(clients) > 0:\n                    self.logger.debug("Allocating worker [%d] on [%s] with [%d] clients.", worker_id, host, len(clients))\n                    worker = self.driver_actor.create_client(host, self.config, worker_id)\n\n                    client_allocations = ClientAllocations()\n                    worker_client_contexts = {}\n                    for client_id in clients:\n                        client_allocations.add(client_id, self.allocations[client_id])\n                        self.clients_per_worker[client_id] = worker_id\n                        client_context = ClientContext(client_id=client_id, parent_worker_id=worker_id)\n\n                        if create_api_keys:\n                            resp = self.create_api_key(self.default_sync_es_client, client_id)\n                            client_context.api_key = ApiKey(id=resp["id"], secret=resp["api_key"])\n\n                        worker_client_contexts[client_id] = client_context\n                        self.client_contexts[worker_id] = worker_client_contexts\n                    self.driver_actor.start_worker(\n                        worker, worker_id, self.config, self.track, client_allocations, client_contexts=worker_client_contexts\n                    )\n                    self.workers.append(worker)\n                    worker_id += 1\n\n'
_WL_NESTED = '        def start_one(host, worker_id, clients):\n            self.logger.debug("Allocating worker [%d] on [%s] with [%d] clients.", worker_id, host, len(clients))\n            worker = self.driver_actor.create_client(host, self.config, worker_id)\n\n            client_allocations = ClientAllocations()\n            worker_client_contexts = {}\n            for client_id in clients:\n                client_allocations.add(client_id, self.allocations[client_id])\n                self.clients_per_worker[client_id] = worker_id\n                client_context = ClientContext(client_id=client_id, parent_worker_id=worker_id)\n\n                if create_api_keys:\n                    resp = self.create_api_key(self.default_sync_es_client, client_id)\n                    client_context.api_key = ApiKey(id=resp["id"], secret=resp["api_key"])\n\n                worker_client_contexts[client_id] = client_context\n                self.client_contexts[worker_id] = worker_client_contexts\n            self.driver_actor.start_worker(worker, worker_id, self.config, self.track, client_allocations, client_contexts=worker_client_contexts)\n            return worker\n\n        worker_id = 0\n        for assignment in worker_assignments:\n            host = assignment["host"]\n            for clients in assignment["workers"]:\n                # don\'t assign workers without any clients\n                if len(clients) > 0:\n                    self.workers.append(start_one(host, worker_id, clients))\n                    worker_id += 1\n\n'
VARIANTS = [
    V("F20: 'any' arrival selected by the shared join point only", "break", _D, "if a.client_id in a.task.any_task_completes_parent]", "if a.task.any_task_completes_parent]", "O1.4"),
    V("F20 fix written with a set", "keep", _D, "if a.client_id in a.task.any_task_completes_parent]", "if a.client_id in set(a.task.any_task_completes_parent)]", "O1.4"),
    V("seed m11: worker count compared with a client count", "break", _D, "            current_join_point = joinpoints_completing_parent[0].task\n", "            current_join_point = joinpoints_completing_parent[0].task\n            if self.currently_completed < current_join_point.num_clients_executing_completing_task:\n                return\n", "O1.4"),
    V("seed m12: completion request cleared when the start wake-up fires", "break", _D, "            self.start_driving = False\n            self.drive()", "            self.start_driving = False\n            self.complete.clear()\n            self.drive()", "O1.6"),
    V("F1: skip branch schedules nothing", "break", _D, "                # nothing is executed for the skipped tasks so no wakeup is pending: continue with the next entry right away.\n                self.drive()\n", "", "O1.7"),
    V("no join point after schedule elements", "break", _D, "            for client_index in range(max_clients):\n                allocations[client_index].append(next_join_point)\n            join_point_id += 1\n        return allocations",
      "            join_point_id += 1\n        return allocations", "O1.1"),
    V("join point only for rows in use", "break", _D, "            for client_index in range(max_clients):\n                allocations[client_index].append(next_join_point)\n            join_point_id += 1\n        return allocations",
      "            for client_index in range(min(max_clients, task.clients)):\n                allocations[client_index].append(next_join_point)\n            join_point_id += 1\n        return allocations", "O1.1"),
    V("join point skipped for empty elements", "break", _D, "            # let all clients join after each task, then we go on\n            next_join_point =", "            if start_client_index == 0:\n                continue\n            next_join_point =", "O1.1"),
    V("barrier off by one", "break", _D, "        if self.currently_completed == len(self.workers):", "        if self.currently_completed == len(self.workers) - 1:", None),
    V("barrier with >= 1", "break", _D, "        if self.currently_completed == len(self.workers):", "        if self.currently_completed >= 1:", None),
    V("barrier <=", "break", _D, "        if self.currently_completed == len(self.workers):", "        if self.currently_completed <= len(self.workers):", "O1.2"),
    V("drive before finished test", "break", _D, "            self.logger.debug(\"Postprocessing samples...\")\n            self.post_process_samples()\n            if self.finished():",
      "            self.logger.debug(\"Postprocessing samples...\")\n            self.post_process_samples()\n            self.move_to_next_task(workers_curr_step)\n            if self.finished():", "O1.2"),
    V("drive only first worker", "break", _D, "        for worker_id, worker in enumerate(self.workers):\n            worker_ended_task_at", "        for worker_id, worker in enumerate(self.workers[:1]):\n            worker_ended_task_at", "O1.2b"),
    V("complete broadcast breaks after first", "break", _D, "                for worker in self.workers:\n                    self.driver_actor.complete_current_task(worker)\n            else:",
      "                for worker in self.workers:\n                    self.driver_actor.complete_current_task(worker)\n                    break\n            else:", "O1.2b"),
    V("counter not reset", "break", _D, "            # we can go on to the next step\n            self.currently_completed = 0\n", "            # we can go on to the next step\n", "O1.3"),
    V("step incremented twice", "break", _D, "            self.current_step += 1\n\n            self.logger.debug(\"Postprocessing samples...\")", "            self.current_step += 1\n            self.current_step += 1\n\n            self.logger.debug(\"Postprocessing samples...\")", "O1.3"),
    V("finished off by one", "break", _D, "        self.number_of_steps = len(allocator.join_points) - 1", "        self.number_of_steps = len(allocator.join_points)", "O1.3"),
    V("flag not set on any-broadcast", "break", _D, "            self.complete_current_task_sent = True\n            for worker in self.workers:\n                self.driver_actor.complete_current_task(worker)\n\n        # If we have",
      "            for worker in self.workers:\n                self.driver_actor.complete_current_task(worker)\n\n        # If we have", "O1.4"),
    V("flag not cleared at barrier", "break", _D, "            self.currently_completed = 0\n            self.complete_current_task_sent = False\n", "            self.currently_completed = 0\n", "O1.4"),
    V("flag cleared in may_complete", "break", _D, "        joinpoints_completing_parent = [a for a in task_allocations if a.task.preceding_task_completes_parent]\n",
      "        joinpoints_completing_parent = [a for a in task_allocations if a.task.preceding_task_completes_parent]\n        self.complete_current_task_sent = False\n", "O1.4"),
    V("complete event not cleared at join point", "break", _D, "            self.cancel.clear()\n            self.complete.clear()\n            self.executor_future = None", "            self.cancel.clear()\n            self.executor_future = None", "O1.5"),
    V("future not awaited", "break", _D, "            if self.executor_future is not None:\n                self.executor_future.result()\n            self.send_samples()", "            self.send_samples()", "O1.5"),
    V("complete set even at a stale join point", "break", _D, "        elif self.at_joinpoint():\n            self.logger.info(\n                \"Worker[%s] has received CompleteCurrentTask but is currently at join point at index [%d]. Ignoring.\",",
      "        elif False:\n            self.logger.info(\n                \"Worker[%s] has received CompleteCurrentTask but is currently at join point at index [%d]. Ignoring.\",", "O1.6"),
    V("F13: request between Drive and wake-up ignored", "break", _D, "        if self.at_joinpoint() and self.start_driving:", "        if False:", "O1.6"),
    V("seed m2: complete only if future running", "break", _D, "            self.logger.info(\n                \"Worker[%s] has received CompleteCurrentTask. Completing tasks at index [%d].\", str(self.worker_id), self.current_task_index\n            )\n            self.complete.set()",
      "            if self.executor_future is not None and self.executor_future.running():\n                self.complete.set()", "O1.6"),
    V("executor sets complete unconditionally", "break", _D, "            elif any_task_completes_parent:\n                self.logger.info(", "            else:\n                self.logger.info(", "O1.6"),
    V("no wakeup after submit", "break", _D, "                self.executor_future = self.pool.submit(executor)\n                self.wakeupAfter(datetime.timedelta(seconds=self.wakeup_interval))", "                self.executor_future = self.pool.submit(executor)", "O1.7"),
    V("no drive after future done", "break", _D, "                    self.executor_future = None\n                    self.drive()\n            else:", "                    self.executor_future = None\n            else:", "O1.7"),
    V("start_driving never reset", "break", _D, "            self.start_driving = False\n            self.drive()", "            self.drive()", "O1.7"),
    V("is_joinpoint any", "break", _D, "        return all(isinstance(t.task, JoinPoint) for t in self.tasks(task_index))", "        return any(isinstance(t.task, JoinPoint) for t in self.tasks(task_index))", "O1.9"),
    V("index advanced twice", "break", _D, "        self.next_task_index += 1\n        self.logger.debug(\"Worker[%d] is at task index", "        self.next_task_index += 2\n        self.logger.debug(\"Worker[%d] is at task index", "O1.9"),
    V("seed m1: client id looked up in the worker-keyed map", "break", _D, "                worker_id = self.clients_per_worker[client_id]\n                if worker_id not in self.workers_completed_current_step:", "                if client_id not in self.workers_completed_current_step:", "O1.4"),
    V("seed m3: no completion signal for any", "break", _D, "            elif any_task_completes_parent:\n                self.logger.info(", "            elif False:\n                self.logger.info(", "O1.6"),
    V("row view drops the first client", "break", _D, "        for allocation in self.allocations:\n            tasks_at_index = allocation[\"tasks\"][task_index]", "        for allocation in self.allocations[1:]:\n            tasks_at_index = allocation[\"tasks\"][task_index]", "O1.10"),
    V("executor only for the first allocation", "break", _D, "            awaitables.append(final_executor())", "            if not awaitables:\n                awaitables.append(final_executor())", "O1.10"),
    V("executor gets the wrong client id", "break", _D, "            async_executor = AsyncExecutor(\n                client_id, task,", "            async_executor = AsyncExecutor(\n                self.parent_worker_id, task,", "O1.10"),
    # preserving
    # F44 is a KNOWN finding (O1.11 falsified on the unchanged tree, listed by construct key): a respelling of the defective signal must keep the SAME key (stays listed, nothing new reported)
    V("F44 (known) respelled: event polled before it is set", "keep", _D, "                    self.task,\n                    self.client_id,\n                )\n                self.complete.set()\n            elif any_task_completes_parent:",
      "                    self.task,\n                    self.client_id,\n                )\n                if not self.complete.is_set():\n                    self.complete.set()\n            elif any_task_completes_parent:"),
    V("barrier with >=", "keep", _D, "        if self.currently_completed == len(self.workers):", "        if self.currently_completed >= len(self.workers):"),
    V("barrier operands swapped", "keep", _D, "        if self.currently_completed == len(self.workers):", "        if len(self.workers) == self.currently_completed:"),
    V("logging moved", "keep", _D, "            self.currently_completed = 0\n            self.complete_current_task_sent = False", "            self.complete_current_task_sent = False\n            self.currently_completed = 0"),
    V("walrus-free future check", "keep", _D, "            if self.executor_future is not None:\n                self.executor_future.result()", "            if self.executor_future:\n                self.executor_future.result()"),
    V("worker wake-up interval local", "keep", _D, "                self.executor_future = self.pool.submit(executor)\n                self.wakeupAfter(datetime.timedelta(seconds=self.wakeup_interval))",
      "                self.executor_future = self.pool.submit(executor)\n                interval = datetime.timedelta(seconds=self.wakeup_interval)\n                self.wakeupAfter(interval)"),
]

# ---- hardening round 2: refactored shapes the re-stated rules accept (keep) and the same defects placed INSIDE the refactored shape (break) ------------------------------------
_JP0_OLD = "        next_join_point = JoinPoint(join_point_id)\n        for client_index in range(max_clients):\n            allocations[client_index].append(next_join_point)\n        join_point_id += 1\n"
_JP0_NEW = "        self._join_all(allocations, JoinPoint(join_point_id))\n        join_point_id += 1\n"
_JPK_OLD = ("            next_join_point = JoinPoint(join_point_id, clients_executing_completing_task, any_task_completes_parent)\n            for client_index in range(max_clients):\n"
            "                allocations[client_index].append(next_join_point)\n            join_point_id += 1\n        return allocations\n")
_JPK_NEW = ("            self._join_all(allocations, JoinPoint(join_point_id, clients_executing_completing_task, any_task_completes_parent))\n            join_point_id += 1\n"
            "        return allocations\n\n    @staticmethod\n    def _join_all(allocations, join_point):\n        for row in allocations:\n            row.append(join_point)\n")
_ROWS_OLD = "        allocations = [None] * max_clients\n        for client_index in range(max_clients):\n            allocations[client_index] = []\n        join_point_id = 0\n"
_IDS_OLD = "            next_join_point = JoinPoint(join_point_id, clients_executing_completing_task, any_task_completes_parent)\n"
_BC_OLD = ("                self.complete_current_task_sent = True\n                self.logger.info(\"All affected clients have finished. Notifying all clients to complete their current tasks.\")\n"
           "                for worker in self.workers:\n                    self.driver_actor.complete_current_task(worker)\n            else:\n")
_BC_NEW = ("                self.logger.info(\"All affected clients have finished. Notifying all clients to complete their current tasks.\")\n"
           "                self._tell_all_workers_to_complete()\n            else:\n")
_BA_OLD = "            self.complete_current_task_sent = True\n            for worker in self.workers:\n                self.driver_actor.complete_current_task(worker)\n\n        # If we have"
_BA_NEW = "            self._tell_all_workers_to_complete()\n\n        # If we have"
_BH_AT = "    def reset_relative_time(self):\n        self.logger.debug(\"Resetting relative time of request metrics store.\")\n"
_BH = "    def _tell_all_workers_to_complete(self):\n        self.complete_current_task_sent = True\n        for worker in self.workers:\n            self.driver_actor.complete_current_task(worker)\n\n"
_PEND_OLD = ("            pending_client_ids = []\n            for client_id in current_join_point.clients_executing_completing_task:\n"
             "                # We assume that all clients have finished if their corresponding worker has finished\n                worker_id = self.clients_per_worker[client_id]\n"
             "                if worker_id not in self.workers_completed_current_step:\n                    pending_client_ids.append(client_id)\n")
_HCT_OLD_HEAD = "        if self.at_joinpoint() and self.start_driving:\n            # We have already been told to drive on"
_POLL_OLD = "                    completed = self.complete.is_set() or runner.completed\n"
_LOOP_HEAD = "            async for expected_scheduled_time, sample_type, percent_completed, runner, params in schedule:\n                if self.cancel.is_set():\n"
_ADV_OLD = "        self.current_task_index = self.next_task_index\n        current = self.client_allocations.tasks(self.current_task_index)\n        self.next_task_index += 1\n"
_VIEW_OLD = ("        current_tasks = []\n        for allocation in self.allocations:\n            tasks_at_index = allocation[\"tasks\"][task_index]\n"
             "            if remove_empty and tasks_at_index is not None:\n                current_tasks.append(ClientAllocation(allocation[\"client_id\"], tasks_at_index))\n        return current_tasks\n")
_DRV_LOOP = "        for worker_id, worker in enumerate(self.workers):\n            worker_ended_task_at"

VARIANTS += [
    # O1.1 on values
    [V("h2 keep (C02-b1): join point appended to all rows by a helper method", "keep", _D, _JP0_OLD, _JP0_NEW), V("", "keep", _D, _JPK_OLD, _JPK_NEW)],
    [V("h2 break: the join-point helper skips the first row", "break", _D, _JP0_OLD, _JP0_NEW, "O1.1"), V("", "break", _D, _JPK_OLD, _JPK_NEW.replace("for row in allocations:", "for row in allocations[1:]:"))],
    V("h2 keep (C01-b3): rows by comprehension, ids from itertools.count()", "keep", _D, _ROWS_OLD + "        # start with an artificial join point to allow master to coordinate that all clients start at the same time\n" + _JP0_OLD,
      "        allocations = [[] for _ in range(max_clients)]\n        ids = itertools.count()\n        join_point_id = next(ids)\n        next_join_point = JoinPoint(join_point_id)\n"
      "        for row in allocations:\n            row.append(next_join_point)\n        join_point_id = next(ids)\n"),
    V("h2 break: rows are one aliased list", "break", _D, _ROWS_OLD, "        allocations = [[]] * max_clients\n        join_point_id = 0\n", "O1.1"),
    V("h2 break: join point id not advanced between elements", "break", _D, "                allocations[client_index].append(next_join_point)\n            join_point_id += 1\n        return allocations", "                allocations[client_index].append(next_join_point)\n        return allocations", "O1.1"),
    V("h2 break: one JoinPoint object re-used for every element", "break", _D, _IDS_OLD, "", "O1.1"),
    V("h2 break: task allocation appended behind the element's join point", "break", _D, "                    allocations[physical_client_index].append(ta)\n                start_client_index += sub_task.clients\n",
      "                    late = (physical_client_index, ta)\n                start_client_index += sub_task.clients\n", "O1.1"),
    # O1.4 / O1.2b through a private helper
    [V("h2 keep (C01-b1): broadcast of CompleteCurrentTask in a private helper", "keep", _D, _BC_OLD, _BC_NEW), V("", "keep", _D, _BA_OLD, _BA_NEW), V("", "keep", _D, _BH_AT, _BH + _BH_AT)],
    [V("h2 break: the broadcast helper does not memorise that it has sent", "break", _D, _BC_OLD, _BC_NEW, "O1.4"), V("", "break", _D, _BA_OLD, _BA_NEW),
     V("", "break", _D, _BH_AT, _BH.replace("        self.complete_current_task_sent = True\n", "") + _BH_AT)],
    [V("h2 break: the broadcast helper leaves out the last worker", "break", _D, _BC_OLD, _BC_NEW, "O1.2b"), V("", "break", _D, _BA_OLD, _BA_NEW),
     V("", "break", _D, _BH_AT, _BH.replace("in self.workers:", "in self.workers[:-1]:") + _BH_AT)],
    [V("h2 keep (C01-b1): pending clients computed by a private helper", "keep", _D, _PEND_OLD, "            pending_client_ids = self._pending(current_join_point)\n"),
     V("", "keep", _D, _BH_AT, "    def _pending(self, join_point):\n        pending = []\n        for client_id in join_point.clients_executing_completing_task:\n            worker_id = self.clients_per_worker[client_id]\n"
       "            if worker_id not in self.workers_completed_current_step:\n                pending.append(client_id)\n        return pending\n\n" + _BH_AT)],
    [V("h2 break: the pending helper looks the client id up in the worker-keyed map", "break", _D, _PEND_OLD, "            pending_client_ids = self._pending(current_join_point)\n", "O1.4"),
     V("", "break", _D, _BH_AT, "    def _pending(self, join_point):\n        pending = []\n        for client_id in join_point.clients_executing_completing_task:\n"
       "            if client_id not in self.workers_completed_current_step:\n                pending.append(client_id)\n        return pending\n\n" + _BH_AT)],
    V("h2 keep: pending clients as a comprehension over the client -> worker map", "keep", _D, _PEND_OLD,
      "            pending_client_ids = [c for c in current_join_point.clients_executing_completing_task if self.clients_per_worker[c] not in self.workers_completed_current_step]\n"),
    V("h2 keep: once-per-step flag tested as a guard clause", "keep", _D, "        joinpoints_completing_parent = [a for a in task_allocations if a.task.preceding_task_completes_parent]\n",
      "        joinpoints_completing_parent = [a for a in task_allocations if a.task.preceding_task_completes_parent]\n        if self.complete_current_task_sent:\n            return\n"),
    # O1.2 / O1.3 on values
    V("h2 keep: barrier test through a local", "keep", _D, "        if self.currently_completed == len(self.workers):", "        all_arrived = self.currently_completed == len(self.workers)\n        if all_arrived:"),
    V("h2 keep: barrier as a difference", "keep", _D, "        if self.currently_completed == len(self.workers):", "        if len(self.workers) - self.currently_completed == 0:"),
    V("h2 break: barrier against the number of steps", "break", _D, "        if self.currently_completed == len(self.workers):", "        if self.currently_completed == self.number_of_steps:", "O1.2"),
    V("h2 keep: finished with >=", "keep", _D, "        return self.current_step == self.number_of_steps", "        return self.current_step >= self.number_of_steps"),
    V("h2 break: finished one step late", "break", _D, "        return self.current_step == self.number_of_steps", "        return self.current_step > self.number_of_steps", "O1.3"),
    V("h2 keep: Drive loop over zip(range(...), workers)", "keep", _D, _DRV_LOOP, "        for worker_id, worker in zip(range(len(self.workers)), self.workers):\n            worker_ended_task_at"),
    V("h2 break: Drive loop reads the entry of the next worker", "break", _D, _DRV_LOOP, "        for worker_id, worker in enumerate(self.workers, 1):\n            worker_ended_task_at", "O1.2b"),
    # O1.6 guard clauses / hoisted polls
    V("h2 keep (C01-b2): CompleteCurrentTask handler evaluates at_joinpoint() once", "keep", _D, _HCT_OLD_HEAD, "        at_jp = self.at_joinpoint()\n        if at_jp and self.start_driving:\n            # We have already been told to drive on"),
    [V("h2 keep (C18-b4): complete.is_set hoisted out of the request loop", "keep", _D, _POLL_OLD, "                    completed = completed_externally() or runner.completed\n"),
     V("", "keep", _D, _LOOP_HEAD, "            completed_externally = self.complete.is_set\n" + _LOOP_HEAD)],
    [V("h2 break: hoisted poll of the complete event ends the completing task's own clients too", "break", _D,
       "                if task_completes_parent:\n                    completed = runner.completed\n                else:\n" + _POLL_OLD, "                completed = completed_externally() or runner.completed\n", "O1.6"),
     V("", "break", _D, _LOOP_HEAD, "            completed_externally = self.complete.is_set\n" + _LOOP_HEAD)],
    # O1.9 / O1.10 on values
    V("h2 keep: index advance through a local", "keep", _D, _ADV_OLD, "        idx = self.next_task_index\n        self.next_task_index = idx + 1\n        self.current_task_index = idx\n        current = self.client_allocations.tasks(idx)\n"),
    V("h2 break: index advance reads the row before moving on", "break", _D, _ADV_OLD, "        current = self.client_allocations.tasks(self.current_task_index)\n        self.current_task_index = self.next_task_index\n        self.next_task_index += 1\n", "O1.9"),
    V("h2 keep: row view as a comprehension", "keep", _D, _VIEW_OLD,
      "        return [ClientAllocation(a[\"client_id\"], a[\"tasks\"][task_index]) for a in self.allocations if remove_empty and a[\"tasks\"][task_index] is not None]\n"),
    V("h2 break: row view pairs a client with its neighbour's entry", "break", _D, _VIEW_OLD,
      "        return [ClientAllocation(a[\"client_id\"], b[\"tasks\"][task_index]) for a, b in zip(self.allocations, reversed(self.allocations)) if remove_empty and b[\"tasks\"][task_index] is not None]\n", "O1.10"),
]

_JPB_OLD = ("            self.logger.debug(\"Worker[%d] reached join point at index [%d].\", self.worker_id, self.current_task_index)\n"
            "            # clients that don't execute tasks don't need to care about waiting\n            if self.executor_future is not None:\n                self.executor_future.result()\n"
            "            self.send_samples()\n            self.cancel.clear()\n            self.complete.clear()\n            self.executor_future = None\n            self.sampler = None\n"
            "            self.send(self.driver_actor, JoinPointReached(self.worker_id, task_allocations))\n")
_JPB_HELPER = ("    def _report_join_point(self, task_allocations):\n        if self.executor_future is not None:\n            self.executor_future.result()\n        self.send_samples()\n"
               "        self.cancel.clear()\n        self.complete.clear()\n        self.executor_future = None\n        self.sampler = None\n"
               "        self.send(self.driver_actor, JoinPointReached(self.worker_id, task_allocations))\n\n")
_AJP_AT = "    def at_joinpoint(self):\n        return self.client_allocations"
_HSET_OLD = ("                \"Worker[%s] has received CompleteCurrentTask. Completing tasks at index [%d].\", str(self.worker_id), self.current_task_index\n            )\n"
             "            self.complete.set()\n")

VARIANTS += [
    [V("h2 keep: join-point branch of Worker.drive in a private helper", "keep", _D, _JPB_OLD, "            self._report_join_point(task_allocations)\n"), V("", "keep", _D, _AJP_AT, _JPB_HELPER + _AJP_AT)],
    [V("h2 break: the join-point helper leaves the complete event set", "break", _D, _JPB_OLD, "            self._report_join_point(task_allocations)\n", "O1.5"),
     V("", "break", _D, _AJP_AT, _JPB_HELPER.replace("        self.complete.clear()\n", "") + _AJP_AT)],
    [V("h2 break: the join-point helper does not wait for the executor", "break", _D, _JPB_OLD, "            self._report_join_point(task_allocations)\n", "O1.5"),
     V("", "break", _D, _AJP_AT, _JPB_HELPER.replace("        if self.executor_future is not None:\n            self.executor_future.result()\n", "") + _AJP_AT)],
    [V("h2 keep: complete.set() of the handler in a private helper", "keep", _D, _HSET_OLD, _HSET_OLD.replace("self.complete.set()", "self._remember_completion()")),
     V("", "keep", _D, _AJP_AT, "    def _remember_completion(self):\n        self.complete.set()\n\n" + _AJP_AT)],
    [V("h2 break: a second caller sets the complete event through the helper", "break", _D, _HSET_OLD, _HSET_OLD.replace("self.complete.set()", "self._remember_completion()"), "O1.6"),
     V("", "break", _D, _AJP_AT, "    def _remember_completion(self):\n        self.complete.set()\n\n" + _AJP_AT),
     V("", "break", _D, "            self.start_driving = False\n            self.drive()", "            self.start_driving = False\n            self._remember_completion()\n            self.drive()")],
    V("h2 keep: closed step's arrival map through two locals", "keep", _D, "            workers_curr_step = self.workers_completed_current_step\n",
      "            arrivals = self.workers_completed_current_step\n            workers_curr_step = arrivals\n"),
    V("h2 keep: finished() held in a local", "keep", _D, "            if self.finished():\n                self.telemetry.on_benchmark_stop()", "            all_done = self.finished()\n            if all_done:\n                self.telemetry.on_benchmark_stop()"),
    V("h2 break: finished() evaluated before the step is counted", "break", _D, "            self.update_progress_message(task_finished=True)\n            # clear per step\n",
      "            self.update_progress_message(task_finished=True)\n            all_done = self.finished()\n            # clear per step\n", "O1.3"),
]

# ---- hardening round 3: merged / re-spelled conditions decided on values (O1.6), cached properties (O1.1), record types for the row view and the matrix cells (O1.9 / O1.10) --------
_FIN_OLD = ("            if task_completes_parent:\n                self.logger.info(\n"
            "                    \"Task [%s] completes parent. Client id [%s] is finished executing it and signals completion.\",\n"
            "                    self.task,\n                    self.client_id,\n                )\n                self.complete.set()\n"
            "            elif any_task_completes_parent:\n                self.logger.info(\n"
            "                    \"Task [%s] completes parent. Client id [%s] is finished executing it and signals completion of all \"\n"
            "                    \"remaining clients, immediately.\",\n                    self.task,\n                    self.client_id,\n                )\n                self.complete.set()\n")
_FIN_NEW = ("            if task_completes_parent or any_task_completes_parent:\n                self.logger.info(\"Task [%s] completes parent. Client id [%s] signals completion.\", self.task, self.client_id)\n"
            "                self.complete.set()\n")
_CMP_OLD = "                if task_completes_parent:\n                    completed = runner.completed\n                else:\n" + _POLL_OLD
_XCALL_AT = "    async def __call__(self, *args, **kwargs):\n        any_task_completes_parent = self.task.any_completes_parent\n"
_ALLOC_DECO = "    @property\n    def allocations(self):\n"
_JPS_AT = "    @property\n    def join_points(self):\n"
_ROW_NEW = "        allocations = [None] * max_clients\n        for client_index in range(max_clients):\n            allocations[client_index] = self._new_row\n        join_point_id = 0\n"
_ADD_OLD = "        self.allocations.append({\"client_id\": client_id, \"tasks\": tasks})\n"
_CT_AT = "class ClientAllocations:\n"
_CT_DEF = "ClientTasks = collections.namedtuple(\"ClientTasks\", [\"client_id\", \"tasks\"])\n\n\n"
_VIEW_NT = ("        current_tasks = []\n        for client_id, tasks in self.allocations:\n            tasks_at_index = tasks[task_index]\n"
            "            if remove_empty and tasks_at_index is not None:\n                current_tasks.append(ClientAllocation(client_id, tasks_at_index))\n        return current_tasks\n")
_TA_INIT = ("class TaskAllocation:\n    def __init__(self, task, client_index_in_task, global_client_index, total_clients):\n        \"\"\"\n\n"
            "        :param task: The current task which is always a leaf task.\n        :param client_index_in_task: The task-specific index for the allocated client.\n"
            "        :param global_client_index:  The globally unique index for the allocated client across\n                                     all concurrently executed tasks.\n"
            "        :param total_clients: The total number of clients executing tasks concurrently.\n        \"\"\"\n        self.task = task\n"
            "        self.client_index_in_task = client_index_in_task\n        self.global_client_index = global_client_index\n        self.total_clients = total_clients\n")
_TA_DC = ("@dataclass(eq=False, repr=False)\nclass TaskAllocation:\n    task: track.Task\n    client_index_in_task: int\n    global_client_index: int\n    total_clients: int\n")

VARIANTS += [
    # O1.6 executor side on values
    V("h3 keep (C01-b6): the two causes merged into one `or` test in the finally", "keep", _D, _FIN_OLD, _FIN_NEW),
    V("h3 break: merged test with `and` (no task ever signals)", "break", _D, _FIN_OLD, _FIN_NEW.replace("task_completes_parent or any_task_completes_parent", "task_completes_parent and any_task_completes_parent"), "O1.6"),
    V("h3 break: merged test lets a task that completes nothing signal", "break", _D, _FIN_OLD, _FIN_NEW.replace("task_completes_parent or any_task_completes_parent", "task_completes_parent or not any_task_completes_parent"), "O1.6"),
    V("h3 keep: the causes tested through one local and a guard clause in the finally", "keep", _D, _FIN_OLD,
      "            signals = any((task_completes_parent, any_task_completes_parent))\n            if signals:\n                self.complete.set()\n"),
    V("h3 keep (C01-b6): exemption of the completing task as one boolean expression", "keep", _D, _CMP_OLD, "                completed = (not task_completes_parent and self.complete.is_set()) or runner.completed\n"),
    V("h3 keep: exemption as a conditional expression", "keep", _D, _CMP_OLD, "                completed = runner.completed if task_completes_parent else (self.complete.is_set() or runner.completed)\n"),
    V("h3 break: boolean expression exempts the wrong tasks", "break", _D, _CMP_OLD, "                completed = (not any_task_completes_parent and self.complete.is_set()) or runner.completed\n", "O1.6"),
    V("h3 break: boolean expression with the exemption dropped by a precedence slip", "break", _D, _CMP_OLD, "                completed = not task_completes_parent and runner.completed or self.complete.is_set()\n", "O1.6"),
    [V("h3 keep: poll of the complete event in a private helper of the executor", "keep", _D, _POLL_OLD, "                    completed = self._completed_externally() or runner.completed\n"),
     V("", "keep", _D, _XCALL_AT, "    def _completed_externally(self):\n        return self.complete.is_set()\n\n" + _XCALL_AT)],
    [V("h3 break: helper poll ends the completing task's own clients too", "break", _D, _CMP_OLD, "                completed = self._completed_externally() or runner.completed\n", "O1.6"),
     V("", "break", _D, _XCALL_AT, "    def _completed_externally(self):\n        return self.complete.is_set()\n\n" + _XCALL_AT)],
    # O1.1: cached properties are interpreted with their caching
    [V("h3 keep (C01-b8): the matrix builder is a cached property", "keep", _D, _ALLOC_DECO, "    @functools.cached_property\n    def allocations(self):\n"),
     V("", "keep", _D, "import datetime\n", "import datetime\nimport functools\n")],
    [V("h3 keep: rows obtained from a plain property", "keep", _D, _ROWS_OLD, _ROW_NEW), V("", "keep", _D, _JPS_AT, "    @property\n    def _new_row(self):\n        return []\n\n" + _JPS_AT)],
    [V("h3 break: rows obtained from a CACHED property are one shared list", "break", _D, _ROWS_OLD, _ROW_NEW, "O1.1"),
     V("", "break", _D, _JPS_AT, "    @functools.cached_property\n    def _new_row(self):\n        return []\n\n" + _JPS_AT), V("", "break", _D, "import datetime\n", "import datetime\nimport functools\n")],
    # O1.9 / O1.10: record types
    [V("h3 keep (C02-b8): TaskAllocation as a dataclass, rows of the view as named tuples", "keep", _D, _TA_INIT, _TA_DC), V("", "keep", _D, _ADD_OLD, "        self.allocations.append(ClientTasks(client_id, tasks))\n"),
     V("", "keep", _D, _VIEW_OLD, _VIEW_NT), V("", "keep", _D, _CT_AT, _CT_DEF + _CT_AT)],
    [V("h3 break: named-tuple rows read at the previous index", "break", _D, _TA_INIT, _TA_DC, "O1.10"), V("", "break", _D, _ADD_OLD, "        self.allocations.append(ClientTasks(client_id, tasks))\n"),
     V("", "break", _D, _VIEW_OLD, _VIEW_NT.replace("tasks_at_index = tasks[task_index]", "tasks_at_index = tasks[task_index - 1]")), V("", "break", _D, _CT_AT, _CT_DEF + _CT_AT)],
]

# O1.10 (executor adapter) on values: the loop of AsyncIoAdapter.run in other shapes
_PS_OLD = ("            if task not in params_per_task:\n                param_source = track.operation_parameters(self.track, task)\n                params_per_task[task] = param_source\n"
           "            schedule = schedule_for(task_allocation, params_per_task[task])\n")
_PS_GET = ("            param_source = params_per_task.get(task)\n            if param_source is None:\n                param_source = track.operation_parameters(self.track, task)\n"
           "                params_per_task[task] = param_source\n            schedule = schedule_for(parameter_source=param_source, task_allocation=task_allocation)\n")
_AW_OLD = "            awaitables.append(final_executor())\n"
_GA_OLD = "            _ = await asyncio.gather(*awaitables)\n"
_EX_OLD = ("            async_executor = AsyncExecutor(\n                client_id, task, schedule, es, self.sampler, self.cancel, self.complete, task.error_behavior(self.abort_on_error)\n            )\n")
_EX_KW = ("            async_executor = AsyncExecutor(\n                client_id=client_id, task=task, schedule=schedule, es=es, on_error=task.error_behavior(self.abort_on_error),\n"
          "                sampler=self.sampler, complete=self.complete, cancel=self.cancel,\n            )\n")

VARIANTS += [
    V("h3 keep: parameter source looked up with .get() and a None test, schedule_for by keyword", "keep", _D, _PS_OLD, _PS_GET),
    V("h3 break: .get() shape that never stores the parameter source (one per client)", "break", _D, _PS_OLD, _PS_GET.replace("                params_per_task[task] = param_source\n", ""), "O1.10"),
    [V("h3 keep: executors collected first, coroutines created in the gather call", "keep", _D, _AW_OLD, "            awaitables.append(final_executor)\n"),
     V("", "keep", _D, _GA_OLD, "            _ = await asyncio.gather(*[start() for start in awaitables])\n")],
    [V("h3 break: coroutines created in the gather call for all but the first executor", "break", _D, _AW_OLD, "            awaitables.append(final_executor)\n", "O1.10"),
     V("", "break", _D, _GA_OLD, "            _ = await asyncio.gather(*[start() for start in awaitables[1:]])\n")],
    V("h3 keep: executor constructed with keyword arguments in another order", "keep", _D, _EX_OLD, _EX_KW),
    V("h3 break: keyword arguments with cancel and complete crossed", "break", _D, _EX_OLD, _EX_KW.replace("complete=self.complete, cancel=self.cancel", "complete=self.cancel, cancel=self.complete"), "O1.10"),
    V("h3 break: schedule computed for the first allocation of the row", "break", _D, "            schedule = schedule_for(task_allocation, params_per_task[task])\n",
      "            schedule = schedule_for(self.task_allocations[0], params_per_task[task])\n", "O1.10"),
    V("h3 break: the gather result is not awaited", "break", _D, _GA_OLD, "            _ = asyncio.gather(*awaitables)\n", "O1.10"),
]

# ---- hardening round 4: class-based typing.NamedTuple records in the row view (O1.9 / O1.10: the interpreter's record model _Rec), the started worker followed through copies and
# through an extracted start helper (role of the worker list, O1.2 / O1.2b) ------------------------------------------------------------------------------------------------------
_CA_NT_OLD = "ClientAllocation = collections.namedtuple(\"ClientAllocation\", [\"client_id\", \"task\"])\n"
_CA_NT_NEW = ("class ClientAllocation(NamedTuple):\n    \"\"\"an entry of the allocation matrix together with its client\"\"\"\n\n    client_id: int\n    task: Any\n\n\n"
              "class ClientTasks(NamedTuple):\n    \"\"\"a row of the allocation matrix\"\"\"\n\n    client_id: int\n    tasks: list\n")
_TYPING_OLD = "from typing import Callable, Optional\n"
_TYPING_NEW = "from typing import Any, Callable, NamedTuple, Optional\n"
_VIEW_COMP = ("        entries = [(client_id, tasks[task_index]) for client_id, tasks in self.allocations]\n"
              "        return [ClientAllocation(client_id, entry) for client_id, entry in entries if remove_empty and entry is not None]\n")
_SW_OLD = ("                    worker = self.driver_actor.create_client(host, self.config, worker_id)\n\n                    client_allocations = ClientAllocations()\n"
           "                    worker_client_contexts = {}\n                    for client_id in clients:\n"
           "                        client_allocations.add(client_id, self.allocations[client_id])\n                        self.clients_per_worker[client_id] = worker_id\n"
           "                        client_context = ClientContext(client_id=client_id, parent_worker_id=worker_id)\n\n                        if create_api_keys:\n"
           "                            resp = self.create_api_key(self.default_sync_es_client, client_id)\n"
           "                            client_context.api_key = ApiKey(id=resp[\"id\"], secret=resp[\"api_key\"])\n\n"
           "                        worker_client_contexts[client_id] = client_context\n                        self.client_contexts[worker_id] = worker_client_contexts\n"
           "                    self.driver_actor.start_worker(\n"
           "                        worker, worker_id, self.config, self.track, client_allocations, client_contexts=worker_client_contexts\n                    )\n")
_SW_CALL = "                    worker = self._start_worker(host, worker_id, clients, create_api_keys)\n"
_SW_HELPER = ("    def _start_worker(self, host, worker_id, client_ids, create_api_keys):\n        worker = self.driver_actor.create_client(host, self.config, worker_id)\n\n"
              "        client_allocations = ClientAllocations()\n        worker_client_contexts = {}\n        for client_id in client_ids:\n"
              "            client_allocations.add(client_id, self.allocations[client_id])\n            self.clients_per_worker[client_id] = worker_id\n"
              "            client_context = ClientContext(client_id=client_id, parent_worker_id=worker_id)\n\n            if create_api_keys:\n"
              "                resp = self.create_api_key(self.default_sync_es_client, client_id)\n"
              "                client_context.api_key = ApiKey(id=resp[\"id\"], secret=resp[\"api_key\"])\n\n"
              "            worker_client_contexts[client_id] = client_context\n            self.client_contexts[worker_id] = worker_client_contexts\n"
              "        self.driver_actor.start_worker(\n            worker, worker_id, self.config, self.track, client_allocations, client_contexts=worker_client_contexts\n        )\n"
              "        return worker\n\n")
_JR_AT = "    def joinpoint_reached(self, worker_id, worker_local_timestamp, task_allocations):\n"
_BARRIER = "        if self.currently_completed == len(self.workers):"


def _nt_view(view, add="        self.allocations.append(ClientTasks(client_id, tasks))\n"):
    return [V("", "keep", _D, _CA_NT_OLD, _CA_NT_NEW), V("", "keep", _D, _TYPING_OLD, _TYPING_NEW), V("", "keep", _D, _ADD_OLD, add), V("", "keep", _D, _VIEW_OLD, view)]


def _named(name, kind, rule, edits):
    edits[0].name, edits[0].kind, edits[0].rule = name, kind, rule
    for e in edits[1:]:
        e.kind = kind
    return edits


VARIANTS += [
    _named("h4 keep (C01-b10): rows and entries of the row view as class-based typing.NamedTuple records, tasks() as two comprehensions", "keep", None, _nt_view(_VIEW_COMP)),
    _named("h4 keep: NamedTuple rows constructed by keyword and read by field name / by position", "keep", None,
           _nt_view("        return [ClientAllocation(task=row.tasks[task_index], client_id=row[0]) for row in self.allocations if remove_empty and row.tasks[task_index] is not None]\n",
                    add="        self.allocations.append(ClientTasks(tasks=tasks, client_id=client_id))\n")),
    _named("h4 break: NamedTuple rows, every client is paired with the first client's entry", "break", "O1.10",
           _nt_view(_VIEW_COMP.replace("(client_id, tasks[task_index]) for client_id, tasks in self.allocations", "(client_id, self.allocations[0].tasks[task_index]) for client_id, tasks in self.allocations"))),
    _named("h4 break: NamedTuple entry constructed with its fields crossed (positional order is the declaration order: .task is the client id)", "break", "O1.9",
           _nt_view(_VIEW_COMP.replace("ClientAllocation(client_id, entry)", "ClientAllocation(entry, client_id)"))),
    _named("h4 break: NamedTuple rows, the None filter inverted in the comprehension", "break", "O1.10", _nt_view(_VIEW_COMP.replace("entry is not None", "entry is None"))),
    [V("h4 keep (C02-b11): creating and starting one worker extracted into a helper that returns it; the caller appends the result", "keep", _D, _SW_OLD, _SW_CALL),
     V("", "keep", _D, _JR_AT, _SW_HELPER + _JR_AT)],
    [V("h4 keep: the started worker travels through a copy before it is collected", "keep", _D, "                    self.workers.append(worker)\n",
       "                    started = worker\n                    self.workers.append(started)\n")],
    [V("h4 break: start helper extracted, barrier one short of the collected workers", "break", _D, _SW_OLD, _SW_CALL, "O1.2"),
     V("", "break", _D, _JR_AT, _SW_HELPER + _JR_AT), V("", "break", _D, _BARRIER, "        if self.currently_completed == len(self.workers) - 1:")],
    [V("h4 break: start helper extracted, barrier counts against the clients instead of the collected workers", "break", _D, _SW_OLD, _SW_CALL, "O1.2"),
     V("", "break", _D, _JR_AT, _SW_HELPER + _JR_AT), V("", "break", _D, _BARRIER, "        if self.currently_completed == len(self.allocations):")],
]

# Worker.drive repeating itself per skipped row by `while True:` (return at the join point, break before the executor is started) instead of by recursion (C09-b9): the constant
# loop test is no condition (guards / _fact_nodes at the top of the module); O1.5 / O1.6 / O1.7 / O1.9 must read the loop shape like the recursive one
_DRIVE_RE = r"    def drive\(self\):\n        assert self\.config is not None\n.*?\n    def at_joinpoint\(self\):\n"
_DRIVE_LOOP = ("    def drive(self):\n        assert self.config is not None\n        while True:\n            task_allocations = self.current_tasks_and_advance()\n"
               "            while len(task_allocations) == 0:\n                task_allocations = self.current_tasks_and_advance()\n\n"
               "            if self.at_joinpoint():\n                self.logger.debug(\"Worker[%d] reached join point at index [%d].\", self.worker_id, self.current_task_index)\n"
               "                if self.executor_future is not None:\n                    self.executor_future.result()\n"
               "                self.send_samples()\n                self.cancel.clear()\n                self.complete.clear()\n                self.executor_future = None\n"
               "                self.sampler = None\n                self.send(self.driver_actor, JoinPointReached(self.worker_id, task_allocations))\n                return\n\n"
               "            if not self.complete.is_set():\n                break\n"
               "            self.logger.info(\"Worker[%d] skips tasks at index [%d].\", self.worker_id, self.current_task_index)\n\n"
               "        self.logger.debug(\"Worker[%d] is executing tasks at index [%d].\", self.worker_id, self.current_task_index)\n        self.send_samples()\n"
               "        self.sampler = Sampler(start_timestamp=time.perf_counter(), buffer_size=self.sample_queue_size)\n"
               "        executor = AsyncIoAdapter(\n            self.config,\n            self.track,\n            task_allocations,\n            self.sampler,\n            self.cancel,\n"
               "            self.complete,\n            self.on_error,\n            self.client_contexts,\n            self.worker_id,\n        )\n\n"
               "        self.executor_future = self.pool.submit(executor)\n        self.wakeupAfter(datetime.timedelta(seconds=self.wakeup_interval))\n\n"
               "    def at_joinpoint(self):\n")


def _loop(name, kind, rule=None, old=None, new=""):
    assert old is None or _DRIVE_LOOP.count(old) == 1, old
    return V(name, kind, _D, _DRIVE_RE, _DRIVE_LOOP if old is None else _DRIVE_LOOP.replace(old, new), rule, regex=True)


VARIANTS += [
    _loop("h4 keep (C09-b9): drive() repeats itself per skipped row in a `while True:` loop (return at the join point, break before the executor starts)", "keep"),
    _loop("h4 break: loop shape, the barrier message is sent without waiting for the executor future", "break", "O1.5",
          "                if self.executor_future is not None:\n                    self.executor_future.result()\n"),
    _loop("h4 break: loop shape, the complete event is not cleared at the join point", "break", "O1.5", "                self.complete.clear()\n"),
    _loop("h4 break: loop shape, the worker goes on to the next row after reporting the join point (no return)", "break", None,
          "JoinPointReached(self.worker_id, task_allocations))\n                return\n", "JoinPointReached(self.worker_id, task_allocations))\n"),
    _loop("h4 break: loop shape, the executor is started and no wake-up is scheduled", "break", "O1.7",
          "        self.wakeupAfter(datetime.timedelta(seconds=self.wakeup_interval))\n"),
    _loop("h4 break: loop shape, rows are skipped while the complete event is NOT set", "break", None, "            if not self.complete.is_set():\n", "            if self.complete.is_set():\n"),
]

# O1.9 on values (which rows the worker executes): the recursive shape of the unchanged tree
VARIANTS += [
    V("h4 break: rows are skipped while the complete event is NOT set (recursive shape)", "break", _D,
      "            if self.complete.is_set():\n                self.logger.info(\n                    \"Worker[%d] skips", "            if not self.complete.is_set():\n                self.logger.info(\n                    \"Worker[%d] skips", "O1.9"),
    V("h4 break: with the complete event set the worker runs past the join point", "break", _D, "        if self.at_joinpoint():\n            self.logger.debug(\"Worker[%d] reached join point",
      "        if self.at_joinpoint() and not self.complete.is_set():\n            self.logger.debug(\"Worker[%d] reached join point", None),
    V("h4 keep: skipping an empty row by `while not task_allocations`", "keep", _D, "        while len(task_allocations) == 0:\n            task_allocations = self.current_tasks_and_advance()\n\n        if self.at_joinpoint():",
      "        while not task_allocations:\n            task_allocations = self.current_tasks_and_advance()\n\n        if self.at_joinpoint():"),
]

# O1.12 (the worker driven through its own handlers, seeds C01-m13) / O1.13 (the matrix rows the workers are started with, C01-m14)
_SKIP_OLD = ("                # nothing is executed for the skipped tasks so no wakeup is pending: continue with the next entry right away.\n                self.drive()\n")
_WK_NEXT = "                    self.executor_future = None\n                    self.drive()\n"
_ROW_ADD = "                        client_allocations.add(client_id, self.allocations[client_id])\n"

VARIANTS += [
    V("s5 break (C01-m13): after skipping a row the worker arms a zero-delay wake-up, whose handler finds neither the start flag nor a finished future", "break", _D, _SKIP_OLD,
      "                self.wakeupAfter(datetime.timedelta(seconds=0))\n", "O1.12"),
    V("s5 break: after skipping a row the worker waits for a regular polling wake-up", "break", _D, _SKIP_OLD,
      "                self.wakeupAfter(datetime.timedelta(seconds=self.wakeup_interval))\n", "O1.12"),
    V("s5 break: the wake-up handler forgets the finished future AFTER driving on - it forgets the future of the row just started, no later wake-up advances the worker", "break", _D, _WK_NEXT,
      "                    self.drive()\n                    self.executor_future = None\n", "O1.12"),
    V("s5 break: the Drive handler arms the start wake-up under a flag of its own that the wake-up handler does not read", "break", _D,
      "        self.start_driving = True\n        self.wakeupAfter(sleep_time)\n", "        self.drive_pending = True\n        self.wakeupAfter(sleep_time)\n", None),
    V("s5 keep: after skipping a row the worker hands over through the start flag and a zero-delay wake-up (a hand-over the wake-up handler acts on)", "keep", _D, _SKIP_OLD,
      "                self.start_driving = True\n                self.wakeupAfter(datetime.timedelta(seconds=0))\n"),
    V("s5 keep: the skip branch returns the result of the direct continuation", "keep", _D, _SKIP_OLD, "                return self.drive()\n"),
    V("s5 keep: the wake-up handler tests the pending future by truth", "keep", _D, "            elif self.executor_future is not None and self.executor_future.done():\n",
      "            elif self.executor_future and self.executor_future.done():\n"),
    V("s5 break (C01-m14): every client of a worker is handed the matrix row of the worker's id", "break", _D, _ROW_ADD,
      "                        client_allocations.add(client_id, self.allocations[worker_id])\n", "O1.13"),
    V("s5 break: the client's row is stored under the id of the worker", "break", _D, _ROW_ADD, "                        client_allocations.add(worker_id, self.allocations[client_id])\n", "O1.13"),
    V("s5 break: the first client of every worker is left out (its row is run by nobody)", "break", _D, "                    for client_id in clients:\n                        client_allocations.add(",
      "                    for client_id in clients[1:]:\n                        client_allocations.add(", "O1.13"),
    V("s5 break: the row is looked up by the client's position within its worker", "break", _D, "                    for client_id in clients:\n" + _ROW_ADD,
      "                    for pos, client_id in enumerate(clients):\n                        client_allocations.add(client_id, self.allocations[pos])\n", "O1.13"),
    V("s5 break: workers that simulate a single client are not started", "break", _D, "                if len(clients) > 0:\n", "                if len(clients) > 1:\n", None),
    V("s5 keep: the client's row travels through a local", "keep", _D, _ROW_ADD,
      "                        row = self.allocations[client_id]\n                        client_allocations.add(client_id, row)\n"),
    V("s5 keep: the rows of a worker are collected from the matrix read off a local, clients in sorted order", "keep", _D, "                    for client_id in clients:\n" + _ROW_ADD,
      "                    matrix = self.allocations\n                    for client_id in sorted(clients):\n                        client_allocations.add(client_id, matrix[client_id])\n"),
    V("s5 keep: workers without clients are skipped by truth of the client list", "keep", _D, "                if len(clients) > 0:\n", "                if clients:\n"),
    V("number of steps taken from the per-step task table (one entry per join point behind the first)", "keep", _D, _STEPS_OLD,
      "        self.tasks_per_join_point = allocator.tasks_per_joinpoint\n        self.number_of_steps = len(self.tasks_per_join_point)\n"),
    V("number of steps counts the non-empty entries of the per-step task table only (seed C02-m14)", "break", _D, _STEPS_OLD,
      "        self.tasks_per_join_point = allocator.tasks_per_joinpoint\n        self.number_of_steps = len([tasks for tasks in self.tasks_per_join_point if len(tasks) > 0])\n", "O1.3"),
    V("start-up of one worker written as a function nested in start_benchmark", "keep", _D, _WL_OLD, _WL_NESTED),
    V("nested start-up function: the row of the worker's number instead of the client's", "break", _D, _WL_OLD,
      _WL_NESTED.replace("client_allocations.add(client_id, self.allocations[client_id])", "client_allocations.add(client_id, self.allocations[worker_id])"), "O1.13"),
    V("nested start-up function: workers that simulate a single client are not started", "break", _D, _WL_OLD,
      _WL_NESTED.replace("                if len(clients) > 0:\n", "                if len(clients) > 1:\n"), None),
    V("number of steps taken from the per-step task table, one too few", "break", _D, _STEPS_OLD,
      "        self.tasks_per_join_point = allocator.tasks_per_joinpoint\n        self.number_of_steps = len(self.tasks_per_join_point) - 1\n", "O1.3"),
    # h5: take-and-reset merged into one parallel assignment (benign C07-b13); the expansion rewrites it one target per statement, O1.3 evaluates the value assigned
    V("h5 keep: snapshot and reset of the per-step map in one parallel assignment", "keep", _D, _SNAP_OLD,
      "            workers_curr_step, self.workers_completed_current_step = self.workers_completed_current_step, {}\n"),
    V("h5 keep: parallel assignment with the reset written first (the values are evaluated before any target is bound)", "keep", _D, _SNAP_OLD,
      "            self.workers_completed_current_step, workers_curr_step = {}, self.workers_completed_current_step\n"),
    V("h5 keep: counter and flag reset in one parallel assignment", "keep", _D, "            self.currently_completed = 0\n            self.complete_current_task_sent = False\n",
      "            self.currently_completed, self.complete_current_task_sent = 0, False\n"),
    V("h5 keep: a shallow copy of the per-step map is handed on, the map is reset by dict()", "keep", _D, _SNAP_OLD,
      "            workers_curr_step = dict(self.workers_completed_current_step)\n            self.workers_completed_current_step = dict()\n"),
    V("h5 break: parallel assignment hands on the fresh map and keeps the arrivals of the closed step", "break", _D, _SNAP_OLD,
      "            workers_curr_step, self.workers_completed_current_step = {}, self.workers_completed_current_step\n", "O1.3"),
    V("h5 break: parallel assignment that leaves the per-step map as it is", "break", _D, _SNAP_OLD,
      "            workers_curr_step, self.workers_completed_current_step = self.workers_completed_current_step, self.workers_completed_current_step\n", "O1.3"),
    V("h5 break: the snapshot is taken after the reset (the next element is driven with an empty map)", "break", _D, _SNAP_OLD,
      "            self.workers_completed_current_step = {}\n            workers_curr_step = self.workers_completed_current_step\n", "O1.3"),
    V("h5 break: parallel assignment resets the counter to one", "break", _D, "            self.currently_completed = 0\n            self.complete_current_task_sent = False\n",
      "            self.currently_completed, self.complete_current_task_sent = 1, False\n", "O1."),
]


# str6: seeds C01-m16 (Drive loop pairs workers with the arrival map's values in arrival order), C01-m17 (the row-skipping loop stops at padding rows), C01-m18 (the complete
# event is consulted only when the runner reports no completion of its own)
_DRV_LOOP = ("        for worker_id, worker in enumerate(self.workers):\n"
             "            worker_ended_task_at, master_received_msg_at = workers_curr_step[worker_id]\n")
_SKIP_LOOP = "        while len(task_allocations) == 0:\n            task_allocations = self.current_tasks_and_advance()\n"
VARIANTS += [
    V("str6 break (C01-m16): workers zipped with the values of the arrival map (arrival order)", "break", _D, _DRV_LOOP,
      "        for worker_id, (worker, timestamps) in enumerate(zip(self.workers, workers_curr_step.values())):\n"
      "            worker_ended_task_at, master_received_msg_at = timestamps\n", "O1.2b"),
    V("str6 break: the i-th worker gets the i-th entry of the arrival map as a list", "break", _D, _DRV_LOOP,
      "        arrivals = list(workers_curr_step.values())\n        for worker_id, worker in enumerate(self.workers):\n"
      "            worker_ended_task_at, master_received_msg_at = arrivals[worker_id]\n", "O1.2b"),
    V("str6 keep: workers zipped with the entries looked up by worker id", "keep", _D, _DRV_LOOP,
      "        for worker_id, (worker, timestamps) in enumerate(zip(self.workers, [workers_curr_step[i] for i in range(len(self.workers))])):\n"
      "            worker_ended_task_at, master_received_msg_at = timestamps\n"),
    V("str6 keep: the entry travels through a local before it is unpacked", "keep", _D, _DRV_LOOP,
      "        for worker_id, worker in enumerate(self.workers):\n            entry = workers_curr_step[worker_id]\n"
      "            worker_ended_task_at, master_received_msg_at = entry\n"),
    V("str6 break (C01-m17): the skipping loop stops where the row view says join point (true on padding rows)", "break", _D, _SKIP_LOOP,
      "        while len(task_allocations) == 0 and not self.at_joinpoint():\n            task_allocations = self.current_tasks_and_advance()\n", "O1.9"),
    V("str6 break: the join point test is made before empty rows are skipped", "break", _D,
      _SKIP_LOOP + "\n        if self.at_joinpoint():\n",
      "        at_jp = self.at_joinpoint()\n" + _SKIP_LOOP + "\n        if at_jp:\n", "O1.9"),
    V("str6 keep: the skipping loop tests the row by truth", "keep", _D, _SKIP_LOOP,
      "        while not task_allocations:\n            task_allocations = self.current_tasks_and_advance()\n"),
    V("str6 break (C01-m18): the event is consulted only when the runner reports no completion of its own", "break", _D, _CMP_OLD,
      "                completed = runner.completed\n                if completed is None and not task_completes_parent:\n                    completed = self.complete.is_set()\n", "O1.6"),
    V("str6 break: the event counts only together with the runner's own completion", "break", _D, _POLL_OLD,
      "                    completed = self.complete.is_set() and runner.completed\n", "O1.6"),
    V("str6 keep: runner first, then the event for tasks that do not complete their parent", "keep", _D, _CMP_OLD,
      "                completed = runner.completed\n                if not completed and not task_completes_parent:\n                    completed = self.complete.is_set()\n"),
]
