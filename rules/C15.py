"""C15 — the track/team branch used is the documented best match for the ES version (DESIGN.md section 4, C15)."""
from __future__ import annotations

import ast
import itertools

from sa import minieval, pat, source
from sa.cfg import cfg_of, guards
from sa.classes import is_logging_stmt
from sa.source import AnchorMissing, dotted, is_self_attr, last_attr, local_defs, params_of, short, u, walk_body
from sa.sym import UnknownAtom, atoms_of
from sa.tables import Unsupported, decide

_V = "esrally/utils/versions.py"
_P = "esrally/utils/repo.py"
_G = "esrally/utils/git.py"

OPT_ATTRS = {"major", "minor", "patch"}


def optional_int_names(func):
    """locals carrying a version component (int or None, 0 meaningful) or the result of the bounded-minor search."""
    names = set()
    for n in walk_body(func):
        if isinstance(n, ast.Assign) and isinstance(n.value, ast.Call) and last_attr(n.value.func) == "components" and isinstance(n.targets[0], ast.Tuple):
            for i, t in enumerate(n.targets[0].elts):
                if i < 3 and isinstance(t, ast.Name) and t.id != "_":
                    names.add(t.id)
        if isinstance(n, ast.Assign) and isinstance(n.value, ast.Call) and last_attr(n.value.func) in ("latest_bounded_minor", "_latest_major", "major_version") and isinstance(n.targets[0], ast.Name):
            names.add(n.targets[0].id)
        if isinstance(n, ast.NamedExpr) and isinstance(n.value, ast.Call) and last_attr(n.value.func) in ("latest_bounded_minor", "_latest_major", "major_version"):
            names.add(n.target.id)
    return names


def bound_name(call):
    """the local bound directly to the value of this call (`x = call(...)` or `(x := call(...))`), else None — names are derived by role, never spelled out."""
    p = source.parent(call)
    if isinstance(p, ast.Assign) and p.value is call and len(p.targets) == 1 and isinstance(p.targets[0], ast.Name):
        return p.targets[0].id
    if isinstance(p, ast.NamedExpr) and p.value is call and isinstance(p.target, ast.Name):
        return p.target.id
    return None


def unpacked_names(root, callee, n=4):
    """[(assign, [name at tuple position 0..n-1])] for every `a, b, c, d = <callee>(...)` below root."""
    out = []
    for x in ast.walk(root):
        if isinstance(x, ast.Assign) and isinstance(x.value, ast.Call) and last_attr(x.value.func) == callee and len(x.targets) == 1 and isinstance(x.targets[0], ast.Tuple) \
                and len(x.targets[0].elts) == n and all(isinstance(t, ast.Name) for t in x.targets[0].elts):
            out.append((x, [t.id for t in x.targets[0].elts]))
    return out


def returned_value(ret):
    """expression a return statement yields: its value, seen through a temporary assigned by the statement just before it (`tmp = E; return tmp`)."""
    v = ret.value
    if isinstance(v, ast.Name):
        par = source.parent(ret)
        for f in ("body", "orelse", "finalbody"):
            b = getattr(par, f, None)
            if isinstance(b, list) and any(x is ret for x in b):
                i = [k for k, x in enumerate(b) if x is ret][0]
                prev = code_stmts(b[:i])[-1:] if i else []
                if prev and isinstance(prev[0], ast.Assign) and len(prev[0].targets) == 1 and isinstance(prev[0].targets[0], ast.Name) and prev[0].targets[0].id == v.id:
                    return prev[0].value
    return v


def ev_text(e, env):
    """minieval.ev extended by the two other spellings of string formatting: '<fmt>' % args and '<fmt>'.format(args)."""
    try:
        if isinstance(e, ast.BinOp) and isinstance(e.op, ast.Mod) and isinstance(e.left, ast.Constant) and isinstance(e.left.value, str):
            r = minieval.ev(e.right, env)
            return e.left.value % (r if isinstance(r, tuple) else (r,))
        if isinstance(e, ast.Call) and isinstance(e.func, ast.Attribute) and e.func.attr == "format" and isinstance(e.func.value, ast.Constant) and isinstance(e.func.value.value, str) and not e.keywords:
            return e.func.value.value.format(*[minieval.ev(a, env) for a in e.args])
    except (TypeError, ValueError, IndexError, KeyError) as x:
        raise minieval.CannotEval(f"{u(e)[:60]}: {type(x).__name__}")
    return minieval.ev(e, env)


def is_none(n):
    return isinstance(n, ast.Constant) and n.value is None


def code_stmts(stmts):
    """statements without logging."""
    return [s for s in stmts if not is_logging_stmt(s)]


def boolean_context_atoms(func):
    """(atom node, context statement) for every expression used for its truth value."""
    out = []
    for n in walk_body(func):
        tests = []
        if isinstance(n, (ast.If, ast.While, ast.IfExp)):
            tests.append(n.test)
        elif isinstance(n, ast.Assert):
            tests.append(n.test)
        elif isinstance(n, ast.BoolOp):
            tests.append(n)
        elif isinstance(n, ast.UnaryOp) and isinstance(n.op, ast.Not):
            tests.append(n.operand)
        elif isinstance(n, ast.comprehension):
            tests.extend(n.ifs)
        for t in tests:
            for a in atoms_of(t):
                out.append((a, n))
    return out


def run(chk):
    repo = chk.repo
    ver, rep, git = repo.module(_V), repo.module(_P), repo.module(_G)
    chk.use(ver, rep, git)
    chk.explanation = (
        "Decides the matcher's structure: the variants list is built most-specific first with the right formats; the exact test precedes the nearest-prior-minor fallback; "
        "no version component (int or None, 0 meaningful) is ever tested by truthiness; the eligibility predicate of the bounded-minor search as a decision table over "
        "{major eq/ne} x {minor None/0/less/equal/greater} x {patch set?} x {suffix set?}; nearest = max of the eligible; master only under strictly-greater major / serverless / "
        "empty version; repository fallback order remote < local < v-tag < raise; the checked-out ref is the matcher's result and checkout errors are never swallowed; "
        "remote ref names lose only their remote prefix."
    )
    chk.not_decided = "git behaviour, contents of the repositories."

    # ---- O15.1 precedence order -------------------------------------------------------------------------------------------------------
    chk.rule("O15.1", "variants are built most-specific first (suffix, patch, minor, major) with formats M.m.p-s / M.m.p / M.m / M; in the matcher the exact test precedes the "
             "nearest-prior-minor fallback which applies at the minor step only; iteration is in list order", 7,
             "a less specific branch wins over an exact one (e.g. branch 7 chosen although 7.3 exists)")
    VV = ver.cls("VersionVariants")
    av = ver.methods(VV).get("all_versions")
    init = ver.methods(VV).get("__init__")
    if av is None or init is None:
        raise AnchorMissing("VersionVariants.all_versions / __init__")
    order = []
    for n in walk_body(av):
        if isinstance(n, ast.Tuple) and len(n.elts) == 2 and is_self_attr(n.elts[0]) and isinstance(n.elts[1], ast.Constant):
            order.append((n.lineno, n.col_offset, n.elts[0].attr, n.elts[1].value, n))
    order.sort()
    seq = [o[2] for o in order]
    ok = seq == ["with_suffix", "with_patch", "with_minor", "with_major"] and all(o[2] == o[3] for o in order)
    chk.ob("O15.1", "variants order: suffix, patch, minor, major", ok, av, f"order: {seq}, labels: {[o[3] for o in order]}")
    if order:
        sfx = order[0][4]
        # the suffix entry is conditional on a suffix being present (guard fact `self.suffix`, whichever arm / polarity), the others unconditional;
        # when the condition is a conditional expression its other arm contributes nothing
        ok = pat.guarded(sfx, "self.suffix") is not None
        cond = [a for a in source.ancestors(sfx) if isinstance(a, ast.IfExp)]
        if ok and cond:
            other = cond[0].orelse if any(x is sfx for x in ast.walk(cond[0].body)) else cond[0].body
            ok = isinstance(other, (ast.List, ast.Tuple)) and not other.elts
        chk.ob("O15.1", "suffix variant only when the version has a suffix", ok, sfx, "")
    rets = [n for n in walk_body(av) if isinstance(n, ast.Return)]
    ok = len(rets) == 1 and not any(isinstance(c, ast.Call) and dotted(c.func) in ("sorted", "reversed", "set") or (isinstance(c, ast.Call) and last_attr(c.func) in ("sort", "reverse")) for c in ast.walk(av))
    chk.ob("O15.1", "variants list not re-ordered", ok, av, "")
    fm = {"with_major": ["major"], "with_minor": ["major", "minor"], "with_patch": ["major", "minor", "patch"], "with_suffix": ["major", "minor", "patch", "suffix"]}
    for n in walk_body(init):
        if isinstance(n, ast.Assign) and is_self_attr(n.targets[0]) and n.targets[0].attr in fm:
            v = n.value
            cond_ok = True
            if isinstance(v, ast.IfExp):
                # the formatted arm is the one taken when a suffix is present (decided from its guard facts, not from the arm position)
                v = v.body if isinstance(v.body, ast.JoinedStr) else v.orelse
                cond_ok = pat.guarded(v, "self.suffix", "self.suffix is not None", stop=n) is not None
            ok = False
            if isinstance(v, ast.JoinedStr) and cond_ok:
                parts = []
                seps = []
                for p in v.values:
                    if isinstance(p, ast.FormattedValue):
                        e = p.value
                        if isinstance(e, ast.Call) and dotted(e.func) == "int" and len(e.args) == 1:
                            e = e.args[0]
                        parts.append(e.attr if is_self_attr(e) else "?")
                    elif isinstance(p, ast.Constant):
                        seps.append(p.value)
                want_seps = {"with_major": [], "with_minor": ["."], "with_patch": [".", "."], "with_suffix": [".", ".", "-"]}[n.targets[0].attr]
                ok = parts == fm[n.targets[0].attr] and seps == want_seps
            chk.ob("O15.1", f"{n.targets[0].attr} format", ok, n, short(n.value, 90))
    bm = ver.func("best_match")
    if len(params_of(bm)) != 2:
        raise AnchorMissing("best_match(available_alternatives, distribution_version)")
    alt, dist = params_of(bm)
    loops = [n for n in walk_body(bm) if isinstance(n, ast.For)]
    if not loops:
        raise AnchorMissing("loop over the variants in best_match")
    # the variants loop is the one iterating `<variants>.all_versions`; its two targets are the variant and its type (names by position)
    L = next((n for n in loops if isinstance(n.iter, ast.Attribute) and n.iter.attr == "all_versions"), loops[0])
    ok = isinstance(L.iter, ast.Attribute) and L.iter.attr == "all_versions" and isinstance(L.target, ast.Tuple) and len(L.target.elts) == 2 and all(isinstance(t, ast.Name) for t in L.target.elts)
    vvar, tvar = (L.target.elts[0].id, L.target.elts[1].id) if ok else (None, None)
    chk.ob("O15.1", "matcher iterates the variants in list order", ok, L, u(L.iter))
    fb = [n for n in ast.walk(L) if isinstance(n, ast.Call) and last_attr(n.func) == "latest_bounded_minor"]
    found_names = {bound_name(c) for c in fb} - {None}

    def is_fallback_value(n):
        while isinstance(n, ast.NamedExpr):
            n = n.value
        return (isinstance(n, ast.Call) and last_attr(n.func) == "latest_bounded_minor") or (isinstance(n, ast.Name) and n.id in found_names)

    def step(exact, step_type, found):
        """outcome of one loop step, evaluated for: variant among the alternatives? / type of the step (a value) / bounded-minor search found something?"""

        def atom(n, env):
            if vvar is None:
                return None
            if pat.match(n, f"V_v in {alt}", {"v": vvar}) is not None:
                return exact
            if pat.match(n, f"V_v not in {alt}", {"v": vvar}) is not None:
                return not exact
            if isinstance(n, ast.Compare) and len(n.ops) == 1 and isinstance(n.ops[0], (ast.Is, ast.IsNot)) and is_none(n.comparators[0]) and is_fallback_value(n.left):
                return found if isinstance(n.ops[0], ast.IsNot) else not found
            if is_fallback_value(n):
                return found  # a truthiness test is O15.2's finding; here only the ORDER of the tests is decided
            if isinstance(n, (ast.BoolOp, ast.UnaryOp, ast.NamedExpr)):
                return None
            try:
                return bool(minieval.ev(n, {tvar: step_type}))  # tests on the step type are evaluated as Python would, whatever their spelling
            except minieval.CannotEval:
                return None

        return decide(L.body, atom, {})

    firsts = [n for n in ast.walk(L) if isinstance(n, ast.If) and vvar is not None and any(pat.is_(a, f"V_v in {alt}", f"V_v not in {alt}", binds={"v": vvar}) for a in atoms_of(n.test))]
    first = firsts[0] if firsts else None
    outs = {}
    try:
        for case in itertools.product([True, False], ["with_suffix", "with_patch", "with_minor", "with_major"], [True, False]):
            outs[case] = step(*case)
    except (Unsupported, UnknownAtom) as e:
        chk.unknown("O15.1", f"a step of the variants loop is not a decision over (exact match, step type, bounded-minor result): {e}", L)
        outs = None
    if outs is not None:
        # whatever the step type and the fallback would say, an available variant is returned itself
        ok = first is not None and all(o.kind == "return" and isinstance(o.value, ast.Name) and o.value.id == vvar for c, o in outs.items() if c[0])
        chk.ob("O15.1", "exact test first in each step (returns the variant itself)", ok, first if first is not None else L, short(first, 60) if first is not None else "")
        ok = False
        if fb and first is not None:
            g = cfg_of(bm)
            ok = g.dominated_by_nodes(g.node_of(fb[0]), [g.node_of(first)]) and not g.path_exists(g.node_of(fb[0]), g.node_of(first), avoid=[g.node_of(L)])
            # no exact match: the fallback result is returned at the minor step when the search found something, and at no other step / in no other case
            taken = outs[(False, "with_minor", True)]
            ok = ok and taken.kind == "return" and not (isinstance(taken.value, ast.Name) and taken.value.id == vvar) and not is_none(taken.value) and taken.value is not None
            ok = ok and all(o.kind in ("fallthrough", "continue") for c, o in outs.items() if not c[0] and c != (False, "with_minor", True))
        chk.ob("O15.1", "nearest-prior-minor fallback after the exact test, at the minor step only", ok, fb[0] if fb else L, "")

    # ---- O15.2 no truthiness on optional ints ----------------------------------------------------------------------------------------------------
    chk.rule("O15.2", "values flowing from the version-component tuple or from the bounded-minor search (ints or None, 0 meaningful) are tested only with `is (not) None` / comparisons, never by truthiness", 2,
             "a '.0' minor branch as nearest prior minor (best_match(['7.0','6','master'], '7.3.1') must be '7.0')")
    n_sites = 0
    for f in ver.functions():
        names = optional_int_names(f)
        for a, ctxn in boolean_context_atoms(f):
            bad = None
            if isinstance(a, ast.Name) and a.id in names:
                bad = a.id
            elif isinstance(a, ast.NamedExpr) and a.target.id in names:
                bad = f"({u(a)})"
            elif isinstance(a, ast.Attribute) and a.attr in OPT_ATTRS and not isinstance(source.parent(a), ast.Call):
                bad = u(a)
            if bad is not None:
                n_sites += 1
                chk.ob("O15.2", f"{f.name}: truthiness test on optional int {bad}", False, a, f"`{short(ctxn.test if hasattr(ctxn, 'test') else ctxn, 90)}` is false for 0: a '.0' component is treated as missing",
                       key=f"{_V}:{source.qualname(f)}:truthiness:{bad}")
        if names:
            # positive instances: count the None-tests / comparisons that are written correctly
            for n in walk_body(f):
                if isinstance(n, ast.Compare) and any((isinstance(x, ast.Name) and x.id in names) or (isinstance(x, ast.NamedExpr) and x.target.id in names) for x in [n.left] + n.comparators):
                    chk.ob("O15.2", f"{f.name}: `{short(n, 50)}` tests an optional int explicitly", True, n, "")
    chk.stats["optional_int_truthiness_sites"] = n_sites

    # ---- O15.3 eligibility ------------------------------------------------------------------------------------------------------------------------
    chk.rule("O15.3", "bounded-minor search: eligible iff same major, minor present (0 included) and minor <= target minor, no patch, no suffix; result is the nearest (max) eligible or None; "
             "master only when the major is STRICTLY greater than the latest major branch, or the version is serverless / empty; otherwise None", 40,
             "a branch of another major or of a later minor is selected; master selected although a matching major exists")
    lb = ver.func("latest_bounded_minor")
    if len(params_of(lb)) != 2:
        raise AnchorMissing("latest_bounded_minor(alternatives, target_version)")
    altp, tgt = params_of(lb)
    # the candidate loop is the one in which a branch name is split into its components; the four locals are named by their tuple position
    lloops = [n for n in walk_body(lb) if isinstance(n, ast.For) and unpacked_names(n, "components")]
    if not lloops:
        raise AnchorMissing("loop over alternatives with a `major, minor, patch, suffix = components(...)` unpacking in latest_bounded_minor")
    LL = lloops[0]
    comp = [a for a, _ in unpacked_names(LL, "components")]
    mj, mn, pa, sf = unpacked_names(LL, "components")[0][1]
    strict_kw = source.arg_of(comp[0].value, 1, "strict")
    chk.ob("O15.3", "branch names parsed non-strictly (M, M.m allowed)", strict_kw is not None and source.is_const(strict_kw, False), comp[0], "")
    # the loop body is decided on VALUES: target 8.5, candidate major in (7, 8, 9), minor in (None, 0, 3, 5, 7), patch in (None, 1), suffix in (None, 'x');
    # every test is evaluated as Python would (including truthiness of a bare name), so operator choice, orientation and arm order are free
    MINOR = {"none": None, "zero": 0, "less": 3, "equal": 5, "greater": 7}
    MAJOR = {"lower": 7, "same": 8, "higher": 9}
    body = [s for s in LL.body]
    rows = 0
    for (mjn, mjv), (m, mnv), patch, suffix in itertools.product(MAJOR.items(), MINOR.items(), [None, 1], [None, "x"]):
        if mnv is None and patch is not None:
            continue  # a patch without a minor cannot be written
        vals = {mj: mjv, mn: mnv, pa: patch, sf: suffix, tgt: minieval.Record(major=8, minor=5, patch=0, suffix=None)}

        def atom(n, env):
            if isinstance(n, ast.Call) and last_attr(n.func) == "is_version_identifier":
                return True
            try:
                return bool(minieval.ev(n, dict(vals)))
            except minieval.CannotEval:
                return None

        try:
            out = decide(body, atom, {})
        except (Unsupported, UnknownAtom) as e:
            chk.unknown("O15.3", f"eligibility is not a decision over (major, minor, patch, suffix) of the candidate and the target: {e}", LL)
            break
        eligible = any(isinstance(e, ast.Call) and last_attr(e.func) == "append" and len(e.args) == 1 and isinstance(e.args[0], ast.Name) and e.args[0].id == mn for e in out.effects)
        want = mjn == "same" and m in ("zero", "less", "equal") and patch is None and suffix is None
        accept = eligible == want or (m == "equal" and mjn == "same" and patch is None and suffix is None)  # `<` is accepted: the equal minor is taken by the exact step
        rows += 1
        chk.ob("O15.3", f"eligible? major {mjn}, minor {m}, patch {'set' if patch else 'none'}, suffix {'set' if suffix else 'none'}", accept, LL,
               f"code: {'eligible' if eligible else 'not eligible'}; documented: {'eligible' if want else 'not eligible'}", key=f"{_V}:latest_bounded_minor:row:{mjn}|{m}|{patch is not None}|{suffix is not None}")
    # result: nearest of eligible
    # the list of eligible minors is the receiver of the `.append(<minor>)` in the candidate loop
    elists = [n.func.value.id for n in ast.walk(LL) if isinstance(n, ast.Call) and last_attr(n.func) == "append" and isinstance(n.func.value, ast.Name) and len(n.args) == 1
              and isinstance(n.args[0], ast.Name) and n.args[0].id == mn]
    elist = elists[0] if elists else None
    rets = [n for n in lb.body if isinstance(n, ast.Return)] + [n for n in walk_body(lb) if isinstance(n, ast.Return) and n not in lb.body]
    final = [r for r in rets if not (r.value is None or is_none(returned_value(r)))]

    def key_order(lam):
        """+1 / -1 if the key function is strictly increasing / decreasing over eligible minors (all <= target minor 5), 0 otherwise; evaluated on values."""
        if not (isinstance(lam, ast.Lambda) and len(lam.args.args) == 1):
            raise minieval.CannotEval("key is not a one-parameter lambda")
        ks = [minieval.ev(lam.body, {lam.args.args[0].arg: x, tgt: minieval.Record(major=8, minor=5, patch=0, suffix=None)}) for x in (0, 1, 3, 4, 5)]
        if not all(isinstance(k, (int, float)) for k in ks):
            raise minieval.CannotEval("key is not numeric")
        return 1 if all(a < b for a, b in zip(ks, ks[1:])) else (-1 if all(a > b for a, b in zip(ks, ks[1:])) else 0)

    ok = False
    undecided = None
    if len(final) == 1:
        v = returned_value(final[0])
        if isinstance(v, ast.Call) and dotted(v.func) in ("max", "min") and len(v.args) == 1 and all(k.arg == "key" for k in v.keywords):
            want = 1 if dotted(v.func) == "max" else -1  # the nearest prior minor is the greatest eligible one
            try:
                ok = (key_order(v.keywords[0].value) if v.keywords else 1) == want
            except minieval.CannotEval as e:
                undecided = str(e)
        elif isinstance(v, ast.Subscript) and u(v.slice) == "-1" and any(isinstance(c, ast.Call) and last_attr(c.func) == "sort" for c in ast.walk(lb)):
            ok = True
    if undecided is not None:
        chk.unknown("O15.3", f"the selection key of the nearest eligible minor cannot be evaluated: {undecided}", final[0])
    else:
        chk.ob("O15.3", "result is the nearest eligible minor", ok, final[0] if final else lb, short(final[0], 90) if final else "")
    none_rets = [r for r in rets if r.value is None or is_none(returned_value(r))]
    # the None result is guarded by the fact "no eligible minor was collected" (either arm / polarity of the test)
    ok = bool(none_rets) and elist is not None and pat.guarded(none_rets[0], "not V_e", "len(V_e) == 0", "V_e == []", binds={"e": elist}) is not None
    chk.ob("O15.3", "None when nothing is eligible", ok, none_rets[0] if none_rets else lb, "")
    # matcher: fallback result formatting and master rule
    # names by role: the variants object (assigned from VersionVariants(...)), the components of the distribution version (tuple positions), the bounded-minor result
    vv_names = {bound_name(n) for n in walk_body(bm) if isinstance(n, ast.Call) and last_attr(n.func) == "VersionVariants"} - {None}
    env = {nm: minieval.Record(major=8, minor=5, patch=1, suffix=None, with_major="8", with_minor="8.5", with_patch="8.5.1", with_suffix=None) for nm in vv_names}
    env.update({nm: 3 for nm in found_names})
    env[dist] = "8.5.1"
    for _, nms in unpacked_names(bm, "components"):
        env.update({k: v_ for k, v_ in zip(nms, (8, 5, 1, None)) if k != "_"})
    taken = outs[(False, "with_minor", True)] if outs is not None else None
    fr = [(taken.node, taken.value)] if taken is not None and taken.kind == "return" and taken.value is not None else [(n, returned_value(n)) for n in ast.walk(L) if isinstance(n, ast.Return) and isinstance(returned_value(n), ast.JoinedStr)]
    ok = False
    if fr:
        try:
            # evaluated for target 8.5.1 and nearest eligible minor 3
            ok = ev_text(fr[0][1], dict(env)) == "8.3"
        except minieval.CannotEval:
            fvs = [u(p_.value) for p_ in fr[0][1].values if isinstance(p_, ast.FormattedValue)] if isinstance(fr[0][1], ast.JoinedStr) else []
            ok = bool(fvs) and fvs[0].endswith(".major")
    fr = [x[0] for x in fr]
    chk.ob("O15.3", "fallback result is '<target major>.<nearest minor>'", ok, fr[0] if fr else L, short(fr[0], 60) if fr else "")
    masters = [n for n in walk_body(bm) if isinstance(n, ast.Return) and source.is_const(n.value, "master")]
    STRICT = "E_m > _latest_major(E_a)"  # matches either orientation (`_latest_major(..) < major`); >= / <= do not match
    conds = [[(u(source.inline_node(t, local_defs(bm))), pol) for t, pol in guards(m_)] for m_ in masters]
    ok_strict = any(any(pat.is_(f, STRICT) for f in pat.fact_nodes(m_)) for m_ in masters)
    chk.ob("O15.3", "master when the major is strictly greater than the latest major branch", ok_strict, masters[0] if masters else bm, f"master conditions: {conds}")
    for m_ in masters:
        fs = pat.fact_nodes(m_)
        # a guard fact mentioning the latest major must be the strict comparison; otherwise the serverless / empty-version facts qualify
        about_latest = [f for f in fs if any(isinstance(x, ast.Call) and last_attr(x.func) == "_latest_major" for x in ast.walk(f))]
        if about_latest:
            ok = all(pat.is_(f, STRICT) for f in about_latest)
        else:
            ok = any(pat.is_(f, "is_serverless(E_x)", "E_q.is_serverless(E_x)", f"not {dist}") for f in fs)
        chk.ob("O15.3", "master only under strictly-greater major / serverless / empty version", ok, m_, f"{[(u(t), p_) for t, p_ in guards(m_)]}")
    # what the matcher returns for an identified version is one of the GIVEN branches: `master` needs a membership fact (a repository without a master branch must fall
    # through to the v-tag / the local branches / the error, not to a checkout of a branch that does not exist)
    alt = params_of(bm)[0]
    for m_ in masters:
        fs = pat.fact_nodes(m_)
        if any(isinstance(f, ast.Call) and last_attr(f.func) == "is_version_identifier" for f in fs):
            ok = any(pat.is_(f, f"'master' in {alt}") for f in fs)
            chk.ob("O15.3", "for an identified version `master` is returned only if it is among the given branches", ok, m_, f"facts {[u(f) for f in fs]}" + ("" if ok else
                   f" — no `'master' in {alt}`: for a repository without master the v-tag / local fallback is skipped and the checkout of [master] fails"), key=f"{_V}:best_match:master-membership")
    # the lenient branch-name pattern accepts exactly MAJOR[.MINOR[.PATCH[-SUFFIX]]] (decided by matching the extracted literal against representative names):
    # an unrelated branch such as 123-fix-typo must not count as a version (components() would read absent parts)
    import re as _re
    pats = {}
    for n in ver.tree.body:
        if isinstance(n, ast.Assign) and isinstance(n.value, ast.Call) and dotted(n.value.func) == "re.compile" and n.value.args and isinstance(n.value.args[0], ast.Constant):
            pats[n.targets[0].id] = (n, n.value.args[0].value)
    vp_ = ver.func("_versions_pattern")
    lenient = [r_.value.orelse.id if isinstance(r_.value, ast.IfExp) and isinstance(r_.value.orelse, ast.Name) else None for r_ in walk_body(vp_) if isinstance(r_, ast.Return)]
    lenient = [x for x in lenient if x in pats] or [k for k in pats if "OPTIONAL" in k]
    if not lenient:
        raise AnchorMissing("lenient version pattern (the one _versions_pattern returns for strict=False)")
    ln, ltxt = pats[lenient[0]]
    try:
        rx = _re.compile(ltxt)
    except _re.error as e:
        raise AnchorMissing(f"lenient version pattern does not compile: {e}")
    NAMES = [("7", True), ("7.3", True), ("7.3.1", True), ("7.3.1-SNAPSHOT", True), ("0.0", True), ("master", False), ("123-fix-typo", False), ("2024-05-cleanup", False), ("7-dev", False),
             ("8.1-backport", False), ("7.", False), ("v7.3.1", False), ("7.3.1.2", False), ("", False)]
    for name, want in NAMES:
        got = rx.match(name) is not None
        chk.ob("O15.3", f"branch name {name!r} {'is' if want else 'is not'} a version branch", got == want, ln, f"pattern {ltxt!r} {'matches' if got else 'does not match'}" + ("" if got == want else
               " — the name is parsed as a version with absent parts: int(None) raises TypeError in components(), the repository update crashes on an unrelated branch" if got else " — a versioned branch is ignored"),
               key=f"{_V}:{lenient[0]}:{name}")
    # master for a version identifier only after the variants loop is exhausted
    g = cfg_of(bm)
    for m_ in masters:
        if any(isinstance(f, ast.Call) and last_attr(f.func) == "is_version_identifier" for f in pat.fact_nodes(m_)):
            ok = g.dominated_by_nodes(g.node_of(m_), [g.node_of(L)]) and not g.path_exists(g.node_of(m_), g.node_of(L))
            chk.ob("O15.3", "master considered only after every variant failed", ok, m_, "")
    endret = bm.body[-1]
    chk.ob("O15.3", "otherwise None", isinstance(endret, ast.Return) and (endret.value is None or is_none(endret.value)), endret, "")
    lm = ver.func("_latest_major")
    ok = any(isinstance(n, ast.Assign) and isinstance(n.value, ast.Call) and dotted(n.value.func) == "max" for n in walk_body(lm)) and any(
        isinstance(n, ast.Assign) and isinstance(n.value, ast.UnaryOp) and isinstance(n.value.op, ast.USub) for n in walk_body(lm))
    chk.ob("O15.3", "_latest_major is the maximum major over the versioned branches (initial -1)", ok, lm, "")
    # EVERY versioned branch counts (also 8.0.0-alpha1): between parsing a branch name and the next iteration the running maximum is always updated
    from sa import pat as _p15
    glm = cfg_of(lm)
    lml = [n for n in walk_body(lm) if isinstance(n, ast.For)]
    upd = [n for n in walk_body(lm) if isinstance(n, ast.Assign) and isinstance(n.value, ast.Call) and dotted(n.value.func) == "max"]
    unp = [n for n in walk_body(lm) if isinstance(n, ast.Assign) and isinstance(n.value, ast.Call) and last_attr(n.value.func) == "components"]
    ok = False
    detail = ""
    if lml and upd and unp:
        fs = _p15.fact_nodes(unp[0], stop=lml[0])
        only_ident = len(fs) == 1 and isinstance(fs[0], ast.Call) and last_attr(fs[0].func) == "is_version_identifier"
        always = glm.must_pass(glm.node_of(unp[0]), [glm.node_of(upd[0])], exits=[glm.node_of(lml[0])], normal_only=True)
        ok = only_ident and always and not guards(upd[0], stop=lml[0])[1:]
        detail = f"parsed under {[u(f_) for f_ in fs]}; maximum updated on every path to the next branch: {always}" + \
            ("" if ok else " — a versioned branch is left out: `master` is chosen for a version OLDER than that branch")
    chk.ob("O15.3", "_latest_major counts every versioned branch (no further filter)", ok, upd[0] if upd else lm, detail, key=f"{_V}:_latest_major:every-versioned-branch")

    # ---- O15.4 repository fallback order -------------------------------------------------------------------------------------------------------------
    chk.rule("O15.4", "repository update: remote best match < local best match < v-tag over the same variants order < raise; the checked-out ref is the matcher's result; "
             "checkout errors are never swallowed; remote ref names lose only their remote prefix", 8,
             "Rally silently stays on a branch of another version, or checks out a ref the matcher did not select")
    RR = rep.cls("RallyRepository")
    up = rep.methods(RR).get("update")
    if up is None:
        raise AnchorMissing("RallyRepository.update")
    gu = cfg_of(up)
    if len(params_of(up)) < 2:
        raise AnchorMissing("RallyRepository.update(self, distribution_version)")
    dv = params_of(up)[1]
    bms = [n for n in walk_body(up) if isinstance(n, ast.Call) and last_attr(n.func) == "best_match"]
    ok = len(bms) == 2
    chk.ob("O15.4", "two matcher calls (remote, local)", ok, up, f"{len(bms)} best_match call(s)")

    def branch_source(c):
        """the `remote` argument of the git.branches(...) call whose result this matcher call searches (None if it searches something else)."""
        a0 = source.arg_of(c, 0, "available_alternatives")
        a0 = source.inline_node(a0, local_defs(up)) if a0 is not None else None
        return source.arg_of(a0, 1, "remote") if isinstance(a0, ast.Call) and last_attr(a0.func) == "branches" else None

    # the two calls are told apart by WHAT they search (remote=self.remote / remote=False), not by their order in the text
    rem = next((c for c in bms if is_self_attr(branch_source(c), "remote")), None)
    loc = next((c for c in bms if source.is_const(branch_source(c), False)), None)
    if len(bms) == 2:
        ok = rem is not None and loc is not None and rem is not loc and pat.guarded(rem, "self.remote") is not None
        chk.ob("O15.4", "remote branches first (only for remote repos), then local branches", ok and not gu.path_exists(gu.node_of(loc), gu.node_of(rem)), rem if rem is not None else up, "")
        for c in bms:
            a1 = source.arg_of(c, 1, "distribution_version")
            ok = isinstance(a1, ast.Name) and a1.id == dv
            chk.ob("O15.4", "matcher called with the distribution version", ok, c, "")
    # names by role: the local holding the local-branch match, the local holding the tag
    tagc = [n for n in walk_body(up) if isinstance(n, ast.Call) and last_attr(n.func) == "_find_matching_tag"]
    lbranch = bound_name(loc) if loc is not None else None
    ok = bool(tagc) and len(bms) == 2 and lbranch is not None and gu.dominated_by_nodes(gu.node_of(tagc[0]), [gu.node_of(loc)]) and pat.guarded(tagc[0], "not V_b", binds={"b": lbranch}) is not None
    chk.ob("O15.4", "tags only after no local branch matched", ok, tagc[0] if tagc else up, "")
    raises = [n for n in walk_body(up) if isinstance(n, ast.Raise) and not isinstance(source.enclosing(n, (ast.ExceptHandler,)), ast.ExceptHandler)]
    tagv = bound_name(tagc[0]) if tagc else None
    ok = bool(raises) and tagv is not None and pat.guarded(raises[0], "not V_t", binds={"t": tagv}) is not None
    chk.ob("O15.4", "explicit error when nothing qualifies", ok, raises[0] if raises else up, "")
    # the remote branch list is the list the remote HAS: fetch prunes deleted remote branches and brings the tags the tag fallback searches
    gf = git.func("fetch")
    cmds = [x for x in ast.walk(gf) if isinstance(x, ast.JoinedStr)]
    lit = " ".join(str(v.value) for c_ in cmds for v in c_.values if isinstance(v, ast.Constant))
    toks = lit.split()
    ok = "fetch" in toks and "--prune" in toks and "--tags" in toks
    chk.ob("O15.4", "git fetch prunes deleted remote branches and fetches tags", ok, cmds[0] if cmds else gf, f"command words: {toks}" +
           ("" if ok else " — without --prune a branch deleted upstream keeps matching (origin/<branch> is stale) and is checked out instead of the documented fallback"),
           key="esrally/utils/git.py:fetch:prune-and-tags")
    # every git command that names the repository directory interpolates the ESCAPED path (a raw path with a backslash / space is mangled by the shell-style splitting: git's error
    # text then becomes the "branch list")
    n_cmd = 0
    for gfn in git.functions():
        gps = params_of(gfn)
        if not gps:
            continue
        raw = gps[0]
        for c in [c for c in walk_body(gfn) if isinstance(c, ast.Call) and (dotted(c.func) or "").startswith("process.run_subprocess") and c.args]:
            cmd = c.args[0]
            interp = [v.value for v in cmd.values if isinstance(v, ast.FormattedValue)] if isinstance(cmd, ast.JoinedStr) else \
                (list(cmd.right.elts) if isinstance(cmd, ast.BinOp) and isinstance(cmd.op, ast.Mod) and isinstance(cmd.right, ast.Tuple) else ([cmd.right] if isinstance(cmd, ast.BinOp) and isinstance(cmd.op, ast.Mod) else []))
            if not interp:
                continue
            n_cmd += 1
            bare = [x for x in interp if isinstance(x, ast.Name) and x.id == raw]
            chk.ob("O15.4", f"git.{gfn.name}: the repository path is interpolated escaped", not bare, c, "" if not bare else f"`{raw}` is used raw in {short(cmd, 60)}",
                   key=f"esrally/utils/git.py:{gfn.name}:escaped-path:{len([x for x in walk_body(gfn) if isinstance(x, ast.Call) and x.lineno < c.lineno and (dotted(x.func) or '').startswith('process.run_subprocess')])}")
    chk.ob("O15.4", "git command sites located", n_cmd >= 8, git.tree, f"{n_cmd} command(s) with interpolated arguments")
    # a fresh clone has ALL branches of the remote (a shallow / single-branch clone only knows the default branch: every version then falls back to it)
    gcl = git.func("clone")
    ctoks = " ".join(str(v.value) for x in ast.walk(gcl) if isinstance(x, ast.JoinedStr) for v in x.values if isinstance(v, ast.Constant)).split() + \
        " ".join(x.value for x in ast.walk(gcl) if isinstance(x, ast.Constant) and isinstance(x.value, str) and "clone" in x.value).split()
    narrowing = [t for t in ctoks if t.startswith(("--depth", "--single-branch", "--shallow", "--branch", "-b", "--filter", "--no-tags"))]
    chk.ob("O15.4", "git clone fetches every branch (no --depth / --single-branch / --branch)", "clone" in ctoks and not narrowing, gcl, f"command words: {[t for t in ctoks if not t.startswith('%')]}" +
           ("" if not narrowing else f" — {narrowing} leaves only the default branch: the best match for every version is then the default branch"), key="esrally/utils/git.py:clone:all-branches")
    fcalls = [c for c in walk_body(up) if isinstance(c, ast.Call) and dotted(c.func) == "git.fetch"]
    rb = [c for c in walk_body(up) if isinstance(c, ast.Call) and dotted(c.func) == "git.branches" and "self.remote" in u(c)]
    ok = bool(fcalls) and bool(rb) and all(gu.dominated_by_nodes(gu.node_of(b_), [gu.node_of(f_) for f_ in fcalls]) for b_ in rb) or (not fcalls and bool(rb))
    if not fcalls:
        # the fetch happens in the constructor / another method: accept when some method of the class calls git.fetch under the remote flag
        anyf = [c for f_ in rep.methods(RR).values() for c in walk_body(f_) if isinstance(c, ast.Call) and dotted(c.func) == "git.fetch"]
        ok = bool(anyf)
    chk.ob("O15.4", "remote branches are listed after a fetch", ok, rb[0] if rb else up, "")
    cos = [n for n in walk_body(up) if isinstance(n, ast.Call) and dotted(n.func) == "git.checkout"]
    # a checkout of the selected local branch may be skipped only when that very branch is checked out already: the only test on the current branch is (in)equality with the selection
    cbt = [f_ for c in cos for f_ in pat.fact_nodes(c) if any(isinstance(x, ast.Call) and dotted(x.func) == "git.current_branch" for x in ast.walk(f_))]
    for f_ in cbt:
        ok = pat.is_(f_, "git.current_branch(E_d) != V_b")
        chk.ob("O15.4", "checkout skipped only if the current branch EQUALS the selected one", ok, f_, u(f_) + ("" if ok else " — a branch whose name merely relates to the selection (suffix, prefix, ...) is kept: `8.8` stays checked out when `8` was selected"),
               key="esrally/utils/repo.py:RallyRepository.update:skip-only-if-equal")
    chk.ob("O15.4", "current-branch test located", len(cbt) >= 1, up, f"{len(cbt)} test(s)")
    # the revision pinned for later loads (workers re-load with it) is the head AFTER the ref was switched: no checkout / rebase can follow a revision read
    revw = [n for n in walk_body(up) if isinstance(n, ast.Assign) and any(is_self_attr(t, "revision") for t in n.targets) and isinstance(n.value, ast.Call) and last_attr(n.value.func) == "head_revision"]
    movers = [n for n in walk_body(up) if isinstance(n, ast.Call) and dotted(n.func) in ("git.checkout", "git.rebase", "git.pull", "git.fetch")]
    for w_ in revw:
        later = [m_ for m_ in movers if gu.path_exists(gu.node_of(w_), gu.node_of(m_)) and gu.node_of(w_) is not gu.node_of(m_)]
        chk.ob("O15.4", "the pinned revision is read after the last ref-changing git call", not later, w_,
               "" if not later else f"`{short(later[0], 50)}` (line {later[0].lineno}) can still run after the revision was recorded: later loads check out the commit Rally was on BEFORE selecting the branch",
               key=f"esrally/utils/repo.py:RallyRepository.update:revision-after-checkout:{len([x for x in revw if x.lineno < w_.lineno])}")
    chk.ob("O15.4", "revision recorded after a checkout", len(revw) >= 2, revw[0] if revw else up, f"{len(revw)} site(s)")
    for c in cos:
        ref = source.arg_of(c, 1, "branch")

        def origins(name, seen=()):
            """values that can reach the local `name` in update(), seen through plain aliases (`a = b`)."""
            out = []
            for n in walk_body(up):
                if isinstance(n, ast.Assign) and any(isinstance(t, ast.Name) and t.id == name for t in n.targets):
                    if isinstance(n.value, ast.Name) and n.value.id not in seen and n.value.id != name:
                        out += origins(n.value.id, seen + (name,)) or [n.value]
                    else:
                        out.append(n.value)
            return out

        d = origins(ref.id) if isinstance(ref, ast.Name) else None
        ok = bool(d) and all(isinstance(x, ast.Call) and last_attr(x.func) in ("best_match", "_find_matching_tag") for x in d)
        chk.ob("O15.4", "checked-out ref is the matcher's (or tag finder's) result", ok, c, short(c, 70))
        # errors propagate: from the checkout's exception edges the normal exit is unreachable
        cn = gu.node_of(c)
        exc_succ = [gu.nodes[y] for (y, lab) in gu.succ[cn.id] if lab.startswith("exc")]
        swallowed = any(gu.exit.id in gu.reachable([s]) for s in exc_succ if s.kind == "except")
        chk.ob("O15.4", "a failing checkout is never swallowed", not swallowed, c, "" if not swallowed else "an enclosing handler absorbs the checkout error and update() returns normally: Rally continues on whatever branch was checked out before")
    ft = rep.methods(RR).get("_find_matching_tag")
    ok = ft is not None and any(isinstance(n, ast.For) and isinstance(n.iter, ast.Call) and last_attr(n.iter.func) == "variants_of" for n in walk_body(ft)) and any(
        isinstance(n, ast.JoinedStr) and isinstance(n.values[0], ast.Constant) and n.values[0].value == "v" for n in walk_body(ft))
    chk.ob("O15.4", "tag search walks the same variants order with the 'v' prefix", ok, ft if ft is not None else RR, "")
    vo = ver.func("variants_of")
    ok = any(isinstance(n, ast.For) and u(n.iter).endswith(".all_versions") for n in walk_body(vo))
    chk.ob("O15.4", "variants_of yields all_versions in order", ok, vo, "")
    crb = git.func("_cleanup_remote_branch_names")
    apps = [n for n in walk_body(crb) if isinstance(n, ast.Call) and last_attr(n.func) == "append"]
    ok = False
    detail = ""
    if apps:
        a = apps[0].args[0] if apps[0].args else apps[0]
        while isinstance(a, ast.Call) and last_attr(a.func) == "strip":
            a = a.func.value
        detail = u(a)
        # the ref is the loop variable of the enclosing loop (named by role)
        loop = source.enclosing(apps[0], ast.For)
        rv = loop.target.id if loop is not None and isinstance(loop.target, ast.Name) else None
        ok = rv is not None and pat.is_(a, "V_r[V_r.index('/') + 1:]", "V_r.split('/', 1)[1]", "V_r.partition('/')[2]", "V_r[V_r.find('/') + 1:]", binds={"r": rv})
    chk.ob("O15.4", "remote ref -> branch name strips only the remote prefix (first path component)", ok, apps[0] if apps else crb, detail + ("" if ok else " — branch names containing '/' (users/joe/8.3) would turn into version-looking names"))


from sa.selftest import V  # noqa: E402

VARIANTS = [
    V("F21: every part of the lenient pattern independently optional", "break", _V, '(?:\\.(\\d+)(?:\\.(\\d+)(?:-(.+))?)?)?$")', '(?:\\.(\\d+))?(?:\\.(\\d+))?(?:-(.+))?$")', "O15.3"),
    V("F22: master returned without a membership test", "break", _V, ' and "master" in available_alternatives:', ":", "O15.3"),
    V("F22 fix with the operands swapped", "keep", _V, 'if major > _latest_major(available_alternatives) and "master" in available_alternatives:', 'if "master" in available_alternatives and _latest_major(available_alternatives) < major:', "O15.3"),
    V("F5a: truthiness on minor in eligibility", "break", _V, "            if major == target_version.major and minor is not None and minor <= target_version.minor:", "            if major == target_version.major and minor and minor <= target_version.minor:", "O15."),
    V("F5b / seed m1: truthiness on the walrus result", "break", _V, "(latest_minor := latest_bounded_minor(available_alternatives, versions)) is not None:", "(latest_minor := latest_bounded_minor(available_alternatives, versions)):", "O15.2"),
    V("variants list reversed", "break", _V, "        return versions\n\n\ndef best_match", "        return list(reversed(versions))\n\n\ndef best_match", "O15.1"),
    V("major before minor in variants", "break", _V, "                (self.with_minor, \"with_minor\"),\n                (self.with_major, \"with_major\"),", "                (self.with_major, \"with_major\"),\n                (self.with_minor, \"with_minor\"),", "O15.1"),
    V("eligibility ignores major", "break", _V, "            if major == target_version.major and minor is not None and minor <= target_version.minor:", "            if minor is not None and minor <= target_version.minor:", "O15.3"),
    V("later minors eligible", "break", _V, "minor is not None and minor <= target_version.minor:", "minor is not None:", "O15.3"),
    V("patch branches eligible", "break", _V, "            if patch is not None or suffix is not None:", "            if suffix is not None:", "O15.3"),
    V("master on >=", "break", _V, "        if major > _latest_major(available_alternatives) and", "        if major >= _latest_major(available_alternatives) and", "O15.3"),
    V("nearest = min", "break", _V, "    return min(eligible_minors, key=lambda x: abs(x - target_version.minor))", "    return min(eligible_minors)", "O15.3"),
    V("seed m2: remote ref split on last slash", "break", _G, "            branches.append(ref[ref.index(\"/\") + 1 :].strip())", "            branches.append(ref.split(\"/\")[-1].strip())", "O15.4"),
    V("seed m3: checkout inside the rebase try", "break", _P, "                    git.checkout(self.repo_dir, branch=branch)\n                    self.logger.info(\"Rebasing on [%s] in [%s] for distribution version [%s].\", branch, self.repo_dir, distribution_version)\n                    try:\n",
      "                    self.logger.info(\"Rebasing on [%s] in [%s] for distribution version [%s].\", branch, self.repo_dir, distribution_version)\n                    try:\n                        git.checkout(self.repo_dir, branch=branch)\n", "O15.4"),
    V("tags before local branches", "break", _P, "            branch = versions.best_match(git.branches(self.repo_dir, remote=False), distribution_version)\n            if branch:", "            branch = None\n            if branch:", "O15.4"),
    V("checks out the current branch name", "break", _P, "                    git.checkout(self.repo_dir, branch=tag)", "                    git.checkout(self.repo_dir, branch=distribution_version)", "O15.4"),
    # preserving
    V("strictly smaller minors only", "keep", _V, "minor is not None and minor <= target_version.minor:", "minor is not None and minor < target_version.minor:"),
    V("nearest = max", "keep", _V, "    return min(eligible_minors, key=lambda x: abs(x - target_version.minor))", "    return max(eligible_minors)"),
    V("None checks reordered", "keep", _V, "            if patch is not None or suffix is not None:", "            if suffix is not None or patch is not None:"),
]
