"""C15 — the track/team branch used is the documented best match for the ES version (DESIGN.md section 4, C15)."""
from __future__ import annotations

import ast
import bisect
import collections
import contextlib
import enum
import functools
import heapq
import itertools
import math
import operator
import re

from sa import minieval, pat, source
from sa.cfg import cfg_of
from sa.classes import decorator_names, is_logging_stmt
from sa.minieval import CannotEval
from sa.source import AnchorMissing, dotted, is_self_attr, last_attr, local_defs, params_of, short, u, walk_body
from sa.sym import atoms_of

_V = "esrally/utils/versions.py"
_P = "esrally/utils/repo.py"
_G = "esrally/utils/git.py"

OPT_ATTRS = {"major", "minor", "patch"}


def optional_int_names(func):
    """locals carrying a version component (int or None, 0 meaningful) or the result of the bounded-minor search."""
    names = set()
    for n in walk_body(func):
        if isinstance(n, ast.Assign) and isinstance(n.value, ast.Call) and last_attr(n.value.func) == "components" and isinstance(n.targets[0], ast.Tuple):
            for i, t in enumerate(n.targets[0].elts):
                if i < 3 and isinstance(t, ast.Name) and t.id != "_":
                    names.add(t.id)
        if isinstance(n, ast.Assign) and isinstance(n.value, ast.Call) and last_attr(n.value.func) in ("latest_bounded_minor", "_latest_major", "major_version") and isinstance(n.targets[0], ast.Name):
            names.add(n.targets[0].id)
        if isinstance(n, ast.NamedExpr) and isinstance(n.value, ast.Call) and last_attr(n.value.func) in ("latest_bounded_minor", "_latest_major", "major_version"):
            names.add(n.target.id)
    return names


def bound_name(call):
    """the local bound directly to the value of this call (`x = call(...)` or `(x := call(...))`), else None — names are derived by role, never spelled out."""
    p = source.parent(call)
    if isinstance(p, ast.Assign) and p.value is call and len(p.targets) == 1 and isinstance(p.targets[0], ast.Name):
        return p.targets[0].id
    if isinstance(p, ast.NamedExpr) and p.value is call and isinstance(p.target, ast.Name):
        return p.target.id
    return None


def boolean_context_atoms(func):
    """(atom node, context statement) for every expression used for its truth value."""
    out = []
    for n in walk_body(func):
        tests = []
        if isinstance(n, (ast.If, ast.While, ast.IfExp)):
            tests.append(n.test)
        elif isinstance(n, ast.Assert):
            tests.append(n.test)
        elif isinstance(n, ast.BoolOp):
            tests.append(n)
        elif isinstance(n, ast.UnaryOp) and isinstance(n.op, ast.Not):
            tests.append(n.operand)
        elif isinstance(n, ast.comprehension):
            tests.extend(n.ifs)
        for t in tests:
            for a in atoms_of(t):
                out.append((a, n))
    return out


# ======================================================================================================================================================
# A small evaluator for the PURE version-matching helpers (local to this module; a candidate for sa/ if other rules need it).
#
# tables.decide + minieval.ev evaluate one extracted test / one straight-line decision on representative values. The matcher's helpers are small pure functions over strings,
# ints and lists, and every realistic refactoring of them (guard clauses, loop -> comprehension / generator + max(default=), extracted helper, set instead of list, named
# constants, extra log lines) changes their SHAPE but not their VALUE on any input. The obligations of O15.1 / O15.3 are therefore decided on values: the extracted function is
# evaluated on representative (branch list, version) inputs and the outcome is compared with the documented one. Calls resolve to
#   (1) the stubs the rule supplies (the two regex primitives `components` / `is_version_identifier`, git.tags) — reference semantics, recorded in a trace,
#   (2) a whitelist of side-effect free builtins and str / list / dict / set methods,
#   (3) functions and classes DEFINED IN THE ANALYSED MODULE, which are evaluated in turn (an extracted helper is followed, arguments bound to parameters).
#   (4) record / constant TYPES of the standard library the module derives its own data model from, recognised through the module's import table (never by the spelling of the
#       local name): `class X(typing.NamedTuple)` / `collections.namedtuple(...)` become the real named tuple type (an instance IS a tuple: it unpacks, indexes and compares
#       like the plain pair), `class K(enum.Enum / StrEnum / IntEnum / (str, Enum))` becomes the real enumeration (members compare by identity, a plain member is NOT equal
#       to its raw value; the literal that N9 put in place of `K.MEMBER` is mapped back to the member), `@dataclasses.dataclass` classes get the generated __init__
#       (fields in declaration order, defaults / default_factory, __post_init__, frozen); plus a whitelist of pure helpers of functools / operator / itertools / bisect / heapq / math.
# No function of the repository is ever called. Anything outside this fragment raises CannotEval -> `chk.unknown` (shape not recognised), never a verdict.
#
# PROCESS STATE (`session`): by default every evaluation stands on its own - memoising decorators are transparent, module-level / class-level values and default arguments are
# built afresh whenever they are read. Evaluators that share a `session` dict model ONE PROCESS instead: a function under functools.lru_cache / functools.cache (resolved
# through the import table) returns THE OBJECT it returned before for equal arguments, module-level values, class-level values and the defaults of module-level functions /
# methods are created once and live on (writes through them - `_CACHE[k] = v`, `global` names - are performed). In both modes the result of a generator function is a
# single-use iterator (evaluated eagerly, handed out once) and a functools.cached_property is computed once per instance. A sequence of lookups evaluated in one session
# therefore shows whether a later lookup depends on the earlier ones.


class _Opaque:
    """value of an expression the evaluator does not model (a logger, a clock): may be bound and passed to logging statements, never inspected."""

    def __repr__(self):
        return "<not modelled>"


class _Caught(_Opaque):
    """the exception object bound by `except X as e`: not inspected, but `raise e` re-raises what was caught."""

    def __init__(self, raised):
        self.raised = raised


OPAQUE = _Opaque()
_MISSING = object()


class _Obj:
    """instance of a class of the analysed module (owner: the evaluator of the module that defines the class - None: whoever evaluates)."""

    def __init__(self, cls, owner=None):
        self.cls = cls
        self.fields = {}
        self.owner = owner


class _Cls:
    def __init__(self, node, owner=None):
        self.node = node
        self.owner = owner


class _Mod:
    """a COLLABORATING module of the analysed one (`from esrally.utils import versions`), recognised through the import table: what is read from it is evaluated by that
    module's own evaluator (its definitions, its stubs) - the inlined / renamed helper of the other module is followed like a helper of the same module."""

    def __init__(self, interp):
        self.interp = interp


class _Raised(Exception):
    """the evaluated code raises (an explicit `raise`, or a Python error that is certain because every operand is a concrete plain value)."""

    def __init__(self, text, name=None):
        super().__init__(text)
        self.text = text
        self.name = name or text.split(":")[0].split("(")[0].strip().split(".")[-1]  # class name of the exception


class _Ctl(Exception):
    pass


class _Return(_Ctl):
    def __init__(self, value):
        self.value = value


class _Break(_Ctl):
    pass


class _Continue(_Ctl):
    pass


def _plain(v, d=0):
    """a concrete Python value whose operators / methods behave exactly as in the analysed program."""
    if isinstance(v, (_Obj, _Cls, _Mod, _Opaque, minieval.Record)):
        return False
    if isinstance(v, (list, tuple, set, frozenset)):
        return d > 4 or all(_plain(x, d + 1) for x in v)
    if isinstance(v, dict):
        return d > 4 or all(_plain(k, d + 1) and _plain(x, d + 1) for k, x in v.items())
    return True


_BUILTINS = {"max": max, "min": min, "sorted": sorted, "len": len, "abs": abs, "int": int, "str": str, "float": float, "bool": bool, "list": list, "tuple": tuple, "set": set,
             "frozenset": frozenset, "dict": dict, "any": any, "all": all, "sum": sum, "enumerate": enumerate, "zip": zip, "range": range, "reversed": reversed, "filter": filter,
             "map": map, "next": next, "iter": iter, "round": round, "repr": repr, "divmod": divmod}
_TYPE_NAMES = {"str": str, "int": int, "float": float, "bool": bool, "list": list, "tuple": tuple, "dict": dict, "set": set, "frozenset": frozenset}
_METHODS = {
    str: {"split", "rsplit", "partition", "rpartition", "strip", "lstrip", "rstrip", "startswith", "endswith", "lower", "upper", "replace", "join", "format", "isdigit", "isnumeric",
          "isdecimal", "isalpha", "find", "rfind", "index", "rindex", "count", "removeprefix", "removesuffix", "zfill", "splitlines", "casefold", "title", "capitalize"},
    list: {"append", "extend", "sort", "insert", "pop", "index", "count", "copy", "reverse", "remove", "clear"},
    tuple: {"index", "count"},
    dict: {"get", "items", "keys", "values", "setdefault", "pop", "update", "copy"},
    set: {"add", "discard", "update", "union", "intersection", "difference", "copy", "remove", "issubset", "issuperset", "isdisjoint"},
    frozenset: {"union", "intersection", "difference", "copy", "issubset", "issuperset", "isdisjoint"},
}
_CMP = {ast.Eq: operator.eq, ast.NotEq: operator.ne, ast.Lt: operator.lt, ast.LtE: operator.le, ast.Gt: operator.gt, ast.GtE: operator.ge, ast.Is: operator.is_, ast.IsNot: operator.is_not,
        ast.In: lambda a, b: a in b, ast.NotIn: lambda a, b: a not in b}
_BIN = {ast.Add: operator.add, ast.Sub: operator.sub, ast.Mult: operator.mul, ast.Div: operator.truediv, ast.FloorDiv: operator.floordiv, ast.Mod: operator.mod, ast.Pow: operator.pow,
        ast.BitOr: operator.or_, ast.BitAnd: operator.and_, ast.BitXor: operator.xor}
_OK_DECORATORS = {"property", "staticmethod", "classmethod", "functools.lru_cache", "functools.cache", "lru_cache", "cache", "functools.cached_property", "cached_property",
                  "functools.total_ordering", "total_ordering"}
_MEMOISERS = {"functools.lru_cache", "functools.cache"}
_GLOBALS = "<names declared global>"  # (not an identifier: cannot collide with a local)
_SCOPES = (ast.FunctionDef, ast.AsyncFunctionDef, ast.Lambda, ast.ClassDef)
_OK_CLASS_DECORATORS = {"functools.total_ordering", "enum.unique", "dataclasses.dataclass"}
_INERT_BASES = {"abc.ABC", "typing.Generic", "typing.Protocol"}  # bases that add no member an evaluated expression could reach
_NO_BRIDGE = {"__new__", "__init__", "__getattribute__", "__getattr__", "__setattr__", "__delattr__", "__init_subclass__", "__class_getitem__", "__set_name__", "__missing__",
              "_generate_next_value_"}
_NAMEDTUPLE_BASES = {"typing.NamedTuple", "typing_extensions.NamedTuple"}
_ENUM_BASES = {"enum.Enum": enum.Enum, "enum.IntEnum": enum.IntEnum, "enum.StrEnum": getattr(enum, "StrEnum", None), "enum.Flag": enum.Flag, "enum.IntFlag": enum.IntFlag}
# pure helpers of the standard library, addressed by their QUALIFIED name (the local spelling is resolved through the module's import table)
_STDLIB = {"functools.partial": functools.partial, "functools.reduce": functools.reduce, "operator.itemgetter": operator.itemgetter,
           "itertools.chain": itertools.chain, "itertools.chain.from_iterable": itertools.chain.from_iterable, "itertools.takewhile": itertools.takewhile,
           "itertools.dropwhile": itertools.dropwhile, "itertools.islice": itertools.islice, "itertools.filterfalse": itertools.filterfalse, "itertools.starmap": itertools.starmap,
           "itertools.accumulate": itertools.accumulate, "itertools.zip_longest": itertools.zip_longest, "itertools.groupby": itertools.groupby, "itertools.product": itertools.product,
           "bisect.bisect": bisect.bisect, "bisect.bisect_left": bisect.bisect_left, "bisect.bisect_right": bisect.bisect_right, "heapq.nlargest": heapq.nlargest,
           "heapq.nsmallest": heapq.nsmallest, "math.inf": math.inf, "math.floor": math.floor, "math.ceil": math.ceil, "math.isinf": math.isinf, "sys.maxsize": __import__("sys").maxsize}
_STDLIB.update({f"operator.{n}": getattr(operator, n) for n in ("eq", "ne", "lt", "le", "gt", "ge", "add", "sub", "mul", "neg", "not_", "truth", "is_", "is_not", "contains", "getitem")})
# regular expressions are evaluated by Python's own engine (the module's patterns, applied the way the module applies them: match / fullmatch / search)
_STDLIB.update({f"re.{n}": getattr(re, n) for n in ("compile", "match", "fullmatch", "search", "findall", "sub", "split", "escape", "IGNORECASE", "I", "VERBOSE", "X", "ASCII", "A",
                                                     "MULTILINE", "M", "DOTALL", "S")})
_RE_ATTRS = {re.Pattern: {"match", "fullmatch", "search", "findall", "sub", "split", "pattern", "groups", "flags", "groupindex"},
             re.Match: {"group", "groups", "groupdict", "start", "end", "span", "string", "lastindex", "lastgroup", "re"}}
_IMMUTABLE = (str, bytes, int, float, tuple, frozenset)


def _is_dunder(name):
    return name.startswith("__") and name.endswith("__")


def _is_docstring(st):
    return isinstance(st, ast.Expr) and isinstance(st.value, ast.Constant) and isinstance(st.value.value, str)


def _own_nodes(func):
    """nodes of the function's own body (nested scopes are not entered)."""
    todo = list(func.body)
    while todo:
        n = todo.pop()
        yield n
        if not isinstance(n, _SCOPES):
            todo.extend(ast.iter_child_nodes(n))


class Interp:
    nesting = 0  # calls of analysed functions in progress, over all collaborating evaluators (0: the call about to be made is made by the rule itself)

    def __init__(self, mod, stubs=None, budget=60000, hierarchy=None, modules=None, session=None):
        self.mod = mod
        self.session = session  # None: every evaluation stands on its own; a dict (shared by collaborating evaluators): the state of ONE process
        self.stubs = dict(stubs or {})
        self.modules = dict(modules or {})  # qualified module name -> the evaluator of that collaborating module
        self.hierarchy = dict(hierarchy or {})  # exception classes of a collaborating module (name -> ClassDef): only their base chains are read
        self.budget = budget
        self.funcs = {n.name: n for n in mod.tree.body if isinstance(n, ast.FunctionDef)}
        self.classes = {n.name: n for n in mod.tree.body if isinstance(n, ast.ClassDef)}
        self.consts = {st.targets[0].id: st.value for st in mod.tree.body if isinstance(st, ast.Assign) and len(st.targets) == 1 and isinstance(st.targets[0], ast.Name)}
        self._const_busy = set()
        self.yields = []
        self.handling = []
        self.depth = 0
        self._types = {}  # id(ClassDef | Call node) -> the real named tuple / enumeration type it denotes (None: an ordinary class)
        self._nodes = {}  # real type -> the ClassDef it was built from (plain methods / properties are looked up there)
        self._raw = None
        self._raw_attrs = None
        self.enum_names = {n for n, c in self.classes.items() if any(self.qualified(b) in _ENUM_BASES for b in c.bases)}

    # -- plumbing ---------------------------------------------------------------------------------------------------------------------------------
    def tick(self):
        self.budget -= 1
        if self.budget < 0:
            raise CannotEval("step budget exhausted")

    def once(self, key, thunk):
        """process state: the value is created by the first read and lives on (session mode); without a session it is built afresh at every read."""
        if self.session is None:
            return thunk()
        if key not in self.session:
            self.session[key] = thunk()
        return self.session[key]

    def memo_key(self, func, args, kwargs, bound):
        """the cache key of a call of a function under functools.lru_cache / functools.cache (None: the function is not memoised, or no process state is modelled)."""
        if self.session is None or not any(self.qualified(d.func if isinstance(d, ast.Call) else d) in _MEMOISERS for d in func.decorator_list):
            return None

        def k(v):
            if isinstance(v, _Obj):
                if self.member(v.cls, "__eq__") is not None or self.member(v.cls, "__hash__") is not None:
                    raise CannotEval(f"{func.name}: memoised on an object with its own __eq__ / __hash__")
                return ("object", id(v))
            if isinstance(v, _Cls):
                return ("class", id(v.node))
            if isinstance(v, type):
                return ("type", id(v))
            if not _plain(v) or callable(v):
                raise CannotEval(f"{func.name}: memoised on a value that is not modelled")
            try:
                hash(v)
            except TypeError:
                if Interp.nesting == 0:
                    # the call is made by the RULE (a list of branch names handed in directly), not by the analysed program: whether the program's callers pass something
                    # hashable is decided where THEY are evaluated
                    return ("handed in by the rule", repr(v))
                raise _Raised(f"TypeError: unhashable type: {type(v).__name__!r} (argument of the memoised {func.name})", "TypeError")
            return ("value", v)

        return ("memo", id(func), None if bound is _MISSING else k(bound), tuple(k(a) for a in args), tuple((n, k(v)) for n, v in kwargs.items()))

    def qualified(self, node, env=None):
        """dotted name of an expression with its head resolved through the module's import table (`NamedTuple` -> `typing.NamedTuple`, `t.NamedTuple` after `import typing as t`
        likewise); None when the head is not an imported name or is shadowed by a local / a definition of the module."""
        d = dotted(node)
        if not d:
            return None
        head, _, rest = d.partition(".")
        if (env is not None and head in env) or head in self.funcs or head in self.classes or head in self.consts:
            return None
        base = self.mod.imports.get(head)
        if base is None:
            return None
        return base + ("." + rest if rest else "")

    def imported(self, e, env):
        """the value of a name / attribute chain that the import table resolves to a collaborating module (`versions`) or to a definition of one
        (`from esrally.utils.versions import VersionVariants`); _MISSING for everything else. Never the spelling of the local name: the import table decides."""
        if not self.modules:
            return _MISSING
        q = self.qualified(e, env)
        if q is None:
            return _MISSING
        if q in self.modules:
            return _Mod(self.modules[q])
        modname, _, attr = q.rpartition(".")
        if modname in self.modules:
            return self.modules[modname].exported(attr)
        return _MISSING

    def exported(self, name):
        """what a collaborating module reads as `<this module>.<name>`: a function / class / constant DEFINED here (or one of this evaluator's reference stubs), evaluated here."""
        if name not in self.stubs and name not in self.funcs and name not in self.classes and name not in self.consts:
            raise CannotEval(f"{self.mod.relpath} defines no {name}")
        self.budget = max(self.budget, 60000)  # (every read from the other module starts with a full step budget here; the call depth bounds recursion)
        return self.ev(ast.Name(id=name, ctx=ast.Load()), {})

    def owner_of(self, t):
        """the evaluator (this one or a collaborating one) that built the real named tuple / enumeration type `t` from a class statement, None if there is none."""
        if t in self._nodes:
            return self
        for o in self.modules.values():
            if t in o._nodes:
                return o
        return None

    # -- the module's data model: named tuples, enumerations, dataclasses ----------------------------------------------------------------------------
    def raw_tree(self):
        """the module parsed WITHOUT the parse-time normalisations: only field declarations (`x: T = default`, which N7 turns into a plain assignment) and the expression N9
        replaced by a literal are read from it; positions agree with the normalised tree."""
        if self._raw is None:
            self._raw = ast.parse(self.mod.text)
        return self._raw

    def raw_class(self, cls):
        for n in self.raw_tree().body:
            if isinstance(n, ast.ClassDef) and n.name == cls.name and n.lineno == cls.lineno:
                return n
        raise CannotEval(f"class {cls.name}: declaration not found in the module text")

    def class_decorators(self, cls):
        """qualified names of the class decorators (CannotEval for one whose effect is not modelled)."""
        out = {}
        for d in cls.decorator_list:
            q = self.qualified(d.func if isinstance(d, ast.Call) else d)
            if q not in _OK_CLASS_DECORATORS:
                raise CannotEval(f"class {cls.name}: decorator {short(d, 40)}")
            out[q] = d
        return out

    def record_fields(self, cls, what):
        """(name, default expression | None) of the annotated fields of a NamedTuple / dataclass body, in declaration order."""
        fields = []
        for st in self.raw_class(cls).body:
            if _is_docstring(st) or isinstance(st, ast.Pass) or isinstance(st, ast.FunctionDef):
                continue
            if isinstance(st, ast.AnnAssign) and isinstance(st.target, ast.Name) and st.simple:
                if any(isinstance(x, (ast.Name, ast.Attribute)) and last_attr(x) in ("ClassVar", "InitVar", "KW_ONLY") for x in ast.walk(st.annotation)) \
                        or (isinstance(st.annotation, ast.Constant) and isinstance(st.annotation.value, str) and re.search(r"ClassVar|InitVar|KW_ONLY", st.annotation.value)):
                    raise CannotEval(f"{what} {cls.name}: field {st.target.id} is a ClassVar / InitVar / KW_ONLY")
                fields.append((st.target.id, st.value))
                continue
            raise CannotEval(f"{what} {cls.name}: {type(st).__name__} at line {st.lineno} of the class body is not modelled")
        return fields

    def real_type(self, cls):
        """the real Python type an analysed class denotes when it derives from typing.NamedTuple or from an enumeration base (resolved through the import table); None for
        an ordinary class (evaluated as _Cls / _Obj)."""
        if id(cls) in self._types:
            return self._types[id(cls)]
        quals = [self.qualified(b) for b in cls.bases]
        t = None
        if any(q in _NAMEDTUPLE_BASES for q in quals):
            if len(cls.bases) != 1 or cls.keywords:
                raise CannotEval(f"NamedTuple class {cls.name} with further bases")
            self.class_decorators(cls)
            if cls.decorator_list:
                raise CannotEval(f"NamedTuple class {cls.name} is decorated")
            fields = self.record_fields(cls, "NamedTuple class")
            defaults = [self.ev(d, {}) for _n, d in fields if d is not None]
            if not all(_plain(d) for d in defaults) or any(d is None and any(x is not None for _m, x in fields[:i]) for i, (_n, d) in enumerate(fields)):
                raise CannotEval(f"NamedTuple class {cls.name}: defaults")
            try:
                t = collections.namedtuple(cls.name, [n for n, _d in fields], defaults=defaults or None)
                special = self.special_methods(cls)
                if special:
                    t = type(cls.name, (t,), dict(special, __slots__=()))
            except CannotEval:
                raise
            except Exception as x:  # noqa: BLE001
                raise CannotEval(f"NamedTuple class {cls.name}: {x}")
        elif any(q in _ENUM_BASES for q in quals):
            base, mixin = None, None
            for b, q in zip(cls.bases, quals):
                if q in _ENUM_BASES and _ENUM_BASES[q] is not None and base is None:
                    base = _ENUM_BASES[q]
                elif isinstance(b, ast.Name) and b.id in ("str", "int") and q is None and b.id not in self.classes and b.id not in self.funcs and b.id not in self.consts and mixin is None:
                    mixin = _TYPE_NAMES[b.id]
                else:
                    raise CannotEval(f"enumeration {cls.name}: base {u(b)}")
            if base is None or cls.keywords or set(self.class_decorators(cls)) - {"enum.unique"}:
                raise CannotEval(f"enumeration {cls.name}: bases / decorators")
            members = []
            for st in cls.body:
                if _is_docstring(st) or isinstance(st, ast.Pass) or isinstance(st, ast.FunctionDef):
                    continue
                if isinstance(st, ast.Assign) and len(st.targets) == 1 and isinstance(st.targets[0], ast.Name) and not st.targets[0].id.startswith("_"):
                    v = self.ev(st.value, {})
                    if not _plain(v) or callable(v):
                        raise CannotEval(f"enumeration {cls.name}: value of {st.targets[0].id}")
                    members.append((st.targets[0].id, v))
                    continue
                raise CannotEval(f"enumeration {cls.name}: {type(st).__name__} at line {st.lineno} of the class body is not modelled")
            try:
                # what the class statement does: the members (and the special methods, bridged to the evaluator) go through the enumeration's own namespace and metaclass
                bases_ = (mixin, base) if mixin is not None else (base,)
                ns = type(base).__prepare__(cls.name, bases_)
                for k, v in members:
                    ns[k] = v
                for k, v in self.special_methods(cls).items():
                    ns[k] = v
                t = type(base)(cls.name, bases_, ns)
            except CannotEval:
                raise
            except Exception as x:  # noqa: BLE001
                raise CannotEval(f"enumeration {cls.name}: {x}")
        self._types[id(cls)] = t
        if t is not None:
            self._nodes[t] = cls
        return t

    def special_methods(self, cls):
        """the special methods (__str__, __eq__, __lt__, ...) a record / enumeration class defines, as real methods that hand over to the evaluator: Python's own protocols
        (str(), ==, sorted, in) then behave on the real type as they do on the analysed class."""
        out = {}
        for st in cls.body:
            if isinstance(st, ast.FunctionDef) and (_is_dunder(st.name) or st.name in _NO_BRIDGE):
                if st.name in _NO_BRIDGE or st.decorator_list:
                    raise CannotEval(f"class {cls.name} defines {st.name}")

                def bridge(self_, *a, _m=st, **k):
                    return self.call_function(_m, list(a), k, bound=self_)

                out[st.name] = bridge
        return out

    def functional_type(self, e, q, env):
        """`collections.namedtuple("X", fields, ...)` / `typing.NamedTuple("X", [(name, type), ...])`: the real named tuple type (one per call site, as at import time)."""
        if id(e) not in self._types:
            if q == "collections.namedtuple":
                args, kwargs = self.call_args(e, env)
                if not all(_plain(a) for a in list(args) + list(kwargs.values())) or set(kwargs) - {"defaults", "rename", "module", "typename", "field_names"}:
                    raise CannotEval(f"call {short(e, 60)}")
                t = self.apply(collections.namedtuple, args, kwargs, short(e, 60))
            else:
                if len(e.args) != 2 or e.keywords or not isinstance(e.args[1], (ast.List, ast.Tuple)) or not all(
                        isinstance(x, ast.Tuple) and len(x.elts) == 2 and isinstance(x.elts[0], ast.Constant) and isinstance(x.elts[0].value, str) for x in e.args[1].elts):
                    raise CannotEval(f"call {short(e, 60)}")
                t = self.apply(collections.namedtuple, [self.ev(e.args[0], env), [x.elts[0].value for x in e.args[1].elts]], what=short(e, 60))
            self._types[id(e)] = t
        return self._types[id(e)]

    def dataclass_of(self, cls):
        """the `@dataclasses.dataclass` decorator of the class (resolved through the import table), None for an ordinary class."""
        return self.class_decorators(cls).get("dataclasses.dataclass")

    def instantiate_dataclass(self, cls, dec, args, kwargs):
        """the generated __init__: fields in declaration order, positional or keyword, defaults / default_factory evaluated per call (they are immutable or fresh), then __post_init__."""
        options = {k.arg: k.value for k in dec.keywords} if isinstance(dec, ast.Call) else {}
        if (isinstance(dec, ast.Call) and dec.args) or None in options or any(not isinstance(v, ast.Constant) for v in options.values()) \
                or set(options) - {"frozen", "slots", "eq", "order", "repr", "unsafe_hash", "match_args", "init", "kw_only"} \
                or (options.get("init") is not None and options["init"].value is not True) or (options.get("kw_only") is not None and options["kw_only"].value is not False):
            raise CannotEval(f"dataclass {cls.name}: options {short(dec, 50)}")
        if [b for b in cls.bases if dotted(b) != "object"] or self.member(cls, "__init__") is not None:
            raise CannotEval(f"dataclass {cls.name} with bases / its own __init__")
        o = _Obj(cls, self)
        fields = self.record_fields(cls, "dataclass")
        pos, kw = list(args), dict(kwargs or {})
        if len(pos) > len(fields):
            raise _Raised(f"TypeError: {cls.name}() takes {len(fields)} positional arguments but {len(pos)} were given")
        for i, (name, default) in enumerate(fields):
            factory = None
            if isinstance(default, ast.Call) and self.qualified(default.func) == "dataclasses.field":
                fk = {k.arg: k.value for k in default.keywords}
                if default.args or set(fk) - {"default", "default_factory", "repr", "compare", "hash", "metadata"}:
                    raise CannotEval(f"dataclass {cls.name}: {short(default, 50)}")
                default, factory = fk.get("default"), fk.get("default_factory")
            if i < len(pos):
                if name in kw:
                    raise _Raised(f"TypeError: {cls.name}() got multiple values for argument {name!r}")
                v = pos[i]
            elif name in kw:
                v = kw.pop(name)
            elif default is not None:
                v = self.ev(default, {})
            elif factory is not None:
                v = self.apply(self.ev(factory, {}), [], what=short(factory, 40))
            else:
                raise _Raised(f"TypeError: {cls.name}() missing required argument {name!r}")
            o.fields[name] = v
        if kw:
            raise _Raised(f"TypeError: {cls.name}() got an unexpected keyword argument {sorted(kw)[0]!r}")
        o.frozen = options.get("frozen") is not None and options["frozen"].value is True
        post = self.member(cls, "__post_init__")
        if isinstance(post, ast.FunctionDef):
            self.call_function(post, [], {}, bound=o)
        return o

    def raw_constant(self, e):
        """N9 replaced `Kind.MEMBER` (a CONSTANT_CASE class constant with a literal value) by the literal; for a member of an ENUMERATION the member is not its value, so the
        original expression is recovered from the un-normalised tree by its position. None for every other propagated constant."""
        if self._raw_attrs is None:
            self._raw_attrs = {(n.lineno, n.col_offset, n.end_lineno, n.end_col_offset): n for n in ast.walk(self.raw_tree()) if isinstance(n, ast.Attribute)}
        raw = self._raw_attrs.get((getattr(e, "lineno", None), getattr(e, "col_offset", None), getattr(e, "end_lineno", None), getattr(e, "end_col_offset", None)))
        if raw is not None and isinstance(raw.value, ast.Name) and raw.value.id in self.enum_names:
            return raw
        return None

    def identical(self, a, b, an, bn):
        """`a is b`. Identity of two EQUAL immutable values held in different objects is an implementation detail of the interpreter (interning, constant merging) unless one
        side is a named constant (N9 put its literal there: every use of the constant is the same object)."""
        if a is b:
            return True
        if isinstance(a, _IMMUTABLE) and isinstance(b, _IMMUTABLE) and not isinstance(a, (bool, enum.Enum)) and not isinstance(b, (bool, enum.Enum)) and type(a) is type(b) \
                and _plain(a) and _plain(b) and a == b:
            if getattr(an, "_from_constant", False) or getattr(bn, "_from_constant", False):
                return True
            raise CannotEval("identity of two equal immutable values")
        return False

    def bound_member(self, m, recv, owner):
        """attribute access that finds the function `m` in the class of `recv`: property evaluated, static / class / instance method bound."""
        decs = decorator_names(m)
        bad = [d for d in decs if d not in _OK_DECORATORS]
        if bad:
            raise CannotEval(f"{m.name}: decorator {bad[0]}")
        if any(d.split(".")[-1] in ("property", "cached_property") for d in decs):
            v = self.call_function(m, [], {}, bound=recv)
            if isinstance(recv, _Obj) and any(d.split(".")[-1] == "cached_property" for d in decs):
                recv.fields[m.name] = v  # computed once per instance: later reads get this very object
            return v
        if "staticmethod" in decs:
            return self.closure(m)
        if "classmethod" in decs:
            return self.closure(m, bound=owner)
        return self.closure(m, bound=recv)

    _OBJECT_SAFE = (list, tuple, len, enumerate, zip, reversed, iter, next, map, filter, any, all, functools.partial, functools.reduce, itertools.chain,
                    _STDLIB["itertools.chain.from_iterable"], itertools.islice, itertools.takewhile, itertools.dropwhile, itertools.filterfalse, itertools.starmap, itertools.zip_longest)
    _OBJECT_SAFE_KEYED = (sorted, max, min)
    _OBJECT_SAFE_METHODS = {list: {"append", "extend", "insert", "pop", "copy", "reverse", "clear"}, dict: {"get", "setdefault", "pop", "update", "items", "values", "keys", "copy"}}

    def object_safe(self, fn, args, kwargs):
        """the builtin / container method does not look INTO its arguments (no ==, hash, str, ordering), so it behaves on an instance of an evaluated class as it does in Python."""
        if any(fn is f for f in self._OBJECT_SAFE) or isinstance(fn, functools.partial):
            return True
        if any(fn is f for f in self._OBJECT_SAFE_KEYED):
            return "key" in kwargs
        owner = getattr(fn, "__self__", None)
        ok = self._OBJECT_SAFE_METHODS.get(type(owner))
        if ok is not None and getattr(fn, "__name__", "") in ok:
            return type(owner) is list or not args or _plain(args[0])
        return False

    def apply(self, fn, args, kwargs=None, what=""):
        kwargs = kwargs or {}
        interp = getattr(fn, "_interp", False) or (isinstance(fn, functools.partial) and getattr(fn.func, "_interp", False))
        if not interp and not all(_plain(a) or callable(a) for a in list(args) + list(kwargs.values())) and not self.object_safe(fn, args, kwargs):
            raise CannotEval(f"{what}: a builtin applied to a value that is not modelled")
        try:
            return fn(*args, **kwargs)
        except (CannotEval, _Raised, _Ctl):
            raise
        except RecursionError:
            raise CannotEval(f"{what}: recursion")
        except Exception as x:  # noqa: BLE001 - the Python error the analysed expression would raise on these concrete values
            if all(_plain(a) or callable(a) for a in list(args) + list(kwargs.values())):
                raise _Raised(f"{type(x).__name__}: {x}"[:160])
            raise CannotEval(f"{what}: {type(x).__name__} on a value that is not modelled")

    def truth(self, v):
        if isinstance(v, _Obj):
            if self.member(v.cls, "__bool__") is not None or self.member(v.cls, "__len__") is not None:
                raise CannotEval("truth value of an object with __bool__ / __len__")
            return True
        if isinstance(v, (_Opaque, _Mod, minieval.Record)):
            raise CannotEval("truth value of a value that is not modelled")
        return bool(v)

    def iterate(self, v, what=""):
        if isinstance(v, (_Obj, _Cls, _Mod, _Opaque, minieval.Record)):
            raise CannotEval(f"{what}: iteration over a value that is not modelled")
        return self.apply(iter, [v], what=what)

    def member(self, cls, name, seen=()):
        for st in cls.body:
            if isinstance(st, (ast.FunctionDef, ast.AsyncFunctionDef)) and st.name == name:
                return st
            if isinstance(st, ast.Assign) and any(isinstance(t, ast.Name) and t.id == name for t in st.targets):
                return st
        for b in cls.bases:
            bn = dotted(b)
            if bn in self.classes and bn not in seen:
                m = self.member(self.classes[bn], name, seen + (bn,))
                if m is not None:
                    return m
        return None

    def closed_class(self, cls, seen=()):
        """every base is a class of this module (or object): the member table is complete."""
        for b in cls.bases:
            bn = dotted(b)
            if bn == "object" or self.qualified(b.value if isinstance(b, ast.Subscript) else b) in _INERT_BASES:
                continue
            if bn not in self.classes or bn in seen or not self.closed_class(self.classes[bn], seen + (bn,)):
                return False
        return True

    # -- calls --------------------------------------------------------------------------------------------------------------------------------------
    def bind(self, func, args, kwargs, bound=_MISSING, outer=None):
        a = func.args
        names = [x.arg for x in a.posonlyargs + a.args]
        pos = ([] if bound is _MISSING else [bound]) + list(args)
        env = dict(outer or {})
        given = set()
        if len(pos) > len(names):
            if a.vararg is None:
                raise _Raised(f"TypeError: {func.name}() takes {len(names)} positional arguments but {len(pos)} were given")
            env[a.vararg.arg] = tuple(pos[len(names):])
            pos = pos[: len(names)]
        elif a.vararg is not None:
            env[a.vararg.arg] = ()
        for n, v in zip(names, pos):
            env[n] = v
            given.add(n)
        kw = dict(kwargs)
        first_default = len(names) - len(a.defaults)
        for i, n in enumerate(names):
            if n in given:
                if n in kw:
                    raise _Raised(f"TypeError: {func.name}() got multiple values for argument {n!r}")
                continue
            if n in kw:
                env[n] = kw.pop(n)
            elif i >= first_default:
                d = a.defaults[i - first_default]
                # (the default of a module-level function / a method is evaluated once, at definition time; a nested function is defined anew by every run of its `def`)
                env[n] = self.ev(d, dict(outer or {})) if outer else self.once(("default", id(d)), lambda d=d: self.ev(d, {}))
            else:
                raise _Raised(f"TypeError: {func.name}() missing required argument {n!r}")
        for x, d in zip(a.kwonlyargs, a.kw_defaults):
            if x.arg in kw:
                env[x.arg] = kw.pop(x.arg)
            elif d is not None:
                env[x.arg] = self.ev(d, dict(outer or {})) if outer else self.once(("default", id(d)), lambda d=d: self.ev(d, {}))
            else:
                raise _Raised(f"TypeError: {func.name}() missing keyword-only argument {x.arg!r}")
        if kw:
            if a.kwarg is None:
                raise _Raised(f"TypeError: {func.name}() got an unexpected keyword argument {sorted(kw)[0]!r}")
            env[a.kwarg.arg] = kw
        elif a.kwarg is not None:
            env[a.kwarg.arg] = {}
        return env, names

    def call_function(self, func, args, kwargs=None, bound=_MISSING, outer=None, undecorated=False):
        kwargs = kwargs or {}
        if isinstance(func, ast.AsyncFunctionDef):
            raise CannotEval(f"{func.name}: coroutine")
        bad = [d for d in decorator_names(func) if d not in _OK_DECORATORS]
        if bad and not undecorated:
            raise CannotEval(f"{func.name}: decorator {bad[0]}")
        memo = self.memo_key(func, args, kwargs, bound)
        if memo is not None and memo in self.session:
            return self.session[memo][0]
        self.depth += 1
        Interp.nesting += 1
        try:
            if self.depth > 14:
                raise CannotEval(f"{func.name}: call depth")
            env, _ = self.bind(func, args, kwargs, bound, outer)
            gen = any(isinstance(n, (ast.Yield, ast.YieldFrom)) for n in _own_nodes(func))
            if gen:
                self.yields.append([])
            try:
                try:
                    self.run(func.body, env)
                    rv = None
                except _Return as r:
                    rv = r.value
                except _Raised as r:
                    if gen:
                        raise CannotEval(f"the generator {func.name} is evaluated eagerly and raises ({r.text[:60]}): whether its consumer gets that far is not modelled")
                    raise
                if gen:
                    rv = iter(list(self.yields[-1]))  # a generator object: single use (evaluated eagerly - the analysed helpers are pure, laziness is not observable)
            finally:
                if gen:
                    self.yields.pop()
            if memo is not None:
                self.session[memo] = (rv, bound, list(args), dict(kwargs))  # (the arguments are kept alive: their identity is part of the key)
            return rv
        finally:
            self.depth -= 1
            Interp.nesting -= 1

    def closure(self, func, bound=_MISSING, outer=None, undecorated=False):
        def f(*a, **k):
            return self.call_function(func, list(a), k, bound, outer, undecorated)

        f._interp = True  # type: ignore[attr-defined]
        return f

    def function_value(self, func):
        """the value a module-level function name is bound to: the function itself, or - for decorators DEFINED IN THE MODULE (`@probed`) - what they return for it (they are
        evaluated like every other function of the module; functools.lru_cache & co are transparent for a pure function)."""
        own = [d for d in func.decorator_list if (dotted(d.func if isinstance(d, ast.Call) else d) or "") not in _OK_DECORATORS]
        if not own:
            return self.closure(func)
        v = self.closure(func, undecorated=True)
        for d in reversed(own):
            v = self.apply(self.ev(d, {}), [v], what=f"@{short(d, 40)}")
            if not callable(v):
                raise CannotEval(f"{func.name}: decorator {short(d, 40)} does not return a function")
        return v

    def call_stub(self, name, args, kwargs):
        try:
            f = self.funcs.get(name)
            if f is not None:
                # arguments are bound to the parameters of the REAL function (keyword or positional, defaults applied) and handed to the stub in declaration order
                env, names = self.bind(f, args, kwargs)
                return self.stubs[name](*[env[n] for n in names])
            return self.stubs[name](*args, **kwargs)
        except (CannotEval, _Raised, _Ctl, RecursionError):
            raise
        except Exception as x:  # noqa: BLE001 - a reference stub that is handed something it does not model
            raise CannotEval(f"reference stub {name}: {type(x).__name__}: {x}"[:160])

    def instantiate(self, cls, args, kwargs=None):
        rt = self.real_type(cls)
        if rt is not None:
            return self.apply(rt, args, kwargs or {}, what=f"{cls.name}(...)")
        if not self.closed_class(cls):
            raise CannotEval(f"class {cls.name} has a base outside the module")
        dec = self.dataclass_of(cls)
        if dec is not None:
            return self.instantiate_dataclass(cls, dec, args, kwargs)
        o = _Obj(cls, self)
        init = self.member(cls, "__init__")
        if isinstance(init, ast.FunctionDef):
            self.call_function(init, args, kwargs or {}, bound=o)
        elif args or kwargs:
            raise CannotEval(f"{cls.name}: constructor arguments without __init__")
        return o

    def getattr_(self, recv, attr):
        if isinstance(recv, _Mod):
            return recv.interp.exported(attr)
        if isinstance(recv, (_Obj, _Cls)) and recv.owner is not None and recv.owner is not self:
            return recv.owner.getattr_(recv, attr)  # (methods / properties of a class of a collaborating module are evaluated by that module's evaluator)
        if isinstance(recv, _Obj):
            if attr in recv.fields:
                v = recv.fields[attr]
                if isinstance(v, _Opaque):
                    raise CannotEval(f"attribute {attr} is not modelled")
                return v
            m = self.member(recv.cls, attr)
            if isinstance(m, ast.FunctionDef):
                return self.bound_member(m, recv, _Cls(recv.cls, recv.owner))
            if isinstance(m, ast.Assign):
                return self.once(("class-level", id(m)), lambda: self.ev(m.value, {}))
            raise CannotEval(f"attribute {attr} of a {recv.cls.name} object")
        if isinstance(recv, _Cls):
            m = self.member(recv.node, attr)
            if isinstance(m, ast.FunctionDef):
                decs = decorator_names(m)
                if "classmethod" in decs:
                    return self.closure(m, bound=recv)
                return self.closure(m)
            if isinstance(m, ast.Assign):
                return self.once(("class-level", id(m)), lambda: self.ev(m.value, {}))
            raise CannotEval(f"attribute {attr} of class {recv.node.name}")
        if isinstance(recv, minieval.Record):
            if attr in recv.fields:
                return recv.fields[attr]
            raise CannotEval(f"attribute {attr}")
        if isinstance(recv, type):
            # a named tuple / enumeration type of the module's data model
            if issubclass(recv, enum.Enum) and attr in recv.__members__:
                return recv.__members__[attr]
            if issubclass(recv, tuple) and attr == "_fields" and hasattr(recv, "_fields"):
                return recv._fields
            own = self.owner_of(recv)
            if own is not None and own is not self:
                return own.getattr_(recv, attr)
            m = self.member(self._nodes[recv], attr) if recv in self._nodes else None
            if isinstance(m, ast.FunctionDef):
                decs = decorator_names(m)
                return self.closure(m, bound=recv) if "classmethod" in decs else self.closure(m)
            raise CannotEval(f"attribute {attr} of the type {recv.__name__}")
        if isinstance(recv, enum.Enum) or (isinstance(recv, tuple) and hasattr(type(recv), "_fields")):
            t = type(recv)
            if isinstance(recv, enum.Enum) and attr in ("value", "name"):
                return getattr(recv, attr)
            if isinstance(recv, tuple) and (attr in t._fields or attr in ("_fields", "_replace", "_asdict", "index", "count")):
                return getattr(recv, attr)
            own = self.owner_of(t)
            if own is not None and own is not self and not (isinstance(recv, tuple) and attr in t._fields):
                return own.getattr_(recv, attr)
            m = self.member(self._nodes[t], attr) if t in self._nodes else None
            if isinstance(m, ast.FunctionDef):
                return self.bound_member(m, recv, t)
            if isinstance(recv, str) and attr in _METHODS[str]:
                return getattr(recv, attr)
            raise CannotEval(f"attribute {attr} of a {t.__name__}")
        t = type(recv)
        if t in _METHODS and attr in _METHODS[t]:
            return getattr(recv, attr)
        if t in _RE_ATTRS and attr in _RE_ATTRS[t]:
            return getattr(recv, attr)
        raise CannotEval(f"attribute {attr} of a {t.__name__}")

    def call_args(self, e, env, lenient=False):
        """evaluated arguments; lenient (for the reference stubs only): an argument the evaluator does not model (`level=logging.DEBUG`) is handed over as OPAQUE."""
        def one(x):
            try:
                return self.ev(x, env)
            except CannotEval:
                if not lenient or self.touches_tracked(x, env) or any(isinstance(n, (ast.NamedExpr, ast.Yield, ast.YieldFrom)) for n in ast.walk(x)):
                    raise
                return OPAQUE

        args = []
        for a in e.args:
            if isinstance(a, ast.Starred):
                args.extend(self.iterate(self.ev(a.value, env), "*args"))
            else:
                args.append(one(a))
        kwargs = {}
        for k in e.keywords:
            if k.arg is None:
                v = self.ev(k.value, env)
                if not isinstance(v, dict):
                    raise CannotEval("** of a non-dict")
                kwargs.update(v)
            else:
                kwargs[k.arg] = one(k.value)
        return args, kwargs

    def call(self, e, env):
        f = e.func
        what = short(e, 60)
        if isinstance(f, ast.Name) and f.id == "isinstance" and "isinstance" not in env and len(e.args) == 2:
            v = self.ev(e.args[0], env)
            ts = e.args[1].elts if isinstance(e.args[1], ast.Tuple) else [e.args[1]]
            res = False
            for t in ts:
                tn = dotted(t)
                if tn in _TYPE_NAMES:
                    res = res or (not isinstance(v, (_Obj, _Cls)) and isinstance(v, _TYPE_NAMES[tn]))
                elif tn in self.classes and self.real_type(self.classes[tn]) is not None:
                    res = res or isinstance(v, self.real_type(self.classes[tn]))
                elif tn in self.consts and tn not in env and isinstance(self.ev(t, env), type):
                    res = res or isinstance(v, self.ev(t, env))
                elif tn in self.classes:
                    res = res or (isinstance(v, _Obj) and v.cls is self.classes[tn])
                    if isinstance(v, _Obj) and v.cls is not self.classes[tn] and v.cls.bases:
                        raise CannotEval(what)
                else:
                    raise CannotEval(what)
            return res
        if isinstance(f, ast.Name) and f.id in ("getattr", "hasattr") and f.id not in env and 2 <= len(e.args) <= 3 and not e.keywords:
            obj, name = self.ev(e.args[0], env), self.ev(e.args[1], env)
            if not isinstance(name, str) or not isinstance(obj, _Obj):
                raise CannotEval(what)
            if name in obj.fields or self.member(obj.cls, name) is not None:
                return True if f.id == "hasattr" else self.getattr_(obj, name)
            if not self.closed_class(obj.cls) or self.member(obj.cls, "__getattr__") is not None:
                raise CannotEval(what)
            if f.id == "hasattr":
                return False
            if len(e.args) == 3:
                return self.ev(e.args[2], env)
            raise _Raised(f"AttributeError: {obj.cls.name} object has no attribute {name!r}", "AttributeError")
        q = self.qualified(f, env)
        if q == "collections.namedtuple" or q in _NAMEDTUPLE_BASES:
            return self.functional_type(e, q, env)
        if q == "enum.auto" and not e.args and not e.keywords:
            return enum.auto()
        if q == "operator.attrgetter" and e.args and not e.keywords:
            names = [self.ev(a, env) for a in e.args]
            if not all(isinstance(n, str) for n in names):
                raise CannotEval(what)

            def getter(o):
                vals = [functools.reduce(self.getattr_, n.split("."), o) for n in names]
                return vals[0] if len(vals) == 1 else tuple(vals)

            getter._interp = True  # type: ignore[attr-defined]
            return getter
        if q in _STDLIB and callable(_STDLIB[q]):
            args, kwargs = self.call_args(e, env)
            return self.apply(_STDLIB[q], args, kwargs, what)
        if isinstance(f, ast.Attribute):
            try:
                recv = self.ev(f.value, env)
            except CannotEval:
                # the receiver is not a value of the evaluated program (an imported module, a logger): the callee is known by its name only
                if f.attr in self.stubs:
                    args, kwargs = self.call_args(e, env, lenient=True)
                    return self.call_stub(f.attr, args, kwargs)
                raise CannotEval(f"call {what}")
            if isinstance(recv, _Mod) and f.attr in self.stubs:
                # (a collaborator the rule replaces by a reference stub stays a stub: the fixed answers of a scenario are not overridden by the other module's code)
                args, kwargs = self.call_args(e, env, lenient=True)
                return self.call_stub(f.attr, args, kwargs)
            callee = self.getattr_(recv, f.attr)
            args, kwargs = self.call_args(e, env)
            if isinstance(callee, _Cls):
                return (callee.owner or self).instantiate(callee.node, args, kwargs)
            return self.apply(callee, args, kwargs, what)
        if isinstance(f, ast.Name) and f.id not in env and f.id in self.stubs:
            args, kwargs = self.call_args(e, env, lenient=True)
            return self.call_stub(f.id, args, kwargs)
        callee = self.ev(f, env)
        args, kwargs = self.call_args(e, env)
        if isinstance(callee, _Cls):
            return (callee.owner or self).instantiate(callee.node, args, kwargs)
        if not callable(callee):
            raise CannotEval(f"call {what}")
        return self.apply(callee, args, kwargs, what)

    # -- expressions --------------------------------------------------------------------------------------------------------------------------------
    def ev(self, e, env):
        self.tick()
        if self.enum_names and getattr(e, "_from_constant", False):
            raw = self.raw_constant(e)
            if raw is not None:
                return self.ev(raw, env)
        if isinstance(e, ast.Constant):
            return e.value
        if isinstance(e, ast.Name):
            if self.session is not None and e.id not in env and ("module-level", self.mod.relpath, e.id) in self.session and e.id not in self.stubs:
                return self.session[("module-level", self.mod.relpath, e.id)]
            if e.id in env:
                v = env[e.id]
                if isinstance(v, _Opaque):
                    raise CannotEval(f"the value of {e.id} is not modelled")
                return v
            if e.id in self.stubs:
                def stub(*a, **k):
                    return self.call_stub(e.id, list(a), k)

                stub._interp = True  # type: ignore[attr-defined]
                return stub
            if e.id in self.funcs:
                return self.function_value(self.funcs[e.id])
            if e.id in self.classes:
                rt = self.real_type(self.classes[e.id])
                return rt if rt is not None else _Cls(self.classes[e.id], self)
            if e.id in self.consts:
                if e.id in self._const_busy:
                    raise CannotEval(f"recursive constant {e.id}")
                self._const_busy.add(e.id)
                try:
                    return self.once(("module-level", self.mod.relpath, e.id), lambda: self.ev(self.consts[e.id], {}))
                finally:
                    self._const_busy.discard(e.id)
            if e.id in _BUILTINS:
                return _BUILTINS[e.id]
            if self.qualified(e, env) in _STDLIB:
                return _STDLIB[self.qualified(e, env)]
            v = self.imported(e, env)
            if v is not _MISSING:
                return v
            raise CannotEval(f"unbound name {e.id}")
        if isinstance(e, ast.Attribute):
            if self.qualified(e, env) in _STDLIB:
                return _STDLIB[self.qualified(e, env)]
            if self.modules and self.qualified(e, env) in self.modules:
                return _Mod(self.modules[self.qualified(e, env)])  # `esrally.utils.versions` after `import esrally.utils.versions`
            return self.getattr_(self.ev(e.value, env), e.attr)
        if isinstance(e, ast.Call):
            return self.call(e, env)
        if isinstance(e, ast.Subscript):
            v = self.ev(e.value, env)
            if isinstance(e.slice, ast.Slice):
                k = slice(*[self.ev(x, env) if x is not None else None for x in (e.slice.lower, e.slice.upper, e.slice.step)])
            else:
                k = self.ev(e.slice, env)
            if not (isinstance(v, (list, tuple, dict, str, re.Match)) and (isinstance(k, slice) or _plain(k))):
                raise CannotEval(f"subscript of {short(e.value, 40)}")
            try:
                return v[k]
            except (KeyError, IndexError, TypeError) as x:
                raise _Raised(f"{type(x).__name__}: {x}"[:160], type(x).__name__)
        if isinstance(e, ast.Compare):
            left, lnode = self.ev(e.left, env), e.left
            for op, c in zip(e.ops, e.comparators):
                right = self.ev(c, env)
                if isinstance(op, (ast.Is, ast.IsNot)):
                    if self.identical(left, right, lnode, c) != isinstance(op, ast.Is):
                        return False
                    left, lnode = right, c
                    continue
                if not (_plain(left) and _plain(right)):
                    raise CannotEval(f"comparison {short(e, 60)} on a value that is not modelled")
                if not self.apply(_CMP[type(op)], [left, right], what=short(e, 60)):
                    return False
                left, lnode = right, c
            return True
        if isinstance(e, ast.BoolOp):
            r = None
            for v in e.values:
                r = self.ev(v, env)
                if isinstance(e.op, ast.And) != self.truth(r):
                    return r
            return r
        if isinstance(e, ast.UnaryOp):
            v = self.ev(e.operand, env)
            if isinstance(e.op, ast.Not):
                return not self.truth(v)
            return self.apply({ast.USub: operator.neg, ast.UAdd: operator.pos, ast.Invert: operator.invert}[type(e.op)], [v], what=short(e, 60))
        if isinstance(e, ast.BinOp) and type(e.op) in _BIN:
            a, b = self.ev(e.left, env), self.ev(e.right, env)
            if not (_plain(a) and _plain(b)):
                raise CannotEval(f"{short(e, 60)}: operand is not modelled")
            return self.apply(_BIN[type(e.op)], [a, b], what=short(e, 60))
        if isinstance(e, ast.IfExp):
            return self.ev(e.body, env) if self.truth(self.ev(e.test, env)) else self.ev(e.orelse, env)
        if isinstance(e, (ast.List, ast.Tuple, ast.Set)):
            vals = []
            for x in e.elts:
                if isinstance(x, ast.Starred):
                    vals.extend(self.iterate(self.ev(x.value, env), "*"))
                else:
                    vals.append(self.ev(x, env))
            return vals if isinstance(e, ast.List) else (tuple(vals) if isinstance(e, ast.Tuple) else self.apply(set, [vals], what="set display"))
        if isinstance(e, ast.Dict):
            out = {}
            for k, v in zip(e.keys, e.values):
                if k is None:
                    d = self.ev(v, env)
                    if not isinstance(d, dict):
                        raise CannotEval("** of a non-dict")
                    out.update(d)
                else:
                    self.apply(out.__setitem__, [self.ev(k, env), self.ev(v, env)], what="dict display")
            return out
        if isinstance(e, ast.JoinedStr):
            out = []
            for v in e.values:
                if isinstance(v, ast.Constant):
                    out.append(str(v.value))
                else:
                    val = self.ev(v.value, env)
                    spec = self.ev(v.format_spec, env) if v.format_spec is not None else ""
                    if not _plain(val):
                        raise CannotEval(f"{short(e, 60)}: formatted value is not modelled")
                    val = repr(val) if v.conversion == 114 else (str(val) if v.conversion == 115 else (ascii(val) if v.conversion == 97 else val))
                    out.append(self.apply(format, [val, spec], what=short(e, 60)))
            return "".join(out)
        if isinstance(e, ast.NamedExpr):
            v = self.ev(e.value, env)
            env[e.target.id] = v
            return v
        if isinstance(e, ast.Lambda):
            return self.closure(ast.copy_location(ast.FunctionDef(name="<lambda>", args=e.args, body=[ast.copy_location(ast.Return(value=e.body), e)], decorator_list=[], returns=None), e),
                                outer=env)
        if isinstance(e, (ast.ListComp, ast.SetComp, ast.GeneratorExp, ast.DictComp)):
            out = []

            def rec(i, env_):
                if i == len(e.generators):
                    out.append((self.ev(e.key, env_), self.ev(e.value, env_)) if isinstance(e, ast.DictComp) else self.ev(e.elt, env_))
                    return
                g = e.generators[i]
                if g.is_async:
                    raise CannotEval("async comprehension")
                for v in self.iterate(self.ev(g.iter, env_), short(g.iter, 40)):
                    self.tick()
                    env2 = dict(env_)
                    self.assign(g.target, v, env2)
                    if all(self.truth(self.ev(c, env2)) for c in g.ifs):
                        rec(i + 1, env2)

            try:
                rec(0, dict(env))
            except _Raised as r:
                if isinstance(e, ast.GeneratorExp):
                    raise CannotEval(f"a generator expression that is evaluated eagerly raises ({r.text[:60]}): whether its consumer gets that far is not modelled")
                raise
            if isinstance(e, ast.ListComp):
                return out
            if isinstance(e, ast.GeneratorExp):
                return iter(out)  # evaluated eagerly: the analysed helpers are pure, so laziness is not observable
            return self.apply(set if isinstance(e, ast.SetComp) else dict, [out], what="comprehension")
        if isinstance(e, ast.Yield):
            if not self.yields:
                raise CannotEval("yield outside a generator")
            self.yields[-1].append(self.ev(e.value, env) if e.value is not None else None)
            return None
        if isinstance(e, ast.YieldFrom):
            if not self.yields:
                raise CannotEval("yield outside a generator")
            self.yields[-1].extend(self.iterate(self.ev(e.value, env), "yield from"))
            return None
        raise CannotEval(f"{type(e).__name__}: {short(e, 60)}")

    # -- statements ---------------------------------------------------------------------------------------------------------------------------------
    def assign(self, t, v, env):
        if isinstance(t, ast.Name):
            if self.session is not None and t.id in env.get(_GLOBALS, ()) and not isinstance(v, _Opaque):
                self.session[("module-level", self.mod.relpath, t.id)] = v  # `global x; x = v`: process state
            else:
                env[t.id] = v
        elif isinstance(t, (ast.Tuple, ast.List)):
            if isinstance(v, _Opaque):
                for x in t.elts:
                    self.assign(x.value if isinstance(x, ast.Starred) else x, OPAQUE, env)
                return
            vals = list(self.iterate(v, "unpacking"))
            star = [i for i, x in enumerate(t.elts) if isinstance(x, ast.Starred)]
            if star:
                i, after = star[0], len(t.elts) - star[0] - 1
                if len(vals) < len(t.elts) - 1:
                    raise _Raised("ValueError: not enough values to unpack")
                vals = vals[:i] + [vals[i: len(vals) - after]] + vals[len(vals) - after:]
            if len(vals) != len(t.elts):
                raise _Raised(f"ValueError: cannot unpack {len(vals)} value(s) into {len(t.elts)} target(s)")
            for x, y in zip(t.elts, vals):
                self.assign(x.value if isinstance(x, ast.Starred) else x, y, env)
        elif isinstance(t, ast.Attribute):
            base = self.ev(t.value, env)
            if not isinstance(base, _Obj):
                raise CannotEval(f"assignment to {short(t, 40)}")
            if getattr(base, "frozen", False):
                raise _Raised(f"FrozenInstanceError: cannot assign to field {t.attr!r}", "FrozenInstanceError")
            base.fields[t.attr] = v
        elif isinstance(t, ast.Subscript):
            base = self.ev(t.value, env)
            if isinstance(v, _Opaque) or not isinstance(base, (list, dict)) or isinstance(t.slice, ast.Slice):
                raise CannotEval(f"assignment to {short(t, 40)}")
            self.apply(operator.setitem, [base, self.ev(t.slice, env), v], what=short(t, 40))
        else:
            raise CannotEval(f"assignment target {type(t).__name__}")

    def handler_for(self, try_, r):
        """the handler of this try statement that catches the raised exception (None: it propagates); CannotEval when the class hierarchy needed to decide is not visible."""
        import builtins

        def builtin_exc(nm):
            c = getattr(builtins, nm, None)
            return c if isinstance(c, type) and issubclass(c, BaseException) else None

        def bases_of(nm, seen=()):
            """names of the (transitive) bases of a module-level exception class, None if the chain leaves the module for a non-builtin class."""
            c = self.classes.get(nm) or self.hierarchy.get(nm)
            if c is None:
                return None
            out = []
            for b in c.bases:
                bn = last_attr(b)
                out.append(bn)
                if builtin_exc(bn) is None:
                    if bn in seen:
                        return None
                    more = bases_of(bn, seen + (nm,))
                    if more is None:
                        return None
                    out += more
            return out

        for h in try_.handlers:
            if h.type is None:
                return h
            for t in (h.type.elts if isinstance(h.type, ast.Tuple) else [h.type]):
                tn = last_attr(t)
                if tn in ("Exception", "BaseException") or tn == r.name:
                    return h
                rb, tb = builtin_exc(r.name), builtin_exc(tn or "")
                if rb is not None and tb is not None:
                    if issubclass(rb, tb):
                        return h
                elif rb is not None:
                    continue  # a class of the program cannot be a base of a builtin exception
                else:
                    chain = bases_of(r.name)
                    if chain is None:
                        raise CannotEval(f"whether `except {u(t)}` catches {r.name} is not visible in the module")
                    if tn in chain or (tb is not None and any(builtin_exc(b) is not None and issubclass(builtin_exc(b), tb) for b in chain)):
                        return h
        return None

    @staticmethod
    def root_name(t):
        while isinstance(t, (ast.Attribute, ast.Subscript)):
            t = t.value
        return t.id if isinstance(t, ast.Name) else None

    def touches_tracked(self, e, env):
        """the expression mentions a local bound to a mutable value of the evaluated program (an un-modelled call could change it)."""
        def tracked(n):
            v = env.get(n.id)
            if isinstance(v, _Obj):
                # `self.repo_dir` only reads a field: harmless when the field holds an immutable value
                p = source.parent(n)
                if isinstance(p, ast.Attribute) and p.value is n and isinstance(p.ctx, ast.Load) and p.attr in v.fields \
                        and (v.fields[p.attr] is None or isinstance(v.fields[p.attr], (str, int, float, bool, _Opaque))):
                    gp = source.parent(p)
                    return isinstance(gp, ast.Call) and gp.func is p
                return True
            return isinstance(v, (list, dict, set))

        return any(isinstance(n, ast.Name) and tracked(n) for n in ast.walk(e))

    def run(self, stmts, env):
        for s in stmts:
            self.tick()
            if isinstance(s, ast.Expr):
                if isinstance(s.value, ast.Constant) or is_logging_stmt(s):
                    continue
                try:
                    self.ev(s.value, env)
                except CannotEval:
                    # a call the evaluator does not model (console output, a metrics counter): irrelevant unless it is handed a mutable value of the evaluated program
                    if isinstance(s.value, (ast.Yield, ast.YieldFrom, ast.NamedExpr)) or self.touches_tracked(s.value, env):
                        raise
            elif isinstance(s, (ast.Assign, ast.AnnAssign)):
                if isinstance(s, ast.AnnAssign) and s.value is None:
                    continue
                targets = s.targets if isinstance(s, ast.Assign) else [s.target]
                if all(isinstance(t, (ast.Attribute, ast.Subscript)) and self.root_name(t) not in env for t in targets) \
                        and not (self.session is not None and any(self.root_name(t) in self.consts for t in targets)):
                    continue  # module-level state (a statistics counter): not part of the evaluated value flow (it is when ONE process is modelled: `_CACHE[k] = v`)
                try:
                    v = self.ev(s.value, env)
                except CannotEval:
                    if self.touches_tracked(s.value, env) or any(isinstance(n, (ast.NamedExpr, ast.Yield, ast.YieldFrom)) for n in ast.walk(s.value)):
                        raise
                    v = OPAQUE
                for t in targets:
                    self.assign(t, v, env)
            elif isinstance(s, ast.AugAssign):
                if self.root_name(s.target) not in env and not (self.session is not None and isinstance(s.target, ast.Name) and s.target.id in env.get(_GLOBALS, ())):
                    if isinstance(s.target, ast.Name):
                        raise CannotEval(f"augmented assignment to unbound {s.target.id}")
                    continue
                load = ast.parse(u(s.target), mode="eval").body
                cur = self.ev(load, env)
                val = self.ev(s.value, env)
                if type(s.op) not in _BIN or not (_plain(cur) and _plain(val)):
                    raise CannotEval(short(s, 60))
                if isinstance(cur, list) and isinstance(s.op, ast.Add):
                    self.apply(cur.extend, [val], what=short(s, 60))  # in place, as Python does
                else:
                    self.assign(s.target, self.apply(_BIN[type(s.op)], [cur, val], what=short(s, 60)), env)
            elif isinstance(s, ast.If):
                self.run(s.body if self.truth(self.ev(s.test, env)) else s.orelse, env)
            elif isinstance(s, ast.For):
                broke = False
                for v in self.iterate(self.ev(s.iter, env), short(s.iter, 40)):
                    self.tick()
                    self.assign(s.target, v, env)
                    try:
                        self.run(s.body, env)
                    except _Break:
                        broke = True
                        break
                    except _Continue:
                        continue
                if not broke:
                    self.run(s.orelse, env)
            elif isinstance(s, ast.While):
                broke = False
                while self.truth(self.ev(s.test, env)):
                    self.tick()
                    try:
                        self.run(s.body, env)
                    except _Break:
                        broke = True
                        break
                    except _Continue:
                        continue
                if not broke:
                    self.run(s.orelse, env)
            elif isinstance(s, ast.Return):
                raise _Return(self.ev(s.value, env) if s.value is not None else None)
            elif isinstance(s, ast.Raise):
                if s.exc is None:
                    if not self.handling:
                        raise CannotEval("bare raise outside a handler")
                    raise self.handling[-1]
                exc = s.exc
                while isinstance(exc, ast.Call) and isinstance(exc.func, ast.Attribute) and exc.func.attr == "with_traceback":
                    exc = exc.func.value
                if isinstance(exc, ast.Name) and isinstance(env.get(exc.id), _Caught):
                    raise env[exc.id].raised  # `except X as e: ... raise e`
                raise _Raised(short(exc, 120), last_attr(exc.func if isinstance(exc, ast.Call) else exc))
            elif isinstance(s, ast.Break):
                raise _Break()
            elif isinstance(s, ast.Continue):
                raise _Continue()
            elif isinstance(s, ast.Global):
                if self.session is not None:
                    env[_GLOBALS] = tuple(env.get(_GLOBALS, ())) + tuple(s.names)
                continue  # (without a session a name declared global is written like a local: module state is not part of the evaluated value flow)
            elif isinstance(s, (ast.Pass, ast.Import, ast.ImportFrom, ast.Nonlocal)):
                continue
            elif isinstance(s, ast.Assert):
                if not self.truth(self.ev(s.test, env)):
                    raise _Raised(f"AssertionError: {short(s.test, 80)}")
            elif isinstance(s, ast.FunctionDef):
                env[s.name] = self.closure(s, outer=env)
            elif isinstance(s, ast.Try):
                try:
                    try:
                        self.run(s.body, env)
                    except _Raised as r:
                        h = self.handler_for(s, r)
                        if h is None:
                            raise
                        if h.name:
                            env[h.name] = _Caught(r)
                        self.handling.append(r)
                        try:
                            self.run(h.body, env)
                        finally:
                            self.handling.pop()
                    else:
                        self.run(s.orelse, env)
                finally:
                    self.run(s.finalbody, env)
            else:
                raise CannotEval(f"statement {type(s).__name__} at line {getattr(s, 'lineno', '?')}")


class Ref:
    """Reference semantics of the two regex primitives, the only functions of versions.py that are stubbed: strict MAJOR.MINOR.PATCH[-SUFFIX], lenient
    MAJOR[.MINOR[.PATCH[-SUFFIX]]] (a part only if the part before it is present). What the repository's own pattern accepts is decided separately (branch-name table below)."""
    STRICT = re.compile(r"^(\d+)\.(\d+)\.(\d+)(?:-(.+))?$")
    LENIENT = re.compile(r"^(\d+)(?:\.(\d+)(?:\.(\d+)(?:-(.+))?)?)?$")

    def __init__(self):
        self.tokens = {}  # opaque candidate name -> component tuple (for combinations no real branch name can express)
        self.calls = []

    def is_version_identifier(self, text, strict=True):
        self.calls.append(("is_version_identifier", text, strict))
        if isinstance(text, str) and text in self.tokens:
            return True
        return isinstance(text, str) and (self.STRICT if strict else self.LENIENT).match(text) is not None

    def components(self, version, strict=True):
        self.calls.append(("components", version, strict))
        if isinstance(version, str) and version in self.tokens:
            return self.tokens[version]
        if not isinstance(version, str):
            raise _Raised(f"TypeError: components({version!r})", "TypeError")
        m = (self.STRICT if strict else self.LENIENT).match(version)
        if m is None:
            raise _Raised(f"InvalidSyntax: version string {version!r} does not conform to the {'strict' if strict else 'lenient'} pattern", "InvalidSyntax")
        g = m.groups()
        return int(g[0]), (int(g[1]) if g[1] is not None else None), (int(g[2]) if g[2] is not None else None), g[3]


def attempt(thunk):
    """('value', v) | ('raise', text) | ('unknown', reason) — the three outcomes of evaluating extracted code on one representative input."""
    try:
        v = thunk()
        if isinstance(v, (map, filter, zip, enumerate, reversed)) or type(v).__name__.endswith("iterator") or (hasattr(v, "__next__") and hasattr(v, "__iter__")):
            v = list(v)  # (a lazy result is consumed here: an evaluated closure inside it may still raise)
    except _Raised as r:
        return "raise", r.text
    except CannotEval as e:
        return "unknown", str(e)
    except _Ctl as e:
        return "unknown", f"stray {type(e).__name__}"
    except RecursionError:
        return "unknown", "recursion"
    if not _plain(v):
        return "unknown", "the result is not a plain value"
    return "value", v


def table(chk, rule, group, cases, node, evaluate, key=None, why=""):
    """One obligation per case: `evaluate(*inputs)` on the extracted code must yield the documented value. A case that cannot be evaluated makes the GROUP `not recognised`
    (chk.unknown, once) — never a falsified obligation; an evaluated case is falsified only when the code yields something else (or raises)."""
    for label, inputs, want in cases:
        kind, got = attempt(lambda: evaluate(*inputs))
        if kind == "unknown":
            chk.unknown(rule, f"{group}: the code cannot be evaluated for {label} ({got})", node)
            return False
        ok = kind == "value" and got == want and type(got) is type(want)
        chk.ob(rule, f"{group}: {label}", ok, node, f"code: {got!r}" + ("" if kind == "value" else " (raised)") + f"; documented: {want!r}" + ("" if ok or not why else f" — {why}"),
               key=(key(label) if callable(key) else key) or f"{source.module_of(node).relpath}:{source.qualname(node)}:{group}:{label}")
    return True


def run(chk):
    repo = chk.repo
    ver, rep, git = repo.module(_V), repo.module(_P), repo.module(_G)
    chk.use(ver, rep, git)
    chk.explanation = (
        "Decides the matcher on VALUES: the extracted functions of versions.py (VersionVariants, best_match, latest_bounded_minor, _latest_major, the variants helper of the tag search if there is one) are evaluated by a "
        "small local evaluator (no repository code is run; only the two regex primitives are replaced by reference stubs, helpers defined in the module are followed) on "
        "representative (branch list, version) inputs and compared with the documented outcome: variants most-specific first with formats M.m.p-s / M.m.p / M.m / M; exact "
        "match before the nearest-prior-minor fallback, which applies at the minor step only; eligibility of the bounded-minor search as a decision table over {major lower/"
        "same/higher} x {minor None/0/less/equal/greater} x {patch set?} x {suffix set?}; nearest = max of the eligible; master only under strictly-greater major (every "
        "versioned branch counted, numerically) with a master branch present / serverless / empty version; otherwise None. No version component is tested by truthiness. "
        "Repository side, on values too: RallyRepository(...).update(version) is evaluated (helper methods followed) against reference stubs of the git functions (bound through "
        "their real signatures), of the matcher (a fixed answer per listing) and of variants_of (anything else update() reads from versions.py is evaluated from versions.py), in 19 scenarios (remote hit / miss, no remote, already on the branch, related "
        "branch names, tag fallback, nothing qualifies, failing checkout, fetch requested): fallback order remote < local < v-tag < raise, the checked-out ref is the matcher's "
        "result, the head revision held afterwards is the one after the last ref-changing call, checkout errors propagate, the remote listing follows a fetch. The git command "
        "lines are evaluated with recording subprocess stubs: the directory is interpolated escaped, fetch prunes and fetches tags, clone is not narrowed. Where a shape cannot "
        "be evaluated the structural form of the same obligations (CFG / guard facts in update() and its helper methods, literal words of the command) decides or reports "
        "`not recognised`. Remote ref names lose only their remote prefix (on values). History independence (O15.5): sequences of lookups (variants helper, matcher, tag search with a "
        "new repository object per step, update() of a new repository object per step) are evaluated in ONE modelled process - functions under functools.lru_cache / cache return the "
        "object they cached, generator results are single-use iterators, module-level / class-level values and default arguments are created once and written through - and every "
        "step must yield the documented answer (the one it yields on its own)."
    )
    chk.not_decided = "git behaviour, contents of the repositories."

    ref = Ref()
    iv = Interp(ver, stubs={"components": ref.components, "is_version_identifier": ref.is_version_identifier})

    PROCESS = [None]  # the process state shared by the evaluators of versions.py and repo.py while a SEQUENCE of lookups is evaluated (O15.5); None: every evaluation on its own

    def process():
        """the process state an evaluation runs in: the one of the sequence being evaluated, else a NEW one (every table case is a process of its own: a memoising helper, a
        module-level dict of results behave as they do in a process that makes this one lookup)."""
        iv.session = PROCESS[0] if PROCESS[0] is not None else {}
        return iv.session

    def fresh():
        iv.budget = 60000
        iv.depth = 0
        iv.yields = []
        del ref.calls[:]
        process()

    @contextlib.contextmanager
    def one_process():
        PROCESS[0] = {}
        try:
            yield
        finally:
            PROCESS[0] = None

    # ---- O15.1 precedence order -------------------------------------------------------------------------------------------------------
    chk.rule("O15.1", "variants are built most-specific first (suffix, patch, minor, major) with formats M.m.p-s / M.m.p / M.m / M; in the matcher the exact test precedes the "
             "nearest-prior-minor fallback which applies at the minor step only; iteration is in list order", 7,
             "a less specific branch wins over an exact one (e.g. branch 7 chosen although 7.3 exists)")
    VV = ver.cls("VersionVariants")
    av = ver.methods(VV).get("all_versions")
    init = ver.methods(VV).get("__init__")
    if av is None or init is None:
        raise AnchorMissing("VersionVariants.all_versions / __init__")

    def variant_values(version):
        """the variants VersionVariants(version).all_versions enumerates, in its order (first component of every entry: the entry is (variant, kind))."""
        fresh()
        entries = list(iv.iterate(iv.getattr_(iv.instantiate(VV, [version]), "all_versions"), "all_versions"))
        out = []
        for x in entries:
            if not (isinstance(x, (tuple, list)) and len(x) == 2):
                raise CannotEval("an entry of all_versions is not a (variant, kind) pair")
            out.append(x[0])
        return out

    def prefix_chain(vs):
        """most specific first: every later variant is a proper prefix of the one before it."""
        return all(isinstance(v, str) for v in vs) and all(a != b and a.startswith(b) for a, b in zip(vs, vs[1:]))

    got = {}
    for v_ in ("5.0.0-SNAPSHOT", "7.10.2", "10.9.12-rc1"):
        got[v_] = attempt(lambda: variant_values(v_))
    undecided = [f"{k}: {r[1]}" for k, r in got.items() if r[0] == "unknown"]
    if undecided:
        chk.unknown("O15.1", f"VersionVariants cannot be evaluated ({undecided[0]})", av)
    else:
        vals = {k: (r[1] if r[0] == "value" else None) for k, r in got.items()}
        shown = {k: (r[1] if r[0] == "value" else f"raises {r[1]}") for k, r in got.items()}
        a, b, c = vals["5.0.0-SNAPSHOT"], vals["7.10.2"], vals["10.9.12-rc1"]
        chk.ob("O15.1", "variants order: suffix, patch, minor, major", a is not None and len(a) == 4 and prefix_chain(a), av, f"5.0.0-SNAPSHOT -> {shown['5.0.0-SNAPSHOT']}")
        ok = a is not None and b is not None and len(b) == len(a) - 1 and all(isinstance(x, str) and "None" not in x for x in b) and bool(a) and isinstance(a[0], str) and a[0].endswith("SNAPSHOT")
        chk.ob("O15.1", "suffix variant only when the version has a suffix", ok, av, f"7.10.2 -> {shown['7.10.2']}; 5.0.0-SNAPSHOT -> {shown['5.0.0-SNAPSHOT']}")
        chk.ob("O15.1", "variants list not re-ordered", b is not None and c is not None and prefix_chain(b) and prefix_chain(c) and len(c) == 4, av,
               f"7.10.2 -> {shown['7.10.2']}; 10.9.12-rc1 -> {shown['10.9.12-rc1']}")
        # formats: each documented spelling occurs among the variants (whatever attribute / helper produces it)
        for name, wants in (("with_major", ("5", "7", "10")), ("with_minor", ("5.0", "7.10", "10.9")), ("with_patch", ("5.0.0", "7.10.2", "10.9.12")),
                            ("with_suffix", ("5.0.0-SNAPSHOT", None, "10.9.12-rc1"))):
            ok = all(w is None or (vs is not None and w in vs) for w, vs in zip(wants, (a, b, c)))
            chk.ob("O15.1", f"{name} format", ok, init, f"documented {[w for w in wants if w]}; variants: {list(shown.values())}")

    bm = ver.func("best_match")
    if len(params_of(bm)) != 2:
        raise AnchorMissing("best_match(available_alternatives, distribution_version)")

    def match(alts, version):
        fresh()
        return iv.call_function(bm, [list(alts), version])

    ALL = ["8", "8.5", "8.5.1", "8.5.1-SNAPSHOT", "master"]
    table(chk, "O15.1", "matcher iterates the variants in list order (most specific available variant wins)", [
        (f"{ALL} for 8.5.1-SNAPSHOT", (ALL, "8.5.1-SNAPSHOT"), "8.5.1-SNAPSHOT"),
        (f"{ALL[:3] + ALL[4:]} for 8.5.1-SNAPSHOT", (ALL[:3] + ALL[4:], "8.5.1-SNAPSHOT"), "8.5.1"),
        (f"{ALL} for 8.5.1", (ALL, "8.5.1"), "8.5.1"),
        ("['master', '8', '8.5'] for 8.5.1", (["master", "8", "8.5"], "8.5.1"), "8.5"),
        ("['7', '8', 'master'] for 8.5.1", (["7", "8", "master"], "8.5.1"), "8"),
    ], bm, match)
    table(chk, "O15.1", "exact test first in each step (returns the variant itself)", [
        ("['8.3', '8.5'] for 8.5.1", (["8.3", "8.5"], "8.5.1"), "8.5"),
        ("['8.5', '8.3'] for 8.5.1", (["8.5", "8.3"], "8.5.1"), "8.5"),
        ("['8.3', '8.5.1'] for 8.5.1", (["8.3", "8.5.1"], "8.5.1"), "8.5.1"),
        ("['8.3', '8.5.1-SNAPSHOT'] for 8.5.1-SNAPSHOT", (["8.3", "8.5.1-SNAPSHOT"], "8.5.1-SNAPSHOT"), "8.5.1-SNAPSHOT"),
    ], bm, match)
    table(chk, "O15.1", "nearest-prior-minor fallback after the exact test, at the minor step only", [
        ("['8.3', '8'] for 8.5.1", (["8.3", "8"], "8.5.1"), "8.3"),
        ("['8', '8.3'] for 8.5.1", (["8", "8.3"], "8.5.1"), "8.3"),
        ("['8.3'] for 8.5.1", (["8.3"], "8.5.1"), "8.3"),
        ("['8.7', '8'] for 8.5.1 (a later minor is never used)", (["8.7", "8"], "8.5.1"), "8"),
        ("['8.3', '8.4', '8.1', '8'] for 8.5.1", (["8.3", "8.4", "8.1", "8"], "8.5.1"), "8.4"),
        ("['7', '7.10', 'master'] for 7.1.0", (["7", "7.10", "master"], "7.1.0"), "7"),
    ], bm, match)

    # ---- O15.2 no truthiness on optional ints ----------------------------------------------------------------------------------------------------
    chk.rule("O15.2", "values flowing from the version-component tuple or from the bounded-minor search (ints or None, 0 meaningful) are tested only with `is (not) None` / comparisons, never by truthiness", 2,
             "a '.0' minor branch as nearest prior minor (best_match(['7.0','6','master'], '7.3.1') must be '7.0')")
    n_sites = 0
    for f in ver.functions():
        names = optional_int_names(f)
        for a, ctxn in boolean_context_atoms(f):
            bad = None
            if isinstance(a, ast.Name) and a.id in names:
                bad = a.id
            elif isinstance(a, ast.NamedExpr) and a.target.id in names:
                bad = f"({u(a)})"
            elif isinstance(a, ast.Attribute) and a.attr in OPT_ATTRS and not isinstance(source.parent(a), ast.Call):
                bad = u(a)
            if bad is not None:
                n_sites += 1
                chk.ob("O15.2", f"{f.name}: truthiness test on optional int {bad}", False, a, f"`{short(ctxn.test if hasattr(ctxn, 'test') else ctxn, 90)}` is false for 0: a '.0' component is treated as missing",
                       key=f"{_V}:{source.qualname(f)}:truthiness:{bad}")
        if names:
            # positive instances: count the None-tests / comparisons that are written correctly
            for n in walk_body(f):
                if isinstance(n, ast.Compare) and any((isinstance(x, ast.Name) and x.id in names) or (isinstance(x, ast.NamedExpr) and x.target.id in names) for x in [n.left] + n.comparators):
                    chk.ob("O15.2", f"{f.name}: `{short(n, 50)}` tests an optional int explicitly", True, n, "")
    chk.stats["optional_int_truthiness_sites"] = n_sites
    # the same necessary condition on values (independent of how the tests are spelled): a '.0' component is a component
    table(chk, "O15.2", "a '.0' minor is a minor", [
        ("['7.0', '6', 'master'] for 7.3.1", (["7.0", "6", "master"], "7.3.1"), "7.0"),
        ("['8.0', '7', 'master'] for 8.0.3", (["8.0", "7", "master"], "8.0.3"), "8.0"),
    ], bm, match, why="a truthiness test treats minor 0 (or a nearest minor 0) as missing")

    # ---- O15.3 eligibility ------------------------------------------------------------------------------------------------------------------------
    chk.rule("O15.3", "bounded-minor search: eligible iff same major, minor present (0 included) and minor <= target minor, no patch, no suffix; result is the nearest (max) eligible or None; "
             "master only when the major is STRICTLY greater than the latest major branch, or the version is serverless / empty; otherwise None", 40,
             "a branch of another major or of a later minor is selected; master selected although a matching major exists")
    lb = ver.func("latest_bounded_minor")
    if len(params_of(lb)) != 2:
        raise AnchorMissing("latest_bounded_minor(alternatives, target_version)")

    def target(version):
        """the `target_version` argument: a VersionVariants object, as best_match passes it."""
        return iv.instantiate(VV, [version])

    def bounded(alts, version="8.5.0"):
        fresh()
        return iv.call_function(lb, [list(alts), target(version)])

    # branch names are parsed non-strictly: M and M.m branches take part (a strict parse raises InvalidSyntax for them / ignores them)
    kind, got_ = attempt(lambda: bounded(["8", "8.3", "8.4.1", "8.4.1-rc1", "master"]))
    if kind == "unknown":
        chk.unknown("O15.3", f"latest_bounded_minor cannot be evaluated ({got_})", lb)
    else:
        strict_calls = [c for c in ref.calls if c[1] in ("8", "8.3") and c[2] is not False]
        chk.ob("O15.3", "branch names parsed non-strictly (M, M.m allowed)", kind == "value" and got_ == 3 and not strict_calls, lb,
               f"['8', '8.3', '8.4.1', '8.4.1-rc1', 'master'] for 8.5 -> {got_!r}" + (f"; strict parse of {strict_calls[0][1]!r}" if strict_calls else ""))
    # the eligibility of ONE candidate is decided on values: target 8.5, candidate major in (7, 8, 9), minor in (None, 0, 3, 5, 7), patch in (None, 1), suffix in (None, 'x');
    # the search is evaluated for the single candidate: it is eligible iff its minor comes back (operator choice, orientation, arm order, loop or comprehension are free)
    MINOR = {"none": None, "zero": 0, "less": 3, "equal": 5, "greater": 7}
    MAJOR = {"lower": 7, "same": 8, "higher": 9}
    for (mjn, mjv), (m, mnv), patch, suffix in itertools.product(MAJOR.items(), MINOR.items(), [None, 1], [None, "x"]):
        if mnv is None and patch is not None:
            continue  # a patch without a minor cannot be written
        if patch is not None or suffix is None:
            cand = str(mjv) + (f".{mnv}" if mnv is not None else "") + (f".{patch}" if patch is not None else "") + (f"-{suffix}" if suffix is not None else "")
            token = False
        else:
            # a suffix without a patch is not a name the lenient pattern accepts: the combination is fed through the components() primitive as an opaque candidate
            cand, token = f"<{mjv}.{mnv}-{suffix}>", True
            ref.tokens[cand] = (mjv, mnv, patch, suffix)
        kind, got_ = attempt(lambda: bounded([cand]))
        ref.tokens.pop(cand, None)
        if kind == "unknown" or (token and not any(c[0] == "components" and c[1] == cand for c in ref.calls)):
            chk.unknown("O15.3", f"eligibility is not a decision over (major, minor, patch, suffix) of the candidate and the target: candidate {cand!r}: "
                        f"{got_ if kind == 'unknown' else 'its components are not read through components()'}", lb)
            break
        eligible = kind == "value" and got_ is not None
        want = mjn == "same" and m in ("zero", "less", "equal") and patch is None and suffix is None
        accept = kind == "value" and (eligible == want or (m == "equal" and mjn == "same" and patch is None and suffix is None))  # `<` is accepted: the equal minor is taken by the exact step
        if accept and eligible:
            accept = got_ == mnv and type(got_) is int
        chk.ob("O15.3", f"eligible? major {mjn}, minor {m}, patch {'set' if patch else 'none'}, suffix {'set' if suffix else 'none'}", accept, lb,
               f"code: {('eligible' if eligible else 'not eligible') if kind == 'value' else 'raises ' + str(got_)} (candidate {cand}, target 8.5 -> {got_!r}); documented: {'eligible' if want else 'not eligible'}",
               key=f"{_V}:latest_bounded_minor:row:{mjn}|{m}|{patch is not None}|{suffix is not None}")
    # a patch 0 is a patch (a branch 8.3.0 is a patch branch, not the minor branch 8.3)
    table(chk, "O15.3", "eligible? a patch / suffix branch with patch 0 is not a minor branch", [
        ("['8.3.0'] for 8.5", (["8.3.0"],), None),
        ("['8.3.0', '8.2'] for 8.5", (["8.3.0", "8.2"],), 2),
        ("['8.4.0-rc1', '8.1'] for 8.5", (["8.4.0-rc1", "8.1"],), 1),
    ], lb, bounded)
    # result: the nearest (greatest) of the eligible minors, whatever the order of the branch list; None when nothing is eligible
    table(chk, "O15.3", "result is the nearest eligible minor", [
        ("['8.1', '8.4', '8.3'] for 8.5", (["8.1", "8.4", "8.3"],), 4),
        ("['8.4', '8.1', '8.3'] for 8.5", (["8.4", "8.1", "8.3"],), 4),
        ("['8.3', '8.1', '8.4'] for 8.5", (["8.3", "8.1", "8.4"],), 4),
        ("['8.7', '8.2', '9.1', '7.4', '8.4.1', 'master', '8.0'] for 8.5", (["8.7", "8.2", "9.1", "7.4", "8.4.1", "master", "8.0"],), 2),
        ("['8.0'] for 8.5", (["8.0"],), 0),
        ("['7', '7.10', '7.11.2', '7.2', '5', '6', 'master'] for 7.12.3", (["7", "7.10", "7.11.2", "7.2", "5", "6", "master"], "7.12.3"), 10),
    ], lb, bounded)
    table(chk, "O15.3", "None when nothing is eligible", [
        ("[] for 8.5", ([],), None),
        ("['8.7', '9.0', '7.1', '8', 'master'] for 8.5", (["8.7", "9.0", "7.1", "8", "master"],), None),
    ], lb, bounded)
    # matcher: fallback result formatting and master rule
    table(chk, "O15.3", "fallback result is '<target major>.<nearest minor>'", [
        ("['8.3', '9.3', '7.4'] for 8.5.1", (["8.3", "9.3", "7.4"], "8.5.1"), "8.3"),
        ("['8.9', '8.10', '8.2'] for 8.12.0", (["8.9", "8.10", "8.2"], "8.12.0"), "8.10"),
        ("['7', '7.1', '7.11.1', '7.11.0', '7.2', '5', '6', 'master'] for 7.12.0", (["7", "7.1", "7.11.1", "7.11.0", "7.2", "5", "6", "master"], "7.12.0"), "7.2"),
    ], bm, match)
    table(chk, "O15.3", "master when the major is strictly greater than the latest major branch", [
        ("['7', '8.1', 'master'] for 9.0.0", (["7", "8.1", "master"], "9.0.0"), "master"),
        ("['1.7', '2', '5.0.0-alpha1', '5', 'master'] for 6.0.0-alpha1", (["1.7", "2", "5.0.0-alpha1", "5", "master"], "6.0.0-alpha1"), "master"),
    ], bm, match)
    table(chk, "O15.3", "master only under strictly-greater major / serverless / empty version", [
        ("['8.9', '7', 'master'] for 8.5.1 (equal major)", (["8.9", "7", "master"], "8.5.1"), None),
        ("['7', '9', 'master'] for 8.5.1 (lower major)", (["7", "9", "master"], "8.5.1"), None),
        ("['1.7', '2', '5', 'master'] for 0.4.0 (older than every branch)", (["1.7", "2", "5", "master"], "0.4.0"), None),
        ("['7', '8', 'master'] for serverless", (["7", "8", "master"], "serverless"), "master"),
        ("['7', '8', 'master'] for the empty version", (["7", "8", "master"], ""), "master"),
        ("['7', '8', 'master'] for no version", (["7", "8", "master"], None), "master"),
    ], bm, match)
    # what the matcher returns for an identified version is one of the GIVEN branches: `master` needs to be among them (a repository without a master branch must fall
    # through to the v-tag / the local branches / the error, not to a checkout of a branch that does not exist)
    table(chk, "O15.3", "for an identified version `master` is returned only if it is among the given branches", [
        ("['7', '8.1'] for 9.0.0", (["7", "8.1"], "9.0.0"), None),
    ], bm, match, key=f"{_V}:best_match:master-membership", why="for a repository without master the v-tag / local fallback is skipped and the checkout of [master] fails")
    table(chk, "O15.3", "for an identified version `master` is returned only if it is among the given branches", [
        ("['main', '7'] for 8.1.0", (["main", "7"], "8.1.0"), None),
    ], bm, match, key=f"{_V}:best_match:master-membership:2", why="for a repository without master the v-tag / local fallback is skipped and the checkout of [master] fails")
    # the lenient branch-name pattern accepts exactly MAJOR[.MINOR[.PATCH[-SUFFIX]]] (decided by matching the extracted literal against representative names):
    # an unrelated branch such as 123-fix-typo must not count as a version (components() would read absent parts)
    NAMES = [("7", True), ("7.3", True), ("7.3.1", True), ("7.3.1-SNAPSHOT", True), ("0.0", True), ("master", False), ("123-fix-typo", False), ("2024-05-cleanup", False), ("7-dev", False),
             ("8.1-backport", False), ("7.", False), ("v7.3.1", False), ("7.3.1.2", False), ("", False)]

    def lenient_pattern_structurally():
        """FALLBACK: the literal of the lenient pattern is located in the text (module-level re.compile bound to the name _versions_pattern returns for strict=False) and matched."""
        pats = {}
        for n in ver.tree.body:
            if isinstance(n, ast.Assign) and isinstance(n.value, ast.Call) and dotted(n.value.func) == "re.compile" and n.value.args and isinstance(n.value.args[0], ast.Constant) \
                    and isinstance(n.targets[0], ast.Name):
                pats[n.targets[0].id] = (n, n.value.args[0].value)
        vp_ = ver.index().get("_versions_pattern")
        lenient = [] if vp_ is None else [r_.value.orelse.id if isinstance(r_.value, ast.IfExp) and isinstance(r_.value.orelse, ast.Name) else None for r_ in walk_body(vp_) if isinstance(r_, ast.Return)]
        lenient = [x for x in lenient if x in pats] or [k for k in pats if "OPTIONAL" in k]
        if not lenient:
            chk.unknown("O15.3", "the lenient version pattern is neither evaluable nor located as a module-level re.compile(...) literal", ver.tree)
            return
        ln, ltxt = pats[lenient[0]]
        try:
            rx = re.compile(ltxt)
        except re.error as e:
            chk.unknown("O15.3", f"lenient version pattern does not compile: {e}", ln)
            return
        for name, want in NAMES:
            got = rx.match(name) is not None
            chk.ob("O15.3", f"branch name {name!r} {'is' if want else 'is not'} a version branch", got == want, ln, f"pattern {ltxt!r} {'matches' if got else 'does not match'}" + ("" if got == want else
                   " — the name is parsed as a version with absent parts: int(None) raises TypeError in components(), the repository update crashes on an unrelated branch" if got else " — a versioned branch is ignored"),
                   key=f"{_V}:{lenient[0]}:{name}")

    # decided on VALUES: the module's own is_version_identifier(name, strict=False) is evaluated WITHOUT stubs (its pattern is run by Python's regex engine, applied the way the module
    # applies it - match / fullmatch, anchored or not, one constant or two); only when that cannot be evaluated the literal is located in the text
    real = Interp(ver, session={})
    ivi, comp = ver.func("is_version_identifier"), ver.func("components")

    def identified(name):
        real.budget, real.depth = 60000, 0
        return real.call_function(ivi, [name, False])

    outcomes = [(name, want, attempt(lambda: identified(name))) for name, want in NAMES]
    if any(k_ == "unknown" for _n, _w, (k_, _g) in outcomes) or len(params_of(ivi)) != 2:
        lenient_pattern_structurally()
    else:
        cname = next((st.targets[0].id for st in ver.tree.body if isinstance(st, ast.Assign) and isinstance(st.targets[0], ast.Name) and "OPTIONAL" in st.targets[0].id), "lenient-pattern")
        for name, want, (k_, got) in outcomes:
            ok = k_ == "value" and got is want
            chk.ob("O15.3", f"branch name {name!r} {'is' if want else 'is not'} a version branch", ok, ivi, f"is_version_identifier({name!r}, strict=False) -> {got!r}" + ("" if k_ == "value" else " (raised)") + ("" if ok else
                   " — the name is parsed as a version with absent parts: int(None) raises TypeError in components(), the repository update crashes on an unrelated branch" if got is True else " — a versioned branch is ignored"),
                   key=f"{_V}:{cname}:{name}")
    # the other primitive the matcher's helpers rely on (replaced by its reference semantics everywhere above): components() itself yields the documented parts
    if len(params_of(comp)) == 2:
        def parts(version, strict):
            real.budget, real.depth = 60000, 0
            try:
                return real.call_function(comp, [version, strict])
            except _Raised as r_:
                return f"raises {r_.name}"

        table(chk, "O15.3", "components() yields (major, minor, patch, suffix), absent parts None, '.0' parts 0", [
            ("'7' (lenient)", ("7", False), (7, None, None, None)),
            ("'7.3' (lenient)", ("7.3", False), (7, 3, None, None)),
            ("'7.0' (lenient)", ("7.0", False), (7, 0, None, None)),
            ("'7.3.1' (lenient)", ("7.3.1", False), (7, 3, 1, None)),
            ("'10.0.0-SNAPSHOT' (lenient)", ("10.0.0-SNAPSHOT", False), (10, 0, 0, "SNAPSHOT")),
            ("'8.5.1' (strict)", ("8.5.1", True), (8, 5, 1, None)),
            ("'8.0.0-rc1' (strict)", ("8.0.0-rc1", True), (8, 0, 0, "rc1")),
            ("'8.5' (strict: not a full version)", ("8.5", True), "raises InvalidSyntax"),
            ("'master' (lenient: not a version)", ("master", False), "raises InvalidSyntax"),
        ], comp, parts, why="the matcher reads wrong components from every branch name / version")
    else:
        chk.unknown("O15.3", "components(version, strict) is not located with these two parameters", comp)
    # master for a version identifier only after the variants loop is exhausted
    table(chk, "O15.3", "master considered only after every variant failed", [
        ("['9', '8', 'master'] for 9.1.0", (["9", "8", "master"], "9.1.0"), "9"),
        ("['master', '9.0'] for 9.1.0", (["master", "9.0"], "9.1.0"), "9.0"),
        ("['master', '9.1.0'] for 9.1.0", (["master", "9.1.0"], "9.1.0"), "9.1.0"),
    ], bm, match)
    table(chk, "O15.3", "otherwise None", [
        ("['7', '8', 'master'] for 'latest' (neither a version nor serverless)", (["7", "8", "master"], "latest"), None),
        ("['7', '8', 'master'] for '8.5' (not a full version)", (["7", "8", "master"], "8.5"), None),
        ("[] for 8.5.1", ([], "8.5.1"), None),
        ("['9', '10.2'] for 8.5.1", (["9", "10.2"], "8.5.1"), None),
    ], bm, match)
    lm = ver.func("_latest_major")
    if len(params_of(lm)) != 1:
        raise AnchorMissing("_latest_major(alternatives)")

    def latest(alts):
        fresh()
        return iv.call_function(lm, [list(alts)])

    table(chk, "O15.3", "_latest_major is the maximum major over the versioned branches (initial -1)", [
        ("[]", ([],), -1),
        ("['master', 'main']", (["master", "main"],), -1),
        ("['7', '8.1', 'master', '6']", (["7", "8.1", "master", "6"],), 8),
        ("['8.1', '7', '6']", (["8.1", "7", "6"],), 8),
        ("['9', '10.2', '7'] (majors compare as numbers)", (["9", "10.2", "7"],), 10),
    ], lm, latest, why="`master` is chosen (or refused) against the wrong latest major")
    # EVERY versioned branch counts (also 8.0.0-alpha1)
    table(chk, "O15.3", "_latest_major counts every versioned branch (no further filter)", [
        ("['7.3', '8.0.0-alpha1']", (["7.3", "8.0.0-alpha1"],), 8),
        ("['7', '8.1.2', 'master']", (["7", "8.1.2", "master"],), 8),
    ], lm, latest, key=lambda label: f"{_V}:_latest_major:every-versioned-branch:{label}", why="a versioned branch is left out: `master` is chosen for a version OLDER than that branch")
    table(chk, "O15.3", "master only under strictly-greater major / serverless / empty version", [
        ("['7', '9.0.0-alpha1', 'master'] for 8.5.1 (a pre-release branch of a later major exists)", (["7", "9.0.0-alpha1", "master"], "8.5.1"), None),
        ("['10.1', '7', 'master'] for 9.5.1 (majors compare as numbers)", (["10.1", "7", "master"], "9.5.1"), None),
    ], bm, match)

    # ---- O15.4 repository fallback order -------------------------------------------------------------------------------------------------------------
    chk.rule("O15.4", "repository update: remote best match < local best match < v-tag over the same variants order < raise; the checked-out ref is the matcher's result; "
             "checkout errors are never swallowed; remote ref names lose only their remote prefix", 8,
             "Rally silently stays on a branch of another version, or checks out a ref the matcher did not select")
    RR = rep.cls("RallyRepository")
    up = rep.methods(RR).get("update")
    if up is None:
        raise AnchorMissing("RallyRepository.update")
    gu = cfg_of(up)
    if len(params_of(up)) < 2:
        raise AnchorMissing("RallyRepository.update(self, distribution_version)")
    dv = params_of(up)[1]
    def update_structurally():
        """FALLBACK (only when update() cannot be evaluated on the scenarios below): the same necessary conditions located in the text of update() and of the helper
        methods it calls."""
        bms = [n for n in walk_body(up) if isinstance(n, ast.Call) and last_attr(n.func) == "best_match"]
        # helper methods update() calls on the same object (an extracted `self._checkout_and_rebase(branch, ...)`)
        me_ = params_of(up)[0]
        helper_calls = []
        for n in walk_body(up):
            if isinstance(n, ast.Call) and isinstance(n.func, ast.Attribute) and isinstance(n.func.value, ast.Name) and n.func.value.id == me_:
                h = rep.methods(RR).get(n.func.attr)
                if h is not None and h is not up:
                    helper_calls.append((n, h))
        helper_bms = [c for _n, h in helper_calls for c in walk_body(h) if isinstance(c, ast.Call) and last_attr(c.func) == "best_match"]

        def listing_of(c):
            """the git.branches(...) call whose result this matcher call searches directly (through a local that holds nothing else but an empty-list initialisation); None otherwise."""
            a0 = source.arg_of(c, 0, params_of(bm)[0])
            if isinstance(a0, ast.Name):
                vals = [n.value for n in walk_body(up) if isinstance(n, ast.Assign) and any(isinstance(t, ast.Name) and t.id == a0.id for t in n.targets)]
                calls = [v for v in vals if isinstance(v, ast.Call) and last_attr(v.func) == "branches"]
                rest = [v for v in vals if v not in calls and not (isinstance(v, (ast.List, ast.Tuple)) and not v.elts)]
                a0 = calls[0] if len(calls) == 1 and not rest else source.inline_node(a0, local_defs(up))
            return a0 if isinstance(a0, ast.Call) and last_attr(a0.func) == "branches" else None

        # (a matcher call on a COMBINATION of listings - the master decision against local + remote names - is no step of the fallback order: decided on values only)
        combined_bms = [c for c in bms if listing_of(c) is None and len([n for n in ast.walk(source.arg_of(c, 0, params_of(bm)[0]) or c) if isinstance(n, ast.Name)]) >= 2]
        bms = [c for c in bms if c not in combined_bms]
        if not bms or (len(bms) != 2 and helper_bms) or len(bms) > 2:
            # the searches are (partly) made in helper methods: the fallback order across methods is not decided here
            chk.unknown("O15.4", f"{len(bms)} matcher call(s) (best_match) located in RallyRepository.update itself, {len(helper_bms)} in helper methods it calls: the order remote < local "
                        "across methods is not recognised", up)
            bms = []
        else:
            chk.ob("O15.4", "two matcher calls (remote, local)", len(bms) == 2, up, f"{len(bms)} best_match call(s)")

        gb = git.func("branches")
        gb_params = params_of(gb)
        if len(gb_params) < 2:
            raise AnchorMissing("git.branches(src_dir, remote=...)")
        i_def = 1 - (len(gb_params) - len(gb.args.defaults))
        flag_default = gb.args.defaults[i_def] if 0 <= i_def < len(gb.args.defaults) else None

        def branch_source(c):
            """the remote flag of the git.branches(...) call whose result this matcher call searches (its default when omitted); None if the call searches something else."""
            a0 = listing_of(c)
            if a0 is None:
                return None
            flag = source.arg_of(a0, 1, gb_params[1])
            return flag if flag is not None else flag_default

        # the two calls are told apart by WHAT they search (the remote flag of git.branches: False = local branches, anything else = the remote's), not by their order in the text
        loc = next((c for c in bms if source.is_const(branch_source(c), False)), None)
        rem = next((c for c in bms if branch_source(c) is not None and not source.is_const(branch_source(c), False)), None)
        if len(bms) == 2:
            if rem is None or loc is None or rem is loc:
                chk.unknown("O15.4", "the two matcher calls are not told apart by the remote flag of the git.branches(...) call they search", up)
            else:
                # the remote search runs only for repositories that have a remote: it is guarded by the very flag it passes on (or, for a literal True, by an attribute of the repository)
                flag = branch_source(rem)
                facts_ = pat.fact_nodes(rem)
                ok = any(is_self_attr(f_) for f_ in facts_) if isinstance(flag, ast.Constant) else any(u(f_) == u(flag) for f_ in facts_)
                chk.ob("O15.4", "remote branches first (only for remote repos), then local branches", ok and not gu.path_exists(gu.node_of(loc), gu.node_of(rem)), rem,
                       f"remote flag `{u(flag)}`; guard facts {[u(f_) for f_ in facts_]}")
            for c in bms:
                a1 = source.arg_of(c, 1, params_of(bm)[1])
                if a1 is None:
                    chk.unknown("O15.4", "the version argument of a matcher call is not located", c)
                    continue
                a1 = source.inline_node(a1, local_defs(up))
                ok = isinstance(a1, ast.Name) and a1.id == dv
                chk.ob("O15.4", "matcher called with the distribution version", ok, c, u(a1))

        def known_absent(node, name):
            """a guard fact of node says that the local `name` holds nothing: `not name` / `name is None`, also when the local is bound in the test itself (`if not (name := f())`)."""
            def is_it(x):
                return (isinstance(x, ast.Name) and x.id == name) or (isinstance(x, ast.NamedExpr) and isinstance(x.target, ast.Name) and x.target.id == name)

            for f_ in pat.fact_nodes(node):
                if isinstance(f_, ast.UnaryOp) and isinstance(f_.op, ast.Not) and is_it(f_.operand):
                    return True
                if isinstance(f_, ast.Compare) and len(f_.ops) == 1 and isinstance(f_.ops[0], ast.Is) and is_it(f_.left) and isinstance(f_.comparators[0], ast.Constant) and f_.comparators[0].value is None:
                    return True
            return False

        # names by role: the local holding the local-branch match, the local holding the tag
        tagc = [n for n in walk_body(up) if isinstance(n, ast.Call) and last_attr(n.func) == "_find_matching_tag"]
        lbranch = bound_name(loc) if loc is not None else None
        if not tagc or lbranch is None:
            if len(bms) == 2:
                chk.unknown("O15.4", "the tag fallback (_find_matching_tag call) / the local holding the local-branch match is not located in update()", up)
            # with ONE matcher call the missing search is reported above
        else:
            ok = gu.dominated_by_nodes(gu.node_of(tagc[0]), [gu.node_of(loc)]) and known_absent(tagc[0], lbranch)
            chk.ob("O15.4", "tags only after no local branch matched", ok, tagc[0], "")
        raises = [n for n in walk_body(up) if isinstance(n, ast.Raise) and not isinstance(source.enclosing(n, (ast.ExceptHandler,)), ast.ExceptHandler)]
        tagv = bound_name(tagc[0]) if tagc else None
        if not raises or tagv is None:
            if tagc:
                chk.unknown("O15.4", "the error for `nothing qualifies` (a raise outside the handlers) / the local holding the tag is not located in update()", up)
        else:
            ok = any(known_absent(r_, tagv) for r_ in raises)
            chk.ob("O15.4", "explicit error when nothing qualifies", ok, raises[0], "")

        fcalls = [c for c in walk_body(up) if isinstance(c, ast.Call) and dotted(c.func) in ("git.fetch", "git.pull")]
        rb = [c for c in bms if c is rem]
        if not rb:
            if len(bms) == 2:
                chk.unknown("O15.4", "the listing of the remote branches is not located in update()", up)
        elif fcalls:
            ok = all(gu.dominated_by_nodes(gu.node_of(b_), [gu.node_of(f_) for f_ in fcalls]) for b_ in rb)
            chk.ob("O15.4", "remote branches are listed after a fetch", ok, rb[0], "")
        else:
            # the fetch happens in the constructor / another method: accept when some method of the class calls git.fetch
            anyf = [c for f_ in rep.methods(RR).values() for c in walk_body(f_) if isinstance(c, ast.Call) and dotted(c.func) in ("git.fetch", "git.pull")]
            chk.ob("O15.4", "remote branches are listed after a fetch", bool(anyf), rb[0], "" if anyf else "no method of the class fetches")
        # checkouts are analysed where they are written: in update() itself or in a helper method update() calls on the same object (`self._checkout_and_rebase(branch, ...)`): the
        # helper's parameter is mapped back to the argument at the call site, and an error must neither be absorbed inside the helper nor around the call
        cos = [n for n in walk_body(up) if isinstance(n, ast.Call) and dotted(n.func) == "git.checkout"]
        sites = [(c, up, gu, None, {}) for c in cos]
        for n, h in helper_calls:
            for c in walk_body(h):
                if isinstance(c, ast.Call) and dotted(c.func) == "git.checkout":
                    sites.append((c, h, cfg_of(h), n, source.bind_args(n, h)))
        if not sites:
            chk.unknown("O15.4", "no git.checkout call located in update() or in a helper method it calls", up)
        # a checkout of the selected local branch may be skipped only when that very branch is checked out already: the only test on the current branch is (in)equality with the selection
        # (a local that holds the current branch is seen through: `current = git.current_branch(d)` ... `if current != branch`)
        cur_defs = {k: v for k, v in local_defs(up).items() if isinstance(v, ast.Call) and dotted(v.func) == "git.current_branch"}

        def inlined_current(f_):
            return source.inline_node(f_, cur_defs) if cur_defs else f_

        cbt = []
        for c, fn_, g_, via, _b in sites:
            for f_ in pat.fact_nodes(via if via is not None else c):
                if any(isinstance(x, ast.Call) and dotted(x.func) == "git.current_branch" for x in ast.walk(inlined_current(f_))) and not any(f_ is y for y in cbt):
                    cbt.append(f_)
        for f_ in cbt:
            ok = pat.is_(inlined_current(f_), "git.current_branch(E_d) != V_b")
            chk.ob("O15.4", "checkout skipped only if the current branch EQUALS the selected one", ok, f_, u(f_) + ("" if ok else " — a branch whose name merely relates to the selection (suffix, prefix, ...) is kept: `8.8` stays checked out when `8` was selected"),
                   key="esrally/utils/repo.py:RallyRepository.update:skip-only-if-equal")
        if cbt:
            chk.ob("O15.4", "current-branch test located", True, up, f"{len(cbt)} test(s)")
        elif sites:
            chk.unknown("O15.4", "no test on git.current_branch(...) guards a checkout of update() (the skip-if-already-checked-out test is written differently)", up)
        # the revision pinned for later loads (workers re-load with it) is the head AFTER the ref was switched: no checkout / rebase can follow a revision read

        def rev_writes(fn_):
            return [n for n in walk_body(fn_) if isinstance(n, ast.Assign) and any(isinstance(t, ast.Attribute) and t.attr == "revision" and isinstance(t.value, ast.Name) and t.value.id == params_of(fn_)[0]
                                                                                   for t in n.targets) and isinstance(n.value, ast.Call) and last_attr(n.value.func) == "head_revision"]

        def git_movers(fn_):
            return [n for n in walk_body(fn_) if isinstance(n, ast.Call) and dotted(n.func) in ("git.checkout", "git.rebase", "git.pull", "git.fetch")]

        # in update() a call of a helper that itself switches the ref counts as a ref-changing call
        movers = git_movers(up) + [n for n, h in helper_calls if git_movers(h)]
        revw = rev_writes(up)
        for w_ in revw:
            later = [m_ for m_ in movers if gu.path_exists(gu.node_of(w_), gu.node_of(m_)) and gu.node_of(w_) is not gu.node_of(m_)]
            chk.ob("O15.4", "the pinned revision is read after the last ref-changing git call", not later, w_,
                   "" if not later else f"`{short(later[0], 50)}` (line {later[0].lineno}) can still run after the revision was recorded: later loads check out the commit Rally was on BEFORE selecting the branch",
                   key=f"esrally/utils/repo.py:RallyRepository.update:revision-after-checkout:{len([x for x in revw if x.lineno < w_.lineno])}")
        n_rev = len(revw)
        seen_h = []
        for n, h in helper_calls:
            gh = cfg_of(h)
            for i_, w_ in enumerate(rev_writes(h)):
                later = [m_ for m_ in git_movers(h) if gh.path_exists(gh.node_of(w_), gh.node_of(m_)) and gh.node_of(w_) is not gh.node_of(m_)]
                if isinstance(source.parent(n), ast.Expr):
                    # (when update() tests the helper's result, which of its paths continues is not correlated here: only a plain call statement is followed)
                    later += [m_ for m_ in movers if gu.node_of(m_) is not gu.node_of(n) and gu.path_exists(gu.node_of(n), gu.node_of(m_))]
                n_rev += 1
                if any(h is x for x in seen_h) and not later:
                    continue  # the same helper called from several places: one instance per helper unless a call site is wrong
                chk.ob("O15.4", "the pinned revision is read after the last ref-changing git call", not later, w_,
                       f"in {h.name}(), called as `{short(n, 50)}`" + ("" if not later else f": `{short(later[0], 50)}` (line {later[0].lineno}) can still run after the revision was recorded: later loads check out the "
                                                                      "commit Rally was on BEFORE selecting the branch"),
                       key=f"esrally/utils/repo.py:RallyRepository.{h.name}:revision-after-checkout:{i_}:{len([x for x, _h in helper_calls if x.lineno < n.lineno])}")
            seen_h.append(h)
        # every checkout is followed by a revision read on every normal path to the end of the function it is written in (or, for a helper without one, of update())
        if n_rev == 0:
            if sites:
                chk.unknown("O15.4", "no assignment `self.revision = git.head_revision(...)` located in update() or its helpers (the revision is recorded differently)", up)
        else:
            for c, fn_, g_, via, _b in sites:
                ws = rev_writes(fn_)
                if ws:
                    ok = g_.must_pass(g_.node_of(c), [g_.node_of(w_) for w_ in ws], normal_only=True)
                elif via is not None and revw:
                    ok = gu.must_pass(gu.node_of(via), [gu.node_of(w_) for w_ in revw], normal_only=True) or gu.node_of(via) in [gu.node_of(w_) for w_ in revw]
                else:
                    ok = False
                chk.ob("O15.4", "revision recorded after a checkout", ok, c, f"{short(c, 60)} in {fn_.name}()" + ("" if ok else ": a normal path to the end of the function records no revision"))

        def origins(name, fn_=None, seen=()):
            """values that can reach the local `name` in update() (or in the given helper), seen through plain aliases (`a = b`)."""
            out = []
            for n in walk_body(fn_ or up):
                if isinstance(n, ast.Assign) and any(isinstance(t, ast.Name) and t.id == name for t in n.targets):
                    if isinstance(n.value, ast.Name) and n.value.id not in seen and n.value.id != name:
                        out += origins(n.value.id, fn_, seen + (name,)) or [n.value]
                    else:
                        out.append(n.value)
                elif isinstance(n, ast.NamedExpr) and n.target.id == name:
                    out.append(n.value)
            return out

        def absorbed(g, node):
            """an exception raised by `node` can reach the normal exit of the function through one of its handlers."""
            cn = g.node_of(node)
            exc_succ = [g.nodes[y] for (y, lab) in g.succ[cn.id] if lab.startswith("exc")]
            return any(g.exit.id in g.reachable([s_]) for s_ in exc_succ if s_.kind == "except")

        for c, fn_, g_, via, binds in sites:
            ref_ = source.arg_of(c, 1, "branch")
            while isinstance(ref_, ast.NamedExpr):
                ref_ = ref_.value
            located = True
            scope = None
            if via is not None:
                # inside a helper: the ref is one of its parameters (continue with the argument update() passes for it) or one of its own locals
                stored = isinstance(ref_, ast.Name) and any(isinstance(x, ast.Name) and x.id == ref_.id and isinstance(x.ctx, ast.Store) for x in walk_body(fn_))
                if isinstance(ref_, ast.Name) and ref_.id in binds and not stored:
                    ref_ = binds[ref_.id]
                elif stored:
                    scope = fn_
                else:
                    located = False
            d = origins(ref_.id, scope) if isinstance(ref_, ast.Name) else ([ref_] if isinstance(ref_, ast.Call) else None)
            if located and not d and isinstance(ref_, ast.Name) and ref_.id in params_of(up):
                chk.ob("O15.4", "checked-out ref is the matcher's (or tag finder's) result", False, c, f"{short(c, 70)}: `{ref_.id}` is a parameter of update(), not a result of the matcher")
            elif not located or not d:
                chk.unknown("O15.4", f"the origin of the ref handed to `{short(c, 60)}` is not located (neither a local of update() nor a parameter of the helper it is written in)", c)
            elif any(isinstance(x, ast.Call) and last_attr(x.func) not in ("best_match", "_find_matching_tag") for x in d) \
                    and all(isinstance(x, ast.Call) or source.is_const(x, None) for x in d):
                chk.unknown("O15.4", f"the ref handed to `{short(c, 60)}` is the result of `{short([x for x in d if isinstance(x, ast.Call)][0], 50)}`, which is not followed here", c)
            else:
                # (a `None` among the origins withdraws a selection - `branch = None` when master is no match after all -: it names no ref)
                refs_ = [x for x in d if not source.is_const(x, None)]
                ok = bool(refs_) and all(isinstance(x, ast.Call) and last_attr(x.func) in ("best_match", "_find_matching_tag") for x in refs_)
                chk.ob("O15.4", "checked-out ref is the matcher's (or tag finder's) result", ok, c, short(c, 70) + ("" if via is None else f" in {fn_.name}(), called as `{short(via, 60)}`"))
            # errors propagate: from the checkout's exception edges the normal exit is unreachable
            swallowed = absorbed(g_, c) or (via is not None and absorbed(gu, via))
            chk.ob("O15.4", "a failing checkout is never swallowed", not swallowed, c, "" if not swallowed else
                   f"an enclosing handler absorbs the checkout error and {fn_.name}() returns normally: Rally continues on whatever branch was checked out before")

    def words(func):
        """words of the git command line(s) a function builds: the string literals of every expression (plain, %-format, concatenation or f-string) whose text starts with `git`;
        messages and docstrings do not count."""
        out = []
        seen = set()
        for x in ast.walk(func):
            if not (isinstance(x, ast.Constant) and isinstance(x.value, str)):
                continue
            root = x
            while isinstance(source.parent(root), (ast.JoinedStr, ast.FormattedValue, ast.BinOp)):
                root = source.parent(root)
            if id(root) in seen:
                continue
            seen.add(id(root))
            lits = sorted((c for c in ast.walk(root) if isinstance(c, ast.Constant) and isinstance(c.value, str)), key=lambda c: (c.lineno, c.col_offset))
            if lits and lits[0].value.lstrip().startswith("git"):
                out += " ".join(c.value for c in lits).split()
        return out

    def fetch_flags_structurally():
        # the remote branch list is the list the remote HAS: fetch prunes deleted remote branches and brings the tags the tag fallback searches
        gf = git.func("fetch")
        toks = words(gf)
        if "fetch" not in toks:
            chk.unknown("O15.4", f"the git command of git.fetch is not located (words: {toks[:12]})", gf)
        else:
            ok = "--prune" in toks and "--tags" in toks
            chk.ob("O15.4", "git fetch prunes deleted remote branches and fetches tags", ok, gf, f"command words: {toks}" +
                   ("" if ok else " — without --prune a branch deleted upstream keeps matching (origin/<branch> is stale) and is checked out instead of the documented fallback"),
                   key="esrally/utils/git.py:fetch:prune-and-tags")

    def escaped_structurally(only=None):
        # every git command that names the repository directory interpolates the ESCAPED path (a raw path with a backslash / space is mangled by the shell-style splitting: git's error
        # text then becomes the "branch list")
        n_cmd = 0
        for gfn in git.functions():
            gps = params_of(gfn)
            if not gps or (only is not None and not any(gfn is x for x in only)):
                continue
            raw = gps[0]
            for c in [c for c in walk_body(gfn) if isinstance(c, ast.Call) and (dotted(c.func) or "").startswith("process.run_subprocess") and c.args]:
                cmd = c.args[0]
                if isinstance(cmd, ast.Name) and cmd.id in local_defs(gfn):
                    # a command line built in a local first (git.is_branch, not on the update path): reported as an advisory only
                    held = local_defs(gfn)[cmd.id]
                    if isinstance(held, ast.JoinedStr) and any(isinstance(v, ast.FormattedValue) and isinstance(v.value, ast.Name) and v.value.id == raw for v in held.values):
                        chk.adv("O15.4", f"git.{gfn.name}: the repository path `{raw}` is interpolated raw (not escaped) in {short(held, 60)}", c)
                    continue
                interp = [v.value for v in cmd.values if isinstance(v, ast.FormattedValue)] if isinstance(cmd, ast.JoinedStr) else \
                    (list(cmd.right.elts) if isinstance(cmd, ast.BinOp) and isinstance(cmd.op, ast.Mod) and isinstance(cmd.right, ast.Tuple) else ([cmd.right] if isinstance(cmd, ast.BinOp) and isinstance(cmd.op, ast.Mod) else []))
                if not interp:
                    continue
                n_cmd += 1
                bare = [x for x in interp if isinstance(x, ast.Name) and x.id == raw]
                chk.ob("O15.4", f"git.{gfn.name}: the repository path is interpolated escaped", not bare, c, "" if not bare else f"`{raw}` is used raw in {short(cmd, 60)}",
                       key=f"esrally/utils/git.py:{gfn.name}:escaped-path:{len([x for x in walk_body(gfn) if isinstance(x, ast.Call) and x.lineno < c.lineno and (dotted(x.func) or '').startswith('process.run_subprocess')])}")
        return n_cmd

    def clone_structurally():
        # a fresh clone has ALL branches of the remote (a shallow / single-branch clone only knows the default branch: every version then falls back to it)
        gcl = git.func("clone")
        ctoks = words(gcl)
        if "clone" not in ctoks:
            chk.unknown("O15.4", f"the git command of git.clone is not located (words: {ctoks[:12]})", gcl)
        else:
            narrowing = [t for t in ctoks if t.startswith(("--depth", "--single-branch", "--shallow", "--branch", "-b", "--filter", "--no-tags"))]
            chk.ob("O15.4", "git clone fetches every branch (no --depth / --single-branch / --branch)", not narrowing, gcl, f"command words: {[t for t in ctoks if not t.startswith('%')]}" +
                   ("" if not narrowing else f" — {narrowing} leaves only the default branch: the best match for every version is then the default branch"), key="esrally/utils/git.py:clone:all-branches")

    # ---- O15.4 decided on VALUES -------------------------------------------------------------------------------------------------------------------------
    # RallyRepository(...).update(version) is EVALUATED (helper methods, guard clauses, walrus, one or several checkout sites are all the same to the evaluator) against
    # reference stubs of its collaborators: the git functions (bound through their REAL signatures in git.py; checkout / rebase / pull are recorded, head_revision returns a token
    # that names how many ref-changing calls happened before it), the matcher (returns the answer the scenario fixes for the remote resp. the local listing and records the version
    # it is asked for) and versions.variants_of (documented order). Each obligation is the outcome of a scenario. Only when a scenario cannot be evaluated the structural
    # fallback above decides.
    hierarchy = {}
    if repo.exists("esrally/exceptions.py"):
        hierarchy = {c.name: c for c in repo.module("esrally/exceptions.py").tree.body if isinstance(c, ast.ClassDef)}
    gsig = Interp(git)  # binds call-site arguments to the real signatures only
    VERSION = "8.5.1"
    REMOTE_LIST, LOCAL_LIST = ["7", "8.5", "master"], ["8", "old", "master"]

    def in_order(binder, func, args, kwargs):
        env, names = binder.bind(func, args, kwargs)
        return [env[n] for n in names] + [env[x.arg] for x in func.args.kwonlyargs]

    def ref_variants(version):
        m_ = Ref.STRICT.match(version) if isinstance(version, str) else None
        if m_ is None:
            raise _Raised(f"InvalidSyntax: {version!r}", "InvalidSyntax")
        a_, b_, c_, s_ = int(m_.group(1)), int(m_.group(2)), int(m_.group(3)), m_.group(4)
        return ([f"{a_}.{b_}.{c_}-{s_}"] if s_ else []) + [f"{a_}.{b_}.{c_}", f"{a_}.{b_}", f"{a_}"]

    def ref_match(alts, version):
        """the documented precedence on a concrete branch list (reference implementation: exact variant, nearest prior minor of the same major, master iff newer than every versioned branch)."""
        alts = [a for a in alts if isinstance(a, str)]
        if version is None:
            return "master" if "master" in alts else None
        vs = ref_variants(version)
        major, minor = int(vs[-1]), int(vs[-2].split(".")[1])
        for v_ in vs:
            if v_ in alts:
                return v_
            if v_ == vs[-2]:
                prior = [int(m_.group(2)) for m_ in (re.fullmatch(r"(\d+)\.(\d+)", a) for a in alts) if m_ and int(m_.group(1)) == major and int(m_.group(2)) <= minor]
                if prior:
                    return f"{major}.{max(prior)}"
        majors = [int(m_.group(1)) for m_ in (re.fullmatch(r"(\d+)(?:\.\d+){0,2}(?:-.+)?", a) for a in alts) if m_]
        return "master" if "master" in alts and major > max(majors, default=-1) else None

    def simulate(has_remote, remote_answer=None, local_answer=None, tags=(), current="master", fail=None, fetch=False, version=VERSION, lists=None):
        # (lists=(remote names, local names): the matcher stub answers by the documented precedence on whatever list it is handed - also a combination of the two listings)
        trace = []
        remote_list, local_list = lists if lists is not None else (REMOTE_LIST, LOCAL_LIST)
        st = {"current": current, "movers": 0}

        def git_stub(name, impl):
            f_ = git.index().get(name)
            if not isinstance(f_, ast.FunctionDef):
                def absent(*a, **k):
                    raise CannotEval(f"git.{name} is not defined in git.py")
                return absent
            return lambda *a, **k: impl(*in_order(gsig, f_, list(a), k))

        def move(kind, ref_):
            trace.append((kind, ref_))
            st["movers"] += 1
            if fail == kind or (isinstance(fail, tuple) and kind in fail) or (kind in ("rebase", "pull") and not has_remote):
                # (a repository without a remote has no origin/<branch> to rebase on: git fails)
                raise _Raised(f"SupplyError: {kind} {ref_} failed", "SupplyError")
            st["current"] = ref_

        def listing(src_dir, remote):
            trace.append(("branches", bool(remote)))
            return list(remote_list if remote else local_list)

        def fetched(src_dir, remote):
            trace.append(("fetch", remote))

        def tag_list(src_dir):
            trace.append(("tags", None))
            return list(tags)

        def matcher(*a, **k):
            alts, version = in_order(iv, bm, list(a), k)
            if not isinstance(alts, (list, tuple, set, frozenset)) or not _plain(alts):
                raise CannotEval("the matcher is handed something that is not a branch list")
            if lists is not None:
                if not all(isinstance(a, str) for a in alts) or not set(alts) <= set(remote_list) | set(local_list):
                    raise CannotEval(f"the matcher is handed names that are neither remote nor local branches ({sorted(map(str, alts))})")
                which = "remote" if sorted(alts) == sorted(remote_list) else ("local" if sorted(alts) == sorted(local_list) else "combined")
                trace.append(("match", which, version))
                return ref_match(list(alts), version)
            which = "remote" if sorted(alts) == sorted(REMOTE_LIST) else ("local" if sorted(alts) == sorted(LOCAL_LIST) else None)
            if which is None:
                raise CannotEval(f"the matcher is handed neither the remote nor the local branch listing ({sorted(alts)})")
            trace.append(("match", which, version))
            return remote_answer if which == "remote" else local_answer

        stubs = {"checkout": git_stub("checkout", lambda src_dir, branch: move("checkout", branch)), "rebase": git_stub("rebase", lambda src_dir, remote, branch: move("rebase", branch)),
                 "pull": git_stub("pull", lambda src_dir, remote, branch: move("pull", branch)), "fetch": git_stub("fetch", fetched), "branches": git_stub("branches", listing),
                 "head_revision": git_stub("head_revision", lambda src_dir: f"head@{st['movers']}"), "current_branch": git_stub("current_branch", lambda src_dir: st["current"]),
                 "tags": git_stub("tags", tag_list), "best_match": matcher, "variants_of": lambda version: ref_variants(version), "is_working_copy": lambda *a, **k: True,
                 "join": lambda *a: "/".join(a)}
        # (what update() and its helpers read from versions.py beyond the stubbed matcher - VersionVariants(...).all_versions in an inlined tag search, a renamed
        # variants helper - is evaluated from versions.py by that module's evaluator)
        ir = Interp(rep, stubs=stubs, hierarchy=hierarchy, modules={ver.modname: iv}, session=process())
        me, built = None, False
        init = rep.methods(RR).get("__init__")
        if init is not None and len(params_of(init)) == 7:
            try:
                me = ir.instantiate(RR, ["https://example.org/tracks.git" if has_remote else None, "/rally", "default", "tracks", False, fetch])
                built = True
            except (_Raised, CannotEval, _Ctl, RecursionError):
                me = None
        if me is None:
            # (the constructor is not evaluated: the attributes update() reads are supplied under the names the repository uses today)
            me = _Obj(RR)
            me.fields.update({"url": "https://example.org/tracks.git" if has_remote else None, "repo_dir": "/rally/default", "resource_name": "tracks", "remote": has_remote, "offline": False,
                              "logger": OPAQUE, "revision": None})
        if not (fetch and built):
            del trace[:]
        ir.budget = 60000
        kind, val = attempt(lambda: ir.call_function(up, [version], bound=me))
        revs = [v for v in me.fields.values() if isinstance(v, str) and v.startswith("head@")]
        return {"kind": kind, "val": val, "trace": trace, "refs": [e[1] for e in trace if e[0] in ("checkout", "rebase", "pull")], "revs": revs, "final": f"head@{st['movers']}", "built": built, "current": st["current"],
                "matches": [e[1:] for e in trace if e[0] == "match"]}

    SCEN = {
        "remote-hit": ("remote repository; the matcher selects 8.5 from the remote listing (and would select 8 from the local one)", dict(has_remote=True, remote_answer="8.5", local_answer="8")),
        "remote-hit-2": ("remote repository; the matcher selects master from the remote listing", dict(has_remote=True, remote_answer="master", local_answer="8")),
        "remote-miss": ("remote repository; nothing matches remotely, 8 matches locally", dict(has_remote=True, remote_answer=None, local_answer="8")),
        "local-only": ("repository without a remote (the remote listing would match 7); 8 matches locally", dict(has_remote=False, remote_answer="7", local_answer="8")),
        "local-hit-2": ("repository without a remote; `old` matches locally", dict(has_remote=False, remote_answer=None, local_answer="old")),
        "on-branch": ("repository without a remote; 8 matches locally and is checked out already", dict(has_remote=False, remote_answer=None, local_answer="8", current="8")),
        "on-8.8": ("repository without a remote; 8 matches locally, 8.8 is checked out", dict(has_remote=False, remote_answer=None, local_answer="8", current="8.8")),
        "on-18": ("repository without a remote; 8 matches locally, 18 is checked out", dict(has_remote=False, remote_answer=None, local_answer="8", current="18")),
        "on-x8x": ("repository without a remote; 8 matches locally, x8x is checked out", dict(has_remote=False, remote_answer=None, local_answer="8", current="x8x")),
        "local-and-tag": ("repository without a remote; 8 matches locally and the tag v8.5.1 exists", dict(has_remote=False, remote_answer=None, local_answer="8", tags=["v8.5.1"])),
        "tag": ("repository without a remote; no branch matches, tags v7, v8.5, v8", dict(has_remote=False, remote_answer=None, local_answer=None, tags=["v7", "v8.5", "v8"])),
        "tag-2": ("repository without a remote; no branch matches, tags v8, v8.5.1", dict(has_remote=False, remote_answer=None, local_answer=None, tags=["v8", "v8.5.1"])),
        "remote-tag": ("remote repository; no branch matches remotely or locally, tag v8", dict(has_remote=True, remote_answer=None, local_answer=None, tags=["v8", "v9.1"])),
        "nothing": ("repository without a remote; no branch matches, only tag v9", dict(has_remote=False, remote_answer=None, local_answer=None, tags=["v9"])),
        "remote-nothing": ("remote repository; no branch and no tag matches", dict(has_remote=True, remote_answer=None, local_answer=None)),
        "remote-hit-fails": ("remote repository; 8.5 matches remotely, the checkout fails", dict(has_remote=True, remote_answer="8.5", local_answer=None, fail="checkout")),
        "local-hit-fails": ("repository without a remote; 8 matches locally, the checkout fails", dict(has_remote=False, remote_answer=None, local_answer="8", fail="checkout")),
        # (the update from the remote is refused - uncommitted local changes: `git rebase` / `git pull` fail, which Rally only warns about - AFTER the remote match was checked out)
        "rebase-refused": ("remote repository; 8.5 matches remotely and is checked out, the rebase on origin is refused (local changes); 8 would match locally",
                           dict(has_remote=True, remote_answer="8.5", local_answer="8", fail=("rebase", "pull"))),
        "rebase-refused-tag": ("remote repository; 8.5 matches remotely and is checked out, the rebase on origin is refused (local changes); no local branch matches, tag v8.5.1 exists",
                               dict(has_remote=True, remote_answer="8.5", local_answer=None, tags=["v8.5.1"], fail=("rebase", "pull"))),
        "rebase-refused-only": ("remote repository; 8.5 matches remotely and is checked out, the rebase on origin is refused (local changes); neither a local branch nor a tag matches",
                                dict(has_remote=True, remote_answer="8.5", local_answer=None, fail=("rebase", "pull"))),
        # (F59) the matcher answers by the documented precedence on the listing it is handed: the clone of a repository with the remote branches master, 7, 8 has only master locally
        "old-version-tag": ("remote repository with the branches master, 7, 8 (local clone: master only), version 6.8.0, tags v6 and v7",
                            dict(has_remote=True, lists=(["master", "7", "8"], ["master"]), version="6.8.0", tags=["v6", "v7"], current="7")),
        "old-version-nothing": ("remote repository with the branches master, 7, 8 (local clone: master only), version 6.8.0, no matching tag",
                                dict(has_remote=True, lists=(["master", "7", "8"], ["master"]), version="6.8.0", tags=["v7"], current="7")),
        "newer-than-local": ("remote repository without a listed remote branch, local branches master, 7, version 8.0.0 (7 is checked out)",
                             dict(has_remote=True, lists=([], ["master", "7"]), version="8.0.0", current="7")),
        "newer-than-remote": ("remote repository with the branches master, 7 (local clone: master only), version 8.0.0 (7 is checked out)",
                              dict(has_remote=True, lists=(["master", "7"], ["master"]), version="8.0.0", current="7")),
        "newer-than-both": ("remote repository with the branch 7 only (no master remotely), local branches master, 7, version 8.0.0 (7 is checked out)",
                            dict(has_remote=True, lists=(["7"], ["master", "7"]), version="8.0.0", current="7")),
        "no-versioned-branch": ("repository without a remote, local branch master only, version 6.8.0 (tag v6 exists, `old` is checked out)",
                                dict(has_remote=False, lists=([], ["master"]), version="6.8.0", tags=["v6"], current="old")),
        "tag-fails": ("repository without a remote; only the tag v8.5 matches, the checkout fails", dict(has_remote=False, remote_answer=None, local_answer=None, tags=["v8.5"], fail="checkout")),
    }
    runs = {k: simulate(**kw) for k, (_t, kw) in SCEN.items()}
    not_evaluated = [f"{SCEN[k][0]}: {r['val']}" for k, r in runs.items() if r["kind"] == "unknown"]

    def show(r):
        ev_ = [f"{e[0]} {e[1]}" if e[0] != "match" else f"match[{e[1]}]({e[2]})" for e in r["trace"] if e[0] != "tags"]
        return f"{' -> '.join(ev_) or 'no git call'}; " + ("returns normally" if r["kind"] == "value" else f"raises {str(r['val'])[:60]}") + (f"; revision = {r['revs']}" if r["revs"] else "")

    def decided(name, scen, ok, extra=""):
        r = runs[scen]
        chk.ob("O15.4", f"{name}: {SCEN[scen][0]}", ok, up, f"update({SCEN[scen][1].get('version', VERSION)!r}): {show(r)}" + (f" — {extra}" if extra and not ok else ""), key=f"{_P}:RallyRepository.update:{name}:{scen}")

    def only(r, ref_):
        return r["kind"] == "value" and bool(r["refs"]) and set(r["refs"]) == {ref_}

    if not_evaluated:
        # (the scenarios are not decidable for this shape of update(): the structural fallback decides, and says `not recognised` where it cannot)
        chk.stats["update_on_values"] = f"not evaluated ({not_evaluated[0][:200]})"
        update_structurally()
    else:
        chk.stats["update_on_values"] = f"{len(runs)} scenarios evaluated"
        N1 = "remote branches first (only for remote repos), then local branches"
        decided(N1, "remote-hit", only(runs["remote-hit"], "8.5"), "the remote match must be checked out (and rebased), nothing else")
        decided(N1, "remote-miss", only(runs["remote-miss"], "8"), "the local match must be checked out when nothing matches remotely")
        r = runs["local-only"]
        decided(N1, "local-only", only(r, "8") and not any(e[0] in ("rebase", "pull", "fetch") or e == ("branches", True) for e in r["trace"]) and not any(m_[0] == "remote" for m_ in r["matches"]),
                "a repository without a remote must neither list remote branches nor rebase on / pull from a remote")
        r = runs["remote-miss"]
        asked = [m_[0] for m_ in r["matches"]]
        decided("two matcher calls (remote, local)", "remote-miss", asked[:1] == ["remote"] and "local" in asked[1:], "the matcher is consulted for the remote listing first, then for the local one")
        for scen in ("remote-hit", "remote-miss", "local-only"):
            r = runs[scen]
            decided("matcher called with the distribution version", scen, bool(r["matches"]) and all(m_[1] == VERSION for m_ in r["matches"]), f"asked for {[m_[1] for m_ in r['matches']]}")
        # the candidates of a remote repository are the REMOTE branches: once one of them matched (and was checked out), the local listing / the tags are no fallback any more,
        # whatever happens to the subsequent update from origin (a refused rebase is warned about: the selected branch stays, with the user's local state)
        N1b = "the remote match stays the selected branch when the rebase on origin is refused"
        for scen in ("rebase-refused", "rebase-refused-tag", "rebase-refused-only"):
            r = runs[scen]
            decided(N1b, scen, only(r, "8.5") and r["current"] == "8.5",
                    "a remote branch qualified and was checked out: neither the local branch listing nor the tags are candidates any more, and no error `nothing qualifies` may be reported"
                    if r["kind"] != "unknown" else "")
        # master is the match only when the version is newer than EVERY versioned branch of the repository: the local listing of a clone holds the default branch only, so the
        # versioned branches known from the remote count, too (and where master is legitimately the answer - remotely or locally - it is still selected)
        N1c = "master only when the version is newer than every versioned branch of the repository (remote and local names together)"
        r = runs["old-version-tag"]
        decided(N1c, "old-version-tag", only(r, "v6"), "7 and 8 are branches of the repository: 6.8.0 is not newer than every versioned branch, master is no match; the matching v-tag is the last resort")
        r = runs["old-version-nothing"]
        decided(N1c, "old-version-nothing", r["kind"] == "raise" and not r["refs"], "7 and 8 are branches of the repository: 6.8.0 is not newer than every versioned branch, master is no match; "
                "an error must be reported and nothing checked out")
        for scen in ("newer-than-local", "newer-than-remote", "newer-than-both", "no-versioned-branch"):
            decided(N1c, scen, only(runs[scen], "master"), "the version is newer than every versioned branch (remote and local): master is the documented match")
        N4 = "tags only after no local branch matched"
        decided(N4, "local-and-tag", only(runs["local-and-tag"], "8"), "the local branch wins over a tag")
        decided(N4, "tag", only(runs["tag"], "v8.5"), "the most specific matching v-tag is checked out")
        decided(N4, "remote-tag", only(runs["remote-tag"], "v8"), "the v-tag is the last resort of a remote repository, too")
        for scen in ("nothing", "remote-nothing"):
            r = runs[scen]
            decided("explicit error when nothing qualifies", scen, r["kind"] == "raise" and not r["refs"], "an error must be reported and nothing checked out")
        N7 = "checkout skipped only if the current branch EQUALS the selected one"
        for scen in ("on-8.8", "on-18", "on-x8x"):
            decided(N7, scen, only(runs[scen], "8"), "a branch whose name merely relates to the selection (suffix, prefix, ...) is kept")
        r = runs["on-branch"]
        decided("current-branch test located", "on-branch", r["kind"] == "value" and set(r["refs"]) <= {"8"}, "nothing but the selected branch may be checked out")
        for scen in ("remote-hit", "remote-miss", "tag", "on-8.8"):
            r = runs[scen]
            decided("revision recorded after a checkout", scen, r["kind"] == "value" and bool(r["revs"]), "no attribute of the repository holds the head revision after update(): later loads are not pinned")
            # (an attribute that ALSO keeps an earlier head - `self.previous_revision` - is none of this rule's business: the head after the last switch must be held)
            decided("the pinned revision is read after the last ref-changing git call", scen, r["kind"] == "value" and bool(r["revs"]) and any(v == r["final"] for v in r["revs"]),
                    f"the head was read as {r['revs']} but {r['final']} is the head after the last checkout / rebase: later loads check out the commit Rally was on BEFORE selecting the branch")
        N9_ = "checked-out ref is the matcher's (or tag finder's) result"
        decided(N9_, "remote-hit-2", only(runs["remote-hit-2"], "master"))
        decided(N9_, "local-hit-2", only(runs["local-hit-2"], "old"))
        decided(N9_, "tag-2", only(runs["tag-2"], "v8.5.1"))
        for scen in ("remote-hit-fails", "local-hit-fails", "tag-fails"):
            r = runs[scen]
            decided("a failing checkout is never swallowed", scen, r["kind"] == "raise", "update() returns normally although the checkout failed: Rally continues on whatever branch was checked out before")
        # the remote listing is the listing AFTER a fetch: the constructor (fetch requested, online, working copy present) fetches before update() lists
        r = simulate(has_remote=True, remote_answer="8.5", local_answer=None, fetch=True)
        kinds = [e[0] for e in r["trace"]]
        if r["built"] and r["kind"] != "unknown" and ("branches", True) in r["trace"]:
            ok = "fetch" in kinds and kinds.index("fetch") < r["trace"].index(("branches", True))
            chk.ob("O15.4", "remote branches are listed after a fetch", ok, up, f"RallyRepository(..., fetch=True).update({VERSION!r}): {show(r)}", key=f"{_P}:RallyRepository.update:fetch-before-listing")
        else:
            # (the constructor is not evaluated for this shape: a method of the class that fetches is accepted, anything else is `not recognised`)
            anyf = [c for f_ in rep.methods(RR).values() for c in walk_body(f_) if isinstance(c, ast.Call) and dotted(c.func) in ("git.fetch", "git.pull")]
            if anyf:
                chk.ob("O15.4", "remote branches are listed after a fetch", True, up, f"`{short(anyf[0], 50)}` in a method of RallyRepository", key=f"{_P}:RallyRepository.update:fetch-before-listing")
            else:
                chk.unknown("O15.4", "the constructor cannot be evaluated and no method of RallyRepository fetches: whether a fetch precedes the remote listing is not recognised", up)

    # the git command lines, on values: every function of git.py is evaluated with the subprocess primitives replaced by recorders (io.escape_path marks what it escapes)
    PATH = "/rally repo"
    L_, R_ = "«", "»"

    def git_run(fn, args, kwargs):
        cmds = []

        def rec(result):
            def f(cmd, *a, **k):
                cmds.append(cmd)
                return result
            return f

        stubs = {"run_subprocess_with_logging": rec(0), "run_subprocess": rec(0), "run_subprocess_with_output": rec(["line one ", "line two"]),
                 "run_subprocess_with_logging_and_output": rec(minieval.Record(returncode=0, stdout="refs/heads/x\n")), "run_subprocess_with_out_and_err": rec(("out", "", 0)),
                 "exit_status_as_bool": lambda runnable, quiet=False: (lambda rc: rc == 0 or rc is None)(runnable()), "escape_path": lambda p_: f"{L_}{p_}{R_}", "ensure_dir": lambda *a, **k: None}
        gx = Interp(git, stubs=stubs)
        kind, val = attempt(lambda: (gx.apply(gx.function_value(fn), list(args), dict(kwargs), what=fn.name), None)[1])
        if kind != "unknown" and not all(isinstance(c, str) for c in cmds):
            kind, val = "unknown", "a command line that is not a string"
        return kind, val, cmds

    def git_inputs(fn):
        """(args, kwargs) to evaluate a git function with: the repository directory first, a token for every other required parameter, both values of a boolean default."""
        a = fn.args
        pos = [x.arg for x in a.posonlyargs + a.args]
        if not pos or a.vararg or a.kwarg:
            return []
        n_req = len(pos) - len(a.defaults)
        if n_req < 1:
            return []
        args = [PATH] + [f"<{n}>" for n in pos[1:n_req]]
        variants = [{x.arg: f"<{x.arg}>" for x, d in zip(a.kwonlyargs, a.kw_defaults) if d is None}]
        for n, d in list(zip(pos[n_req:], a.defaults)) + [(x.arg, d) for x, d in zip(a.kwonlyargs, a.kw_defaults) if d is not None]:
            if isinstance(d, ast.Constant) and isinstance(d.value, bool):
                variants = [dict(v, **{n: b}) for v in variants for b in (True, False)]
        return [(args, v) for v in variants]

    used_as_decorator = {dotted(d.func if isinstance(d, ast.Call) else d) for f_ in git.tree.body if isinstance(f_, ast.FunctionDef) for d in f_.decorator_list}
    git_funcs = [f_ for f_ in git.tree.body if isinstance(f_, ast.FunctionDef) and f_.name not in used_as_decorator]
    # functions on the update path: what the repository calls as git.<name>(...) (transitively, inside git.py)
    on_path = {last_attr(c.func) for c in ast.walk(RR) if isinstance(c, ast.Call) and isinstance(c.func, ast.Attribute) and dotted(c.func.value) == "git"} - {"is_branch"}
    grew = True
    while grew:
        grew = False
        for f_ in git_funcs:
            if f_.name in on_path:
                for c in ast.walk(f_):
                    if isinstance(c, ast.Call) and isinstance(c.func, ast.Name) and c.func.id in {g_.name for g_ in git_funcs} and c.func.id not in on_path:
                        on_path.add(c.func.id)
                        grew = True
    n_sites, structural = 0, []
    for gfn in git_funcs:
        inputs = git_inputs(gfn)
        results = [(kw_, git_run(gfn, a_, kw_)) for a_, kw_ in inputs]
        if not inputs or any(k_ == "unknown" for _kw, (k_, _v, _c) in results):
            structural.append(gfn)
            continue
        for i_, (kw_, (k_, _v, cmds)) in enumerate(results):
            named = [c for c in cmds if PATH in c]
            if not named:
                continue
            rawly = [c for c in named if PATH in c.replace(f"{L_}{PATH}{R_}", "")]
            flags = {k: v for k, v in kw_.items() if isinstance(v, bool)}
            if rawly and gfn.name not in on_path:
                chk.adv("O15.4", f"git.{gfn.name}: the repository path is interpolated raw (not escaped) in `{rawly[0][:80]}` (not on the update path)", gfn)
                continue
            n_sites += 1
            chk.ob("O15.4", f"git.{gfn.name}: the repository path is interpolated escaped" + (f" ({', '.join(f'{k}={v}' for k, v in flags.items())})" if flags else ""), not rawly, gfn,
                   f"commands for the directory {PATH!r}: {[c.replace(L_, '<escaped:').replace(R_, '>') for c in named][:4]}" + ("" if not rawly else " — the raw path is split at the blank / mangled at a backslash"),
                   key=f"esrally/utils/git.py:{gfn.name}:escaped-path:{i_}")
    if structural:
        n_sites += escaped_structurally(structural)
    if n_sites >= 8:
        chk.ob("O15.4", "git command sites located", True, git.tree, f"{n_sites} command(s) naming the repository directory")
    else:
        chk.unknown("O15.4", f"only {n_sites} git command(s) naming the repository directory located in git.py (8 expected: the commands are built differently)", git.tree)

    def command_of(fname, word):
        """the recorded command line(s) of git.<fname>(<directory>, <a token for every other parameter>) that contain the git sub-command `word`; None when the function cannot
        be evaluated (or issues no such command)."""
        hit = []
        for a_, kw_ in git_inputs(git.func(fname)):
            k_, _v, cmds = git_run(git.func(fname), a_, kw_)
            if k_ == "unknown":
                return None
            hit += [c.split() for c in cmds if word in c.split()]
        return hit or None

    fcmd = command_of("fetch", "fetch")
    if fcmd is None:
        fetch_flags_structurally()
    else:
        ok = all("--prune" in w and "--tags" in w for w in fcmd)
        chk.ob("O15.4", "git fetch prunes deleted remote branches and fetches tags", ok, git.func("fetch"), f"command words: {fcmd[0]}" +
               ("" if ok else " — without --prune a branch deleted upstream keeps matching (origin/<branch> is stale) and is checked out instead of the documented fallback"),
               key="esrally/utils/git.py:fetch:prune-and-tags")
    ccmd = command_of("clone", "clone")
    if ccmd is None:
        clone_structurally()
    else:
        narrowing = [t for w in ccmd for t in w if t.startswith(("--depth", "--single-branch", "--shallow", "--branch", "-b", "--filter", "--no-tags"))]
        chk.ob("O15.4", "git clone fetches every branch (no --depth / --single-branch / --branch)", not narrowing, git.func("clone"), f"command words: {ccmd[0]}" +
               ("" if not narrowing else f" — {narrowing} leaves only the default branch: the best match for every version is then the default branch"), key="esrally/utils/git.py:clone:all-branches")

    # the tag search walks the variants most specific first and matches `v<variant>`: decided on values (git.tags(...) is stubbed; whatever it reads from versions.py - the
    # variants helper, or VersionVariants(...).all_versions itself when that helper is inlined into the search - is evaluated from versions.py by that module's evaluator)
    ft = rep.methods(RR).get("_find_matching_tag")
    # the variants helper(s) of versions.py are located by ROLE: functions DEFINED in versions.py that the tag search (the method, or - when the search is inlined - any method
    # of the repository class) calls through the import table, the matcher aside. None is required to exist: without one the candidates come straight from all_versions.
    rq = Interp(rep)
    helpers = []
    for f_ in ([ft] if ft is not None else list(rep.methods(RR).values())):
        for c in walk_body(f_):
            qn = rq.qualified(c.func) if isinstance(c, ast.Call) else None
            if qn and qn.rpartition(".")[0] == ver.modname:
                d_ = ver.index().get(qn.rpartition(".")[2])
                if isinstance(d_, ast.FunctionDef) and d_ is not bm and d_ not in helpers and len(params_of(d_)) == 1:
                    helpers.append(d_)

    def helper_values(vo, version):
        iv.budget = 60000
        process()
        return list(iv.iterate(iv.call_function(vo, [version]), vo.name))

    TAG_CASES = [
        ("tags ['v8.5', 'v8', '8.5.1', 'v9.0.0'] for 8.5.1", (["v8.5", "v8", "8.5.1", "v9.0.0"], "8.5.1"), "v8.5"),
        ("tags ['v8', 'v8.5.1', 'v8.5'] for 8.5.1", (["v8", "v8.5.1", "v8.5"], "8.5.1"), "v8.5.1"),
        ("tags ['v8.5.1', 'v8.5.1-SNAPSHOT'] for 8.5.1-SNAPSHOT", (["v8.5.1", "v8.5.1-SNAPSHOT"], "8.5.1-SNAPSHOT"), "v8.5.1-SNAPSHOT"),
        ("tags ['8.5.1', '8.5', '8', 'master'] for 8.5.1 (no v prefix)", (["8.5.1", "8.5", "8", "master"], "8.5.1"), None),
        ("tags ['v7', 'v9'] for 8.5.1", (["v7", "v9"], "8.5.1"), None),
    ]
    if ft is None:
        # the tag search is not a method of that name (inlined, or a module-level function): it is decided through update() - a repository without a remote in which no
        # branch matches checks out exactly the tag the search selects (nothing, and an error, when no tag matches)
        def tag_via_update(tags, version):
            r = simulate(has_remote=False, remote_answer=None, local_answer=None, tags=tags, version=version)
            if r["kind"] == "unknown":
                raise CannotEval(str(r["val"]))
            if len(set(r["refs"])) > 1 or (r["kind"] == "value") != bool(r["refs"]):
                raise _Raised(f"update() checks out {r['refs']} and {'returns' if r['kind'] == 'value' else 'raises'}")
            return r["refs"][0] if r["refs"] else None

        tag_of, tag_node = tag_via_update, up
    else:
        def find_tag(tags, version):
            ir = Interp(rep, stubs={"tags": lambda *a, **k: list(tags)}, modules={ver.modname: iv}, session=process())
            me = _Obj(RR)
            me.fields.update({"repo_dir": "/repo-dir", "resource_name": "tracks", "remote": True, "offline": False, "logger": OPAQUE})
            return ir.call_function(ft, [version], bound=me)

        tag_of, tag_node = find_tag, ft
    table(chk, "O15.4", "tag search walks the same variants order with the 'v' prefix", TAG_CASES, tag_node, tag_of)
    for vo in helpers:
        for v_ in ("8.5.1-SNAPSHOT", "7.10.2"):
            k1, want_ = attempt(lambda: variant_values(v_))
            k2, got_ = attempt(lambda: helper_values(vo, v_))
            if k1 == "unknown" or k2 == "unknown":
                chk.unknown("O15.4", f"{vo.name} cannot be evaluated ({got_ if k2 == 'unknown' else want_})", vo)
                break
            chk.ob("O15.4", f"{vo.name} yields all_versions in order: {v_}", k1 == "value" and k2 == "value" and got_ == want_ and len(got_) >= 3, vo, f"{vo.name}: {got_!r}; all_versions: {want_!r}")
    # the same necessary condition observed at the search itself (with or without a variants helper in between): offered the v-tags of the variants from position i on (in
    # the opposite order), the search selects the tag of variant i - its candidates are v + all_versions, tried in that order
    for v_ in ("8.5.1-SNAPSHOT", "7.10.2"):
        k1, want_ = attempt(lambda: variant_values(v_))
        if k1 != "value" or len(want_) < 3 or not all(isinstance(w, str) for w in want_):
            chk.unknown("O15.4", f"all_versions cannot be evaluated for {v_} ({want_}): the candidates of the tag search are not compared with it", tag_node)
            break
        picks = [attempt(lambda: tag_of(["v" + w for w in reversed(want_[i:])], v_)) for i in range(len(want_))]
        undecided = [r[1] for r in picks if r[0] == "unknown"]
        if undecided:
            chk.unknown("O15.4", f"the tag search cannot be evaluated for {v_} ({undecided[0]})", tag_node)
            break
        ok = all(r[0] == "value" and r[1] == "v" + w for r, w in zip(picks, want_))
        chk.ob("O15.4", f"tag search tries v + all_versions in order: {v_}", ok, tag_node,
               f"all_versions: {want_!r}; selected from the tags of variants i.. : {[r[1] if r[0] == 'value' else 'raises ' + str(r[1])[:40] for r in picks]!r}",
               key=f"{_P}:RallyRepository:tag-candidates-follow-all_versions:{v_}")
    # ---- O15.5 a lookup is a function of its inputs ----------------------------------------------------------------------------------------------------
    # "for every set of branches and every version": what is selected depends on the branches / tags and the version, not on what this process looked up before (teams and
    # tracks repository of one race, several updates of one repository). Decided on values: each SEQUENCE of lookups below is evaluated in ONE modelled process (memoised
    # functions hand out the object they cached, generator results are single-use, module-level / class-level values and default arguments live on) and every step must yield
    # the documented answer - the one the same lookup yields on its own.
    chk.rule("O15.5", "a lookup is a function of its inputs only: evaluated as a SEQUENCE in one process (memoised functions return the object they cached, the result of a generator "
             "function is a single-use iterator, module-level / class-level values and default arguments are created once and live on), every lookup - variants helper, matcher, "
             "tag search, update() of a new repository object - yields the documented answer whatever was looked up before", 13,
             "the second repository of a race (teams, then tracks) or the second update for the same ES version tries no v-tag candidate / sees what an earlier lookup left behind: "
             "`Cannot find ... for distribution version` although the documented ref exists, or the ref of another lookup is checked out")

    def sequence(group, steps, node, evaluate, slug):
        """steps: (label, inputs, documented outcome); all evaluated in order in ONE process. A step that cannot be evaluated makes the sequence `not recognised`."""
        outcomes = []
        with one_process():
            for label, inputs, _want in steps:
                outcomes.append(attempt(lambda: evaluate(*inputs)))
                if outcomes[-1][0] == "unknown":
                    break
        if outcomes[-1][0] == "unknown":
            chk.unknown("O15.5", f"{group}: step {len(outcomes)} ({steps[len(outcomes) - 1][0]}) cannot be evaluated ({outcomes[-1][1]})", node)
            return
        seen = {}
        for i, ((label, inputs, want), (kind, got)) in enumerate(zip(steps, outcomes), 1):
            ok = kind == "value" and got == want and type(got) is type(want)
            detail = f"code: {got!r}" + ("" if kind == "value" else " (raised)") + f"; documented: {want!r}"
            if not ok:
                with one_process():
                    k0, g0 = attempt(lambda: evaluate(*inputs))
                detail += f"; the same lookup on its own: {g0!r}" + ("" if k0 == "value" else f" ({'raised' if k0 == 'raise' else 'not evaluated'})")
                if (k0, g0) != (kind, got):
                    detail += " — the outcome depends on the lookups made before it in the same process: " + "; ".join(f"{j}. {st[0]}" for j, st in enumerate(steps[: i - 1], 1))
            n_before = seen.get(label, 0)
            seen[label] = n_before + 1
            chk.ob("O15.5", f"{group}: step {i}, {label}" + (f" (again, after {i - 1} other lookup(s))" if n_before else ""), ok, node, detail, key=f"{slug}:history-independent:{i}")

    for vo in helpers:
        wants = {v_: attempt(lambda: variant_values(v_)) for v_ in ("8.5.1", "7.10.2-SNAPSHOT")}
        if any(k_ != "value" for k_, _g in wants.values()):
            chk.unknown("O15.5", f"all_versions cannot be evaluated ({[g for k_, g in wants.values() if k_ != 'value'][0]}): the values of {vo.name} in a sequence are not compared with it", vo)
            continue
        sequence(f"{vo.name} consumed anew by every lookup", [(f"{vo.name}({v_!r})", (vo, v_), wants[v_][1]) for v_ in ("8.5.1", "8.5.1", "7.10.2-SNAPSHOT", "8.5.1")],
                 vo, helper_values, f"{_V}:{vo.name}")
    sequence("matcher", [
        ("['8.3', '8', 'master'] for 8.5.1", (["8.3", "8", "master"], "8.5.1"), "8.3"),
        ("['8.3', '8', 'master'] for 8.5.1", (["8.3", "8", "master"], "8.5.1"), "8.3"),
        ("['8', 'master'] for 8.5.1 (the same version, another repository)", (["8", "master"], "8.5.1"), "8"),
        ("['7.0', '6', 'master'] for 7.3.1", (["7.0", "6", "master"], "7.3.1"), "7.0"),
        ("['7', 'master'] for 8.5.1", (["7", "master"], "8.5.1"), "master"),
        ("['7.4', '7'] for 7.3.1 (the same version, another repository)", (["7.4", "7"], "7.3.1"), "7"),
        ("['8.3', '8', 'master'] for 8.5.1", (["8.3", "8", "master"], "8.5.1"), "8.3"),
    ], bm, match, f"{_V}:best_match")
    sequence("tag search (a new repository object per lookup)", [
        ("tags ['v8.5', 'v8', 'v7'] for 8.5.1", (["v8.5", "v8", "v7"], "8.5.1"), "v8.5"),
        ("tags ['v8.5', 'v8', 'v7'] for 8.5.1", (["v8.5", "v8", "v7"], "8.5.1"), "v8.5"),
        ("tags ['v7.10', 'v8'] for 7.10.2", (["v7.10", "v8"], "7.10.2"), "v7.10"),
        ("tags ['v8', 'v9.0'] for 8.5.1 (the same version, another repository)", (["v8", "v9.0"], "8.5.1"), "v8"),
        ("no tags for 8.5.1", ([], "8.5.1"), None),
        ("tags ['v8.5', 'v8', 'v7'] for 8.5.1", (["v8.5", "v8", "v7"], "8.5.1"), "v8.5"),
    ], tag_node, tag_of, f"{_P}:RallyRepository:tag-search")
    if not not_evaluated:
        # update() itself, one new repository object per step (teams, then tracks; a second race in the same process): what is checked out and how update() ends
        def updated(scen):
            r = simulate(**SCEN[scen][1])
            if r["kind"] == "unknown":
                raise CannotEval(str(r["val"]))
            return [r["kind"] == "value"] + list(r["refs"])

        def alone(scen):
            return [runs[scen]["kind"] == "value"] + list(runs[scen]["refs"])

        sequence(f"update({VERSION!r}) of a new repository object -> [returns normally, refs checked out / rebased]",
                 [(SCEN[k][0], (k,), alone(k)) for k in ("tag", "tag", "remote-hit", "local-only", "nothing", "tag-2", "remote-hit", "local-only")], up, updated, f"{_P}:RallyRepository.update")

    # remote ref -> branch name: only the remote prefix (first path component) is stripped; decided on values
    crb = git.func("_cleanup_remote_branch_names")

    def cleanup(refs):
        return list(Interp(git).call_function(crb, [list(refs)]))

    table(chk, "O15.4", "remote ref -> branch name strips only the remote prefix (first path component)", [
        ("['origin/8.3', 'origin/master', 'origin/7']", (["origin/8.3", "origin/master", "origin/7"],), ["8.3", "master", "7"]),
        ("['origin/users/joe/8.3']", (["origin/users/joe/8.3"],), ["users/joe/8.3"]),
        ("['upstream/feature/7.x-backport', 'origin/8.3 ']", (["upstream/feature/7.x-backport", "origin/8.3 "],), ["feature/7.x-backport", "8.3"]),
    ], crb, cleanup, why="branch names containing '/' (users/joe/8.3) would turn into version-looking names")
from sa.selftest import V  # noqa: E402

# source fragments the refactoring variants replace (each occurs exactly once)
_LM_OLD = ("def _latest_major(alternatives):\n    max_major = -1\n    for a in alternatives:\n        if is_version_identifier(a, strict=False):\n"
           "            major, _, _, _ = components(a, strict=False)\n            max_major = max(major, max_major)\n    return max_major\n")
_BM_OLD = ('    if is_version_identifier(distribution_version):\n        versions = VersionVariants(distribution_version)\n        for version, version_type in versions.all_versions:\n'
           '            if version in available_alternatives:\n                return version\n            # match nearest prior minor\n'
           '            if version_type == "with_minor" and (latest_minor := latest_bounded_minor(available_alternatives, versions)) is not None:\n'
           '                return f"{versions.major}.{latest_minor}"\n        # not found in the available alternatives, it could still be a master version\n'
           '        major, _, _, _ = components(distribution_version)\n        if major > _latest_major(available_alternatives) and "master" in available_alternatives:\n'
           '            return "master"\n    elif is_serverless(distribution_version):\n        return "master"\n    elif not distribution_version:\n        return "master"\n    return None\n')
_BM_GUARD = ('    if not is_version_identifier(distribution_version):\n        if is_serverless(distribution_version) or not distribution_version:\n            return "master"\n        return None\n\n'
             '    versions = VersionVariants(distribution_version)\n    for version, version_type in versions.all_versions:\n        if version in available_alternatives:\n            return version\n'
             '        if version_type == "with_minor" and (latest_minor := latest_bounded_minor(available_alternatives, versions)) is not None:\n'
             '            return f"{versions.major}.{latest_minor}"\n    major, _, _, _ = components(distribution_version)\n'
             '    if major > _latest_major(available_alternatives) and "master" in available_alternatives:\n        return "master"\n    return None\n')
_LB_OLD = ('    eligible_minors = []\n    for a in alternatives:\n        if is_version_identifier(a, strict=False):\n            major, minor, patch, suffix = components(a, strict=False)\n'
           "            if patch is not None or suffix is not None:\n                # branches containing patch or patch-suffix aren't supported\n                continue\n"
           '            if major == target_version.major and minor is not None and minor <= target_version.minor:\n                eligible_minors.append(minor)\n\n'
           '    # no matching minor version\n    if not eligible_minors:\n        return None\n\n    eligible_minors.sort()\n\n'
           '    return min(eligible_minors, key=lambda x: abs(x - target_version.minor))\n')
_LB_HELPER = ('    eligible_minors = [m for m in (_eligible_minor(a, target_version) for a in alternatives) if m is not None]\n    return max(eligible_minors, default=None)\n\n\n'
              'def _eligible_minor(alternative, target_version):\n    if not is_version_identifier(alternative, strict=False):\n        return None\n'
              '    major, minor, patch, suffix = components(alternative, strict=False)\n    if patch is not None or suffix is not None or minor is None:\n        return None\n'
              '    return minor if major == target_version.major and minor <= target_version.minor else None\n')
_LB_DEFAULT = ('    return max(_eligible_minors(alternatives, target_version), default=None)\n\n\ndef _eligible_minors(alternatives, target_version, found=[]):\n'
               '    for a in alternatives:\n        if is_version_identifier(a, strict=False):\n            major, minor, patch, suffix = components(a, strict=False)\n'
               '            if patch is None and suffix is None and minor is not None and major == target_version.major and minor <= target_version.minor:\n'
               '                found.append(minor)\n    return found\n')
_AV_OLD = ('        versions = [(self.with_suffix, "with_suffix")] if self.suffix else []\n        versions.extend(\n            [\n                (self.with_patch, "with_patch"),\n'
           '                (self.with_minor, "with_minor"),\n                (self.with_major, "with_major"),\n            ]\n        )\n')
_CRB_OLD = ('    branches = []\n    for ref in refs:\n        # git >= 2.40.0 reports an `origin` ref without a slash while previous versions\n        # reported a `origin/HEAD` ref.\n'
            '        if "/" in ref and not ref.endswith("/HEAD"):\n            branches.append(ref[ref.index("/") + 1 :].strip())\n    return branches\n')
_FT_OLD = ('        tags = git.tags(self.repo_dir)\n        for version in versions.variants_of(distribution_version):\n            # tags have a "v" prefix by convention.\n'
           '            tag_candidate = f"v{version}"\n            if tag_candidate in tags:\n                return tag_candidate\n        return None\n')

_UP_OLD = ('                    git.checkout(self.repo_dir, branch=branch)\n                    self.logger.info("Rebasing on [%s] in [%s] for distribution version [%s].", branch, self.repo_dir, distribution_version)\n'
           '                    try:\n                        git.rebase(self.repo_dir, remote="origin", branch=branch)\n                        self.revision = git.head_revision(self.repo_dir)\n'
           '                    except exceptions.SupplyError:\n                        self.logger.exception("Cannot rebase due to local changes in [%s]", self.repo_dir)\n'
           '                        console.warn(\n                            "Local changes in [%s] prevent %s update from remote. Please commit your changes."\n'
           '                            % (self.repo_dir, self.resource_name)\n                        )\n                    return\n')
_UP_HELPER = ('    def _checkout_and_rebase(self, ref, distribution_version):\n        git.checkout(self.repo_dir, branch=ref)\n'
              '        self.logger.info("Rebasing on [%s] in [%s] for distribution version [%s].", ref, self.repo_dir, distribution_version)\n        try:\n'
              '            git.rebase(self.repo_dir, remote="origin", branch=ref)\n            self.revision = git.head_revision(self.repo_dir)\n        except exceptions.SupplyError:\n'
              '            self.logger.exception("Cannot rebase due to local changes in [%s]", self.repo_dir)\n\n    def _find_matching_tag(self, distribution_version):\n')

_LOCAL_OLD = ('                if git.current_branch(self.repo_dir) != branch:\n                    self.logger.info(\n'
              '                        "Checking out [%s] in [%s] for distribution version [%s].", branch, self.repo_dir, distribution_version\n                    )\n'
              '                    git.checkout(self.repo_dir, branch=branch)\n                    self.revision = git.head_revision(self.repo_dir)\n')
_TAG_OLD = ('                    self.logger.info(\n                        "Checking out tag [%s] in [%s] for distribution version [%s].", tag, self.repo_dir, distribution_version\n                    )\n'
            '                    git.checkout(self.repo_dir, branch=tag)\n                    self.revision = git.head_revision(self.repo_dir)\n')
_SWITCH = ('    def _switch_to(self, ref, distribution_version):\n        self.logger.info("Checking out [%s] in [%s] for distribution version [%s].", ref, self.repo_dir, distribution_version)\n'
           '        git.checkout(self.repo_dir, branch=ref)\n        self.revision = git.head_revision(self.repo_dir)\n\n    def _find_matching_tag(self, distribution_version):\n')

# typed data model (benign round 2, b8): records as NamedTuple / namedtuple / dataclass, kinds as an enumeration, helpers of functools / operator
_IMP_OLD = "import re\n"
_VVCLS_OLD = "\n\nclass VersionVariants:\n"
_VO_OLD = "    for v, _ in VersionVariants(version).all_versions:\n        yield v\n"
_VO_NT = "    for variant in VersionVariants(version).all_versions:\n        yield variant.version\n"
_VO_DEF = "def variants_of(version):\n" + _VO_OLD + "\n\n"
# b10 shape: the variants helper of versions.py inlined into the tag search (candidates straight from VersionVariants(...).all_versions, first existing one through next())
_FT_INLINED = ('        tags = git.tags(self.repo_dir)\n        variants = versions.VersionVariants(distribution_version)\n'
               '        tag_candidates = [f"v{version}" for version, _ in variants.all_versions]\n        return next((tag for tag in tag_candidates if tag in tags), None)\n')
_LOOP_OLD = ('        for version, version_type in versions.all_versions:\n            if version in available_alternatives:\n                return version\n'
             '            # match nearest prior minor\n            if version_type == "with_minor" and (latest_minor := latest_bounded_minor(available_alternatives, versions)) is not None:\n')
_NT_CLS = 'class VersionVariant(NamedTuple):\n    """a variant of a version and its kind"""\n\n    version: str\n    version_type: str\n'
_ENUM_CLS = ('class VersionType(Enum):\n    WITH_SUFFIX = "with_suffix"\n    WITH_PATCH = "with_patch"\n    WITH_MINOR = "with_minor"\n    WITH_MAJOR = "with_major"\n')
_DC_HELPER = ('    parsed = [_Branch(*components(a, strict=False)) for a in alternatives if is_version_identifier(a, strict=False)]\n'
              '    eligible_minors = [b.minor for b in parsed if b.is_minor_branch and b.major == target_version.major and b.minor <= target_version.minor]\n'
              '    return max(eligible_minors, default=None)\n\n\n'
              '@dataclasses.dataclass(frozen=True)\nclass _Branch:\n    major: int\n    minor: Optional[int] = None\n    patch: Optional[int] = None\n    suffix: Optional[str] = None\n\n'
              '    @property\n    def is_minor_branch(self) -> bool:\n        return self.minor is not None and self.patch is None and self.suffix is None\n')
_FP_HELPER = ('    parts = (components(a, strict=False) for a in alternatives if is_version_identifier(a, strict=False))\n'
              '    minors = sorted(map(operator.itemgetter(1), filter(functools.partial(_eligible, target_version), parts)), reverse=True)\n    return next(iter(minors), None)\n\n\n'
              'def _eligible(target_version, parts):\n    major, minor, patch, suffix = parts\n'
              '    return patch is None and suffix is None and minor is not None and major == target_version.major and minor <= target_version.minor\n')

# ---- update() / git.py refactorings the value-decided O15.4 accepts (round 3): the whole method is replaced (regex anchor: from its `def` to the next method)
_UP_RX = r"    def update\(self, distribution_version\):\n.*?(?=    def _find_matching_tag\(self)"
_UP_TAIL = ('        except exceptions.SupplyError as e:\n            tb = sys.exc_info()[2]\n'
            '            raise exceptions.DataError("Cannot update %s in [%s] (%s)." % (self.resource_name, self.repo_dir, e.message)).with_traceback(tb)\n\n')
_UP_REMOTE = ('        self.logger.info("Checking out [%s] in [%s] for distribution version [%s].", branch, self.repo_dir, distribution_version)\n'
              '        git.checkout(self.repo_dir, branch=branch)\n        self.logger.info("Rebasing on [%s] in [%s] for distribution version [%s].", branch, self.repo_dir, distribution_version)\n'
              '        try:\n            git.rebase(self.repo_dir, remote="origin", branch=branch)\n            self.revision = git.head_revision(self.repo_dir)\n'
              '        except exceptions.SupplyError:\n            self.logger.exception("Cannot rebase due to local changes in [%s]", self.repo_dir)\n'
              '            console.warn("Local changes in [%s] prevent %s update from remote. Please commit your changes." % (self.repo_dir, self.resource_name))\n')
_UP_SPLIT = ('    def update(self, distribution_version):\n        try:\n            if self.remote and self._update_from_remote(distribution_version):\n                return\n'
             '            self._update_from_local(distribution_version)\n' + _UP_TAIL +
             '    def _update_from_remote(self, distribution_version):\n        branch = versions.best_match(git.branches(self.repo_dir, remote=self.remote), distribution_version)\n'
             '        if not branch:\n            self.logger.warning("Could not find %s remotely for distribution version [%s].", self.resource_name, distribution_version)\n            return False\n'
             + _UP_REMOTE + '        return True\n\n'
             '    def _update_from_local(self, distribution_version):\n        local_branches = git.branches(self.repo_dir, remote=False)\n'
             '        branch = versions.best_match(local_branches, distribution_version)\n        if branch == "master" and self.remote:\n'
             '            known = local_branches + git.branches(self.repo_dir, remote=self.remote)\n            if versions.best_match(known, distribution_version) != "master":\n'
             '                branch = None\n'
             '        if branch:\n            if git.current_branch(self.repo_dir) != branch:\n                git.checkout(self.repo_dir, branch=branch)\n'
             '                self.revision = git.head_revision(self.repo_dir)\n            return\n        tag = self._find_matching_tag(distribution_version)\n        if not tag:\n'
             '            raise exceptions.SystemSetupError("Cannot find %s for distribution version %s" % (self.resource_name, distribution_version))\n'
             '        git.checkout(self.repo_dir, branch=tag)\n        self.revision = git.head_revision(self.repo_dir)\n\n')
_UP_GUARDS = ('    def update(self, distribution_version):\n        try:\n            remote_branches = []\n            if self.remote:\n'
              '                remote_branches = git.branches(self.repo_dir, remote=self.remote)\n'
              '                branch = versions.best_match(remote_branches, distribution_version)\n                if branch:\n'
              + "".join("            " + l + "\n" for l in _UP_REMOTE.split("\n")[:-1]) + '                    return\n'
              '                self.logger.warning("Could not find %s remotely for distribution version [%s].", self.resource_name, distribution_version)\n'
              '            local_branches = git.branches(self.repo_dir, remote=False)\n            ref = versions.best_match(local_branches, distribution_version)\n'
              '            if ref == "master" and versions.best_match(local_branches + remote_branches, distribution_version) != "master":\n                ref = None\n'
              '            if ref and git.current_branch(self.repo_dir) == ref:\n                return\n            if not ref:\n                ref = self._find_matching_tag(distribution_version)\n'
              '            if not ref:\n                raise exceptions.SystemSetupError("Cannot find %s for distribution version %s" % (self.resource_name, distribution_version))\n'
              '            self.logger.info("Checking out [%s] in [%s] for distribution version [%s].", ref, self.repo_dir, distribution_version)\n'
              '            git.checkout(self.repo_dir, branch=ref)\n            self.revision = git.head_revision(self.repo_dir)\n' + _UP_TAIL)
_BB_HELPER = ('    def _best_branch(self, distribution_version, remote):\n        return versions.best_match(git.branches(self.repo_dir, remote=remote), distribution_version)\n\n'
              '    def _find_matching_tag(self, distribution_version):\n')
_GIT_RUN = 'def _run(src_dir, command):\n    return process.run_subprocess_with_logging(f"git -C {io.escape_path(src_dir)} {command}")\n\n\ndef is_working_copy(src):'
_GIT_SITES = [('process.run_subprocess_with_logging(f"git -C {io.escape_path(src)} fetch --prune --tags {remote}")', '_run(src, f"fetch --prune --tags {remote}")'),
              ('process.run_subprocess_with_logging(f"git -C {io.escape_path(src_dir)} checkout {branch}")', '_run(src_dir, f"checkout {branch}")'),
              ('process.run_subprocess_with_logging(f"git -C {io.escape_path(src_dir)} rebase {remote}/{branch}")', '_run(src_dir, f"rebase {remote}/{branch}")'),
              ('process.run_subprocess_with_logging(f"git -C {io.escape_path(src_dir)} checkout {revision}")', '_run(src_dir, f"checkout {revision}")')]

_PAT_OLD = 'VERSIONS_OPTIONAL = re.compile(r"^(\\d+)(?:\\.(\\d+)(?:\\.(\\d+)(?:-(.+))?)?)?$")'
_COMP_OLD = ('        if matches.start(4) > 0:\n            return int(matches.group(1)), int(matches.group(2)), int(matches.group(3)), matches.group(4)\n'
             '        elif matches.start(3) > 0:\n            return int(matches.group(1)), int(matches.group(2)), int(matches.group(3)), None\n'
             '        elif matches.start(2) > 0:\n            return int(matches.group(1)), int(matches.group(2)), None, None\n'
             '        elif matches.start(1) > 0:\n            return int(matches.group(1)), None, None, None\n        else:\n            return int(version), None, None, None\n')
_COMP_GROUPS = ('        major, minor, patch, suffix = matches.groups()\n'
                '        return int(major), (int(minor) if minor is not None else None), (int(patch) if patch is not None else None), suffix\n')


_F59_OLD = ('            if branch == "master" and versions.best_match(list(local_branches) + list(remote_branches), distribution_version) != "master":\n'
            '                branch = None\n')


def _whole_update(name, kind, rule, new):
    assert "\\" not in new
    return V(name, kind, _P, _UP_RX, new, rule, regex=True)


def _git_helper(name, kind, rule, helper=_GIT_RUN, sites=None):
    edits = [("def is_working_copy(src):", helper)] + (sites or _GIT_SITES)
    return [V(name if i == 0 else "", kind, _G, old, new, rule if i == 0 else None) for i, (old, new) in enumerate(edits)]


def _av_new(ctor, kinds=('"with_suffix"', '"with_patch"', '"with_minor"', '"with_major"')):
    return (f'        versions = [{ctor}(self.with_suffix, {kinds[0]})] if self.suffix else []\n        versions.extend(\n            [\n                {ctor}(self.with_patch, {kinds[1]}),\n'
            f'                {ctor}(self.with_minor, {kinds[2]}),\n                {ctor}(self.with_major, {kinds[3]}),\n            ]\n        )\n')


def _loop_new(test):
    return ('        for variant in versions.all_versions:\n            if variant.version in available_alternatives:\n                return variant.version\n'
            f'            if (\n                {test}\n                and (latest_minor := latest_bounded_minor(available_alternatives, versions)) is not None\n            ):\n')


_EK = ("VersionType.WITH_SUFFIX", "VersionType.WITH_PATCH", "VersionType.WITH_MINOR", "VersionType.WITH_MAJOR")


def _typed(name, kind, rule, imp, decl, av, loop=None, vo=None):
    """one multi-edit variant of versions.py: import line, declaration(s) in front of VersionVariants, all_versions body, matcher loop, variants_of body."""
    edits = [(_IMP_OLD, _IMP_OLD + imp), (_VVCLS_OLD, "\n\n" + decl + _VVCLS_OLD), (_AV_OLD, av)] + ([(_LOOP_OLD, loop)] if loop else []) + ([(_VO_OLD, vo)] if vo else [])
    return [V(name if i == 0 else "", kind, _V, old, new, rule if i == 0 else None) for i, (old, new) in enumerate(edits)]


VARIANTS = [
    V("F21: every part of the lenient pattern independently optional", "break", _V, '(?:\\.(\\d+)(?:\\.(\\d+)(?:-(.+))?)?)?$")', '(?:\\.(\\d+))?(?:\\.(\\d+))?(?:-(.+))?$")', "O15.3"),
    V("F22: master returned without a membership test", "break", _V, ' and "master" in available_alternatives:', ":", "O15.3"),
    V("F22 fix with the operands swapped", "keep", _V, 'if major > _latest_major(available_alternatives) and "master" in available_alternatives:', 'if "master" in available_alternatives and _latest_major(available_alternatives) < major:', "O15.3"),
    V("F5a: truthiness on minor in eligibility", "break", _V, "            if major == target_version.major and minor is not None and minor <= target_version.minor:", "            if major == target_version.major and minor and minor <= target_version.minor:", "O15."),
    V("F5b / seed m1: truthiness on the walrus result", "break", _V, "(latest_minor := latest_bounded_minor(available_alternatives, versions)) is not None:", "(latest_minor := latest_bounded_minor(available_alternatives, versions)):", "O15.2"),
    V("variants list reversed", "break", _V, "        return versions\n\n\ndef best_match", "        return list(reversed(versions))\n\n\ndef best_match", "O15.1"),
    V("major before minor in variants", "break", _V, "                (self.with_minor, \"with_minor\"),\n                (self.with_major, \"with_major\"),", "                (self.with_major, \"with_major\"),\n                (self.with_minor, \"with_minor\"),", "O15.1"),
    V("eligibility ignores major", "break", _V, "            if major == target_version.major and minor is not None and minor <= target_version.minor:", "            if minor is not None and minor <= target_version.minor:", "O15.3"),
    V("later minors eligible", "break", _V, "minor is not None and minor <= target_version.minor:", "minor is not None:", "O15.3"),
    V("patch branches eligible", "break", _V, "            if patch is not None or suffix is not None:", "            if suffix is not None:", "O15.3"),
    V("master on >=", "break", _V, "        if major > _latest_major(available_alternatives) and", "        if major >= _latest_major(available_alternatives) and", "O15.3"),
    V("nearest = min", "break", _V, "    return min(eligible_minors, key=lambda x: abs(x - target_version.minor))", "    return min(eligible_minors)", "O15.3"),
    V("seed m2: remote ref split on last slash", "break", _G, "            branches.append(ref[ref.index(\"/\") + 1 :].strip())", "            branches.append(ref.split(\"/\")[-1].strip())", "O15.4"),
    V("seed m3: checkout inside the rebase try", "break", _P, "                    git.checkout(self.repo_dir, branch=branch)\n                    self.logger.info(\"Rebasing on [%s] in [%s] for distribution version [%s].\", branch, self.repo_dir, distribution_version)\n                    try:\n",
      "                    self.logger.info(\"Rebasing on [%s] in [%s] for distribution version [%s].\", branch, self.repo_dir, distribution_version)\n                    try:\n                        git.checkout(self.repo_dir, branch=branch)\n", "O15.4"),
    V("tags before local branches", "break", _P, "            branch = versions.best_match(local_branches, distribution_version)\n", "            branch = None\n", "O15.4"),
    V("checks out the current branch name", "break", _P, "                    git.checkout(self.repo_dir, branch=tag)", "                    git.checkout(self.repo_dir, branch=distribution_version)", "O15.4"),
    # ---- refactored shapes (benign round): the value-decided obligations accept them, and still bite when the defect sits INSIDE the refactored shape
    V("b2 shape: _latest_major as generator + max(default=-1)", "keep", _V, _LM_OLD,
      "def _latest_major(alternatives):\n    majors = (components(a, strict=False)[0] for a in alternatives if is_version_identifier(a, strict=False))\n    return max(majors, default=-1)\n"),
    V("generator _latest_major that skips patch / suffix branches", "break", _V, _LM_OLD,
      "def _latest_major(alternatives):\n    parsed = [components(a, strict=False) for a in alternatives if is_version_identifier(a, strict=False)]\n"
      "    return max((c[0] for c in parsed if c[2] is None), default=-1)\n", "O15.3"),
    V("_latest_major from the lexicographically greatest branch name", "break", _V, _LM_OLD,
      "def _latest_major(alternatives):\n    versioned = sorted(a for a in alternatives if is_version_identifier(a, strict=False))\n"
      "    return components(versioned[-1], strict=False)[0] if versioned else -1\n", "O15.3"),
    V("b2 shape: guard clauses in best_match, serverless / empty merged into one test", "keep", _V, _BM_OLD, _BM_GUARD),
    V("guard-clause best_match: master on >=", "break", _V, _BM_OLD, _BM_GUARD.replace("if major > _latest_major", "if major >= _latest_major"), "O15.3"),
    V("guard-clause best_match: master for every non-version string", "break", _V, _BM_OLD, _BM_GUARD.replace("or not distribution_version:", "or distribution_version:"), "O15.3"),
    V("guard-clause best_match: fallback tried at every step", "break", _V, _BM_OLD, _BM_GUARD.replace('version_type == "with_minor" and ', ""), "O15.1"),
    V("b4 shape: membership tests on a frozenset of the alternatives", "keep", _V, _BM_OLD,
      _BM_OLD.replace("in available_alternatives", "in alternatives").replace("(available_alternatives", "(alternatives")
      .replace("        versions = VersionVariants(distribution_version)\n", "        alternatives = frozenset(available_alternatives)\n        versions = VersionVariants(distribution_version)\n")),
    V("variants loop behind a generator helper + next()", "keep", _V, _BM_OLD,
      _BM_OLD.replace('        for version, version_type in versions.all_versions:\n            if version in available_alternatives:\n                return version\n'
                      '            # match nearest prior minor\n            if version_type == "with_minor" and (latest_minor := latest_bounded_minor(available_alternatives, versions)) is not None:\n'
                      '                return f"{versions.major}.{latest_minor}"\n',
                      '        found = next((c for c in _candidates(available_alternatives, versions) if c is not None), None)\n        if found is not None:\n            return found\n')
      + '\n\ndef _candidates(alternatives, variants):\n    for variant, kind in variants.all_versions:\n        yield variant if variant in alternatives else None\n'
        '        if kind == "with_minor":\n            nearest = latest_bounded_minor(alternatives, variants)\n            yield f"{variants.major}.{nearest}" if nearest is not None else None\n'),
    V("eligibility in an extracted helper, search as comprehension + max(default=None)", "keep", _V, _LB_OLD, _LB_HELPER),
    V("extracted eligibility helper tests the minor by truthiness", "break", _V, _LB_OLD, _LB_HELPER.replace("or minor is None:", "or not minor:"), "O15."),
    V("extracted eligibility helper accepts lower majors", "break", _V, _LB_OLD, _LB_HELPER.replace("major == target_version.major", "major <= target_version.major"), "O15.3"),
    V("comprehension search returns the FIRST eligible minor", "break", _V, _LB_OLD, _LB_HELPER.replace("return max(eligible_minors, default=None)", "return eligible_minors[0] if eligible_minors else None"), "O15.3"),
    V("all_versions: suffix variant inserted in front under a guard", "keep", _V, _AV_OLD,
      '        versions = [(self.with_patch, "with_patch"), (self.with_minor, "with_minor"), (self.with_major, "with_major")]\n        if self.suffix:\n'
      '            versions.insert(0, (self.with_suffix, "with_suffix"))\n'),
    V("all_versions: suffix variant appended LAST under a guard", "break", _V, _AV_OLD,
      '        versions = [(self.with_patch, "with_patch"), (self.with_minor, "with_minor"), (self.with_major, "with_major")]\n        if self.suffix:\n'
      '            versions.append((self.with_suffix, "with_suffix"))\n', "O15.1"),
    V("with_minor built without the dot", "break", _V, 'self.with_minor = f"{int(self.major)}.{int(self.minor)}"', 'self.with_minor = f"{int(self.major)}{int(self.minor)}"', "O15.1"),
    V("remote ref clean-up as a comprehension with split('/', 1)", "keep", _G, _CRB_OLD,
      '    return [ref.split("/", 1)[1].strip() for ref in refs if "/" in ref and not ref.endswith("/HEAD")]\n'),
    V("comprehension clean-up splits on the LAST slash", "break", _G, _CRB_OLD,
      '    return [ref.rsplit("/", 1)[1].strip() for ref in refs if "/" in ref and not ref.endswith("/HEAD")]\n', "O15.4"),
    [V("b3 / b4 shape: tag prefix as a module constant, tags in a set, search as next()", "keep", _P, _FT_OLD,
       '        tags = set(git.tags(self.repo_dir))\n        return next((f"{TAG_PREFIX}{v}" for v in versions.variants_of(distribution_version) if f"{TAG_PREFIX}{v}" in tags), None)\n'),
     V("", "keep", _P, "\n\nclass RallyRepository:", '\n\nTAG_PREFIX = "v"\n\n\nclass RallyRepository:')],
    V("next()-shaped tag search without the v prefix", "break", _P, _FT_OLD,
      '        tags = set(git.tags(self.repo_dir))\n        return next((v for v in versions.variants_of(distribution_version) if v in tags), None)\n', "O15.4"),
    V("tag search prefers the LEAST specific tag", "break", _P, "        for version in versions.variants_of(distribution_version):", "        for version in reversed(list(versions.variants_of(distribution_version))):", "O15.4"),
    # ---- benign round 4: the variants helper is not required to exist under its name - what the tag search reads from versions.py is evaluated from versions.py
    [V("b10 shape: variants_of inlined into the tag search (VersionVariants(...).all_versions + next()), the helper removed", "keep", _P, _FT_OLD, _FT_INLINED),
     V("", "keep", _V, _VO_DEF, "")],
    [V("inlined tag search walks all_versions backwards (least specific tag wins)", "break", _P, _FT_OLD, _FT_INLINED.replace("in variants.all_versions]", "in reversed(variants.all_versions)]"), "O15.4"),
     V("", "break", _V, _VO_DEF, "")],
    [V("inlined tag search takes the kind instead of the variant from the all_versions pairs", "break", _P, _FT_OLD, _FT_INLINED.replace("for version, _ in", "for _, version in"), "O15.4"),
     V("", "break", _V, _VO_DEF, "")],
    [V("inlined tag search skips the most specific variant (all_versions[1:])", "break", _P, _FT_OLD, _FT_INLINED.replace("in variants.all_versions]", "in variants.all_versions[1:]]"), "O15.4"),
     V("", "break", _V, _VO_DEF, "")],
    [V("inlined tag search, VersionVariants imported by name (from esrally.utils.versions import VersionVariants)", "keep", _P, _FT_OLD, _FT_INLINED.replace("versions.VersionVariants(", "VersionVariants(")),
     V("", "keep", _P, "from esrally.utils import console, git, io, versions\n", "from esrally.utils import console, git, io, versions\nfrom esrally.utils.versions import VersionVariants\n"),
     V("", "keep", _V, _VO_DEF, "")],
    [V("variants helper renamed consistently (variants_of -> version_variants)", "keep", _P, "versions.variants_of(distribution_version)", "versions.version_variants(distribution_version)"),
     V("", "keep", _V, "def variants_of(version):\n", "def version_variants(version):\n")],
    [V("renamed variants helper yields the variants least specific first", "break", _P, "versions.variants_of(distribution_version)", "versions.version_variants(distribution_version)", "O15.4"),
     V("", "break", _V, _VO_DEF, "def version_variants(version):\n    for v, _ in reversed(VersionVariants(version).all_versions):\n        yield v\n\n\n")],
    V("current branch held in a local before the comparison", "keep", _P, "                if git.current_branch(self.repo_dir) != branch:",
      "                current = git.current_branch(self.repo_dir)\n                if current != branch:"),
    V("local holding the current branch compared by prefix", "break", _P, "                if git.current_branch(self.repo_dir) != branch:",
      "                current = git.current_branch(self.repo_dir)\n                if not current.startswith(branch):", "O15.4"),
    [V("b1 shape: remote checkout + rebase in a helper method", "keep", _P, _UP_OLD, "                    self._checkout_and_rebase(branch, distribution_version)\n                    return\n"),
     V("", "keep", _P, "    def _find_matching_tag(self, distribution_version):\n", _UP_HELPER)],
    [V("helper method checks out inside the rebase try", "break", _P, _UP_OLD, "                    self._checkout_and_rebase(branch, distribution_version)\n                    return\n", "O15.4"),
     V("", "break", _P, "    def _find_matching_tag(self, distribution_version):\n",
       _UP_HELPER.replace("        git.checkout(self.repo_dir, branch=ref)\n", "").replace("        try:\n", "        try:\n            git.checkout(self.repo_dir, branch=ref)\n"))],
    [V("helper method is handed the version instead of the matched branch", "break", _P, _UP_OLD, "                    self._checkout_and_rebase(distribution_version, distribution_version)\n                    return\n", "O15.4"),
     V("", "break", _P, "    def _find_matching_tag(self, distribution_version):\n", _UP_HELPER)],
    [V("call of the checkout helper wrapped in a handler that only logs", "break", _P, _UP_OLD,
       "                    try:\n                        self._checkout_and_rebase(branch, distribution_version)\n                    except exceptions.SupplyError:\n"
       "                        self.logger.exception(\"Could not check out [%s]\", branch)\n                    return\n", "O15.4"),
     V("", "break", _P, "    def _find_matching_tag(self, distribution_version):\n", _UP_HELPER)],
    V("_latest_major: EAFP (try components / except InvalidSyntax: continue)", "keep", _V, _LM_OLD,
      "def _latest_major(alternatives):\n    max_major = -1\n    for a in alternatives:\n        try:\n            major = components(a, strict=False)[0]\n"
      "        except exceptions.InvalidSyntax:\n            continue\n        max_major = max(major, max_major)\n    return max_major\n"),
    V("EAFP _latest_major parses strictly (M and M.m branches are skipped)", "break", _V, _LM_OLD,
      "def _latest_major(alternatives):\n    max_major = -1\n    for a in alternatives:\n        try:\n            major = components(a)[0]\n"
      "        except exceptions.InvalidSyntax:\n            continue\n        max_major = max(major, max_major)\n    return max_major\n", "O15.3"),
    V("patch / suffix tested by truthiness (8.3.0 counts as the minor branch 8.3)", "break", _V, "            if patch is not None or suffix is not None:", "            if patch or suffix:", "O15.3"),
    [V("local / tag checkout + revision in one helper method", "keep", _P, _LOCAL_OLD,
       "                if git.current_branch(self.repo_dir) != branch:\n                    self._switch_to(branch, distribution_version)\n"),
     V("", "keep", _P, _TAG_OLD, "                    self._switch_to(tag, distribution_version)\n"),
     V("", "keep", _P, "    def _find_matching_tag(self, distribution_version):\n", _SWITCH)],
    [V("switch helper records the revision BEFORE the checkout", "break", _P, _LOCAL_OLD,
       "                if git.current_branch(self.repo_dir) != branch:\n                    self._switch_to(branch, distribution_version)\n", "O15.4"),
     V("", "break", _P, _TAG_OLD, "                    self._switch_to(tag, distribution_version)\n"),
     V("", "break", _P, "    def _find_matching_tag(self, distribution_version):\n",
       _SWITCH.replace("        git.checkout(self.repo_dir, branch=ref)\n        self.revision = git.head_revision(self.repo_dir)\n",
                       "        self.revision = git.head_revision(self.repo_dir)\n        git.checkout(self.repo_dir, branch=ref)\n"))],
    [V("switch helper compared by suffix at its call site", "break", _P, _LOCAL_OLD,
       "                if not git.current_branch(self.repo_dir).endswith(branch):\n                    self._switch_to(branch, distribution_version)\n", "O15.4"),
     V("", "break", _P, _TAG_OLD, "                    self._switch_to(tag, distribution_version)\n"),
     V("", "break", _P, "    def _find_matching_tag(self, distribution_version):\n", _SWITCH)],
    V("tag checkout does not record the revision", "break", _P, _TAG_OLD, _TAG_OLD.replace("                    self.revision = git.head_revision(self.repo_dir)\n", ""), "O15.4"),
    V("tag bound in its test (walrus)", "keep", _P,
      "                tag = self._find_matching_tag(distribution_version)\n                if tag:\n",
      "                if tag := self._find_matching_tag(distribution_version):\n"),
    V("remote flag attribute renamed consistently", "keep", _P, "self.remote", "self.has_remote", count=4),
    V("remote search not guarded by the remote flag", "break", _P, "            if self.remote:\n                remote_branches = git.branches(", "            if not self.offline:\n                remote_branches = git.branches(", "O15.4"),
    # ---- typed data model (benign round 2): the evaluator maps NamedTuple / namedtuple / Enum / dataclass declarations to the real types
    _typed("b8 shape: all_versions yields NamedTuple records, consumers read the fields by name", "keep", None, "from typing import NamedTuple\n", _NT_CLS,
           _av_new("VersionVariant"), _loop_new('variant.version_type == "with_minor"'), _VO_NT),
    _typed("NamedTuple records: minor variant labelled with_major and vice versa (fallback after the major test)", "break", "O15.1", "from typing import NamedTuple\n", _NT_CLS,
           _av_new("VersionVariant", ('"with_suffix"', '"with_patch"', '"with_major"', '"with_minor"')), _loop_new('variant.version_type == "with_minor"'), _VO_NT),
    _typed("NamedTuple records: matcher returns the kind field instead of the variant", "break", "O15.1", "from typing import NamedTuple\n", _NT_CLS,
           _av_new("VersionVariant"), _loop_new('variant.version_type == "with_minor"').replace("return variant.version\n", "return variant.version_type\n"), _VO_NT),
    _typed("records from collections.namedtuple (functional form)", "keep", None, "from collections import namedtuple\n",
           'VersionVariant = namedtuple("VersionVariant", ["version", "version_type"])\n', _av_new("VersionVariant"), _loop_new('variant.version_type == "with_minor"'), _VO_NT),
    _typed("kinds as members of a plain Enum, compared by identity", "keep", None, "from enum import Enum\n", _ENUM_CLS, _av_new("", _EK),
           _LOOP_OLD.replace('version_type == "with_minor"', "version_type is VersionType.WITH_MINOR")),
    _typed("Enum kinds: fallback tied to the WITH_MAJOR member", "break", "O15.1", "from enum import Enum\n", _ENUM_CLS, _av_new("", _EK),
           _LOOP_OLD.replace('version_type == "with_minor"', "version_type is VersionType.WITH_MAJOR")),
    _typed("plain Enum kinds still compared with the raw string (a member is not its value: the fallback never applies)", "break", "O15.1", "from enum import Enum\n", _ENUM_CLS, _av_new("", _EK)),
    _typed("str-mixin Enum kinds compared with the raw string", "keep", None, "from enum import Enum\n", _ENUM_CLS.replace("(Enum)", "(str, Enum)"), _av_new("", _EK)),
    [V("parsed branches as frozen dataclass records with an is_minor_branch property", "keep", _V, _IMP_OLD, _IMP_OLD + "import dataclasses\nfrom typing import Optional\n"),
     V("", "keep", _V, _LB_OLD, _DC_HELPER)],
    [V("dataclass records: is_minor_branch tests the minor by truthiness", "break", _V, _IMP_OLD, _IMP_OLD + "import dataclasses\nfrom typing import Optional\n", "O15."),
     V("", "break", _V, _LB_OLD, _DC_HELPER.replace("return self.minor is not None and", "return self.minor and"))],
    [V("dataclass records: components bound to the fields in the wrong order", "break", _V, _IMP_OLD, _IMP_OLD + "import dataclasses\nfrom typing import Optional\n", "O15.3"),
     V("", "break", _V, _LB_OLD, _DC_HELPER.replace("    major: int\n    minor: Optional[int] = None\n", "    minor: Optional[int]\n    major: Optional[int] = None\n"))],
    [V("search as sorted(map(itemgetter, filter(partial(...)))) + next(iter(...))", "keep", _V, _IMP_OLD, _IMP_OLD + "import operator\n"), V("", "keep", _V, _LB_OLD, _FP_HELPER)],
    [V("itemgetter / partial search sorted ascending (farthest eligible minor)", "break", _V, _IMP_OLD, _IMP_OLD + "import operator\n", "O15.3"),
     V("", "break", _V, _LB_OLD, _FP_HELPER.replace("reverse=True", "reverse=False"))],
    # ---- update() / git.py in shapes the structural rules did not follow: decided on values
    [V("both matcher calls behind one helper method (_best_branch(version, remote))", "keep", _P, "remote_branches = git.branches(self.repo_dir, remote=self.remote)\n                branch = versions.best_match(remote_branches, distribution_version)",
       "remote_branches = git.branches(self.repo_dir, remote=self.remote)\n                branch = self._best_branch(distribution_version, remote=self.remote)"),
     V("", "keep", _P, "            branch = versions.best_match(local_branches, distribution_version)\n", "            branch = self._best_branch(distribution_version, remote=False)\n"),
     V("", "keep", _P, "    def _find_matching_tag(self, distribution_version):\n", _BB_HELPER)],
    [V("matcher helper ignores its remote parameter (always the remote listing)", "break", _P, "remote_branches = git.branches(self.repo_dir, remote=self.remote)\n                branch = versions.best_match(remote_branches, distribution_version)",
       "remote_branches = git.branches(self.repo_dir, remote=self.remote)\n                branch = self._best_branch(distribution_version, remote=self.remote)", "O15.4"),
     V("", "break", _P, "            branch = versions.best_match(local_branches, distribution_version)\n", "            branch = self._best_branch(distribution_version, remote=False)\n"),
     V("", "break", _P, "    def _find_matching_tag(self, distribution_version):\n", _BB_HELPER.replace("git.branches(self.repo_dir, remote=remote)", "git.branches(self.repo_dir)"))],
    _whole_update("update() split into _update_from_remote() -> bool and _update_from_local()", "keep", None, _UP_SPLIT),
    _whole_update("split update(): the remote step reports `not done` after a successful checkout (the local match is checked out on top)", "break", "O15.4",
                  _UP_SPLIT.replace("        return True\n", "        return False\n")),
    _whole_update("split update(): the tag checkout does not record the revision", "break", "O15.4",
                  _UP_SPLIT.replace("        git.checkout(self.repo_dir, branch=tag)\n        self.revision = git.head_revision(self.repo_dir)\n", "        git.checkout(self.repo_dir, branch=tag)\n")),
    _whole_update("update() with guard clauses and ONE checkout site for the local match and the tag", "keep", None, _UP_GUARDS),
    _whole_update("guard-clause update(): already-on-branch test by prefix", "break", "O15.4", _UP_GUARDS.replace("git.current_branch(self.repo_dir) == ref:", "git.current_branch(self.repo_dir).startswith(ref):")),
    _whole_update("guard-clause update(): the tag is searched although a local branch matched", "break", "O15.4",
                  _UP_GUARDS.replace("            if not ref:\n                ref = self._find_matching_tag(distribution_version)\n",
                                     "            ref = self._find_matching_tag(distribution_version) or ref\n")),
    _whole_update("guard-clause update(): no error when nothing qualifies (returns silently)", "break", "O15.4",
                  _UP_GUARDS.replace('                raise exceptions.SystemSetupError("Cannot find %s for distribution version %s" % (self.resource_name, distribution_version))\n', "                return\n")),
    [V("update() body under a lock (`with` is not evaluated: the structural fallback decides)", "keep", _P, "    def update(self, distribution_version):\n        try:\n",
       "    def update(self, distribution_version):\n      with self._lock:\n        try:\n"),
     V("", "keep", _P, "        self.revision = None\n", "        self.revision = None\n        self._lock = threading.Lock()\n"), V("", "keep", _P, "import sys\n", "import sys\nimport threading\n")],
    [V("update() body under a lock, tag checkout without the revision (structural fallback)", "break", _P, "    def update(self, distribution_version):\n        try:\n",
       "    def update(self, distribution_version):\n      with self._lock:\n        try:\n", "O15.4"),
     V("", "break", _P, "        self.revision = None\n", "        self.revision = None\n        self._lock = threading.Lock()\n"), V("", "break", _P, "import sys\n", "import sys\nimport threading\n"),
     V("", "break", _P, _TAG_OLD, _TAG_OLD.replace("                    self.revision = git.head_revision(self.repo_dir)\n", ""))],
    V("an additional attribute keeps the head BEFORE the update (previous_revision)", "keep", _P, "    def update(self, distribution_version):\n        try:\n",
      "    def update(self, distribution_version):\n        self.previous_revision = git.head_revision(self.repo_dir)\n        try:\n"),
    _git_helper("git.py: command lines built by one helper (_run(src_dir, command))", "keep", None),
    _git_helper("git command helper interpolates the raw directory", "break", "O15.4", helper=_GIT_RUN.replace("{io.escape_path(src_dir)}", "{src_dir}")),
    _git_helper("fetch through the command helper without --prune", "break", "O15.4", sites=[(_GIT_SITES[0][0], '_run(src, f"fetch --tags {remote}")')] + _GIT_SITES[1:]),
    # ---- the regex primitives themselves, evaluated with Python's engine
    [V("lenient pattern without anchors, applied with fullmatch()", "keep", _V, _PAT_OLD, _PAT_OLD.replace('r"^', 'r"').replace('$")', '")')),
     V("", "keep", _V, "_versions_pattern(strict).match(text) is not None", "_versions_pattern(strict).fullmatch(text) is not None"),
     V("", "keep", _V, "matches = versions_pattern.match(version)", "matches = versions_pattern.fullmatch(version)")],
    V("lenient pattern loses its end anchor (still applied with match())", "break", _V, _PAT_OLD, _PAT_OLD.replace('$")', '")'), "O15.3"),
    V("pattern choice as a dict lookup", "keep", _V, "    return VERSIONS if strict else VERSIONS_OPTIONAL\n", "    return {True: VERSIONS, False: VERSIONS_OPTIONAL}[bool(strict)]\n"),
    V("pattern choice inverted (branch names parsed strictly, versions leniently)", "break", _V, "    return VERSIONS if strict else VERSIONS_OPTIONAL\n", "    return VERSIONS_OPTIONAL if strict else VERSIONS\n", "O15.3"),
    V("components() from matches.groups()", "keep", _V, _COMP_OLD, _COMP_GROUPS),
    V("components() from groups(): a '.0' minor becomes None (`int(minor) or None`)", "break", _V, _COMP_OLD, _COMP_GROUPS.replace("(int(minor) if minor", "(int(minor) or None if minor"), "O15.3"),
    # ---- O15.5: a lookup does not depend on the lookups made before it in the same process (memoised single-use values, module / class level state, default arguments)
    V("seed m13: variants_of (a generator function) under functools.lru_cache: the cached generator is exhausted by the first lookup of a version", "break", _V,
      "def variants_of(version):\n", "@functools.lru_cache(maxsize=128)\ndef variants_of(version):\n", "O15.5"),
    V("variants_of hands out a generator expression kept in a module-level dict per version", "break", _V, _VO_DEF,
      "_VARIANTS = {}\n\n\ndef variants_of(version):\n    if version not in _VARIANTS:\n        _VARIANTS[version] = (v for v, _ in VersionVariants(version).all_versions)\n"
      "    return _VARIANTS[version]\n\n\n", "O15.5"),
    [V("memoised VersionVariants factory + all_versions as a cached_property holding a lazy zip: the variants of a version can be walked once per process", "break", _V,
       "        versions = VersionVariants(distribution_version)\n", "        versions = _variants(distribution_version)\n", "O15.5"),
     V("", "break", _V, "    @property\n    def all_versions(self):", "    @functools.cached_property\n    def all_versions(self):"),
     V("", "break", _V, "        return versions\n\n\ndef best_match", "        return zip([v for v, _ in versions], [k for _, k in versions])\n\n\n@functools.lru_cache(maxsize=None)\n"
       "def _variants(version):\n    return VersionVariants(version)\n\n\ndef best_match")],
    V("extracted search helper collects the eligible minors in a mutable default argument (they accumulate over the lookups of a process)", "break", _V, _LB_OLD, _LB_DEFAULT, "O15.5"),
    V("extracted search helper with a None default replaced by a new list per call", "keep", _V, _LB_OLD,
      _LB_DEFAULT.replace("found=[]):\n", "found=None):\n    found = [] if found is None else found\n")),
    [V("tag search result kept in a class-level dict keyed by the version only (teams and tracks repository share it)", "break", _P, _FT_OLD,
       '        if distribution_version not in self._known_tags:\n            tags = git.tags(self.repo_dir)\n'
       '            self._known_tags[distribution_version] = next((f"v{v}" for v in versions.variants_of(distribution_version) if f"v{v}" in tags), None)\n'
       '        return self._known_tags[distribution_version]\n', "O15.5"),
     V("", "break", _P, '    Manages Rally resources (e.g. teams or tracks).\n    """\n', '    Manages Rally resources (e.g. teams or tracks).\n    """\n\n    _known_tags = {}\n')],
    [V("update() skipped for a version this process has updated before (class-level set shared by every repository object)", "break", _P,
       "    def update(self, distribution_version):\n        try:\n",
       "    def update(self, distribution_version):\n        if distribution_version in self._updated:\n            return\n        self._updated.add(distribution_version)\n        try:\n", "O15.5"),
     V("", "break", _P, '    Manages Rally resources (e.g. teams or tracks).\n    """\n', '    Manages Rally resources (e.g. teams or tracks).\n    """\n\n    _updated = set()\n')],
    V("variants_of memoised but returning a tuple (re-iterable, immutable)", "keep", _V, _VO_DEF,
      "@functools.lru_cache(maxsize=128)\ndef variants_of(version):\n    return tuple(v for v, _ in VersionVariants(version).all_versions)\n\n\n"),
    V("variants_of returns a fresh generator expression per call (not memoised)", "keep", _V, _VO_OLD, "    return (v for v, _ in VersionVariants(version).all_versions)\n"),
    V("variants_of keeps a LIST per version in a module-level dict", "keep", _V, _VO_DEF,
      "_VARIANTS = {}\n\n\ndef variants_of(version):\n    if version not in _VARIANTS:\n        _VARIANTS[version] = [v for v, _ in VersionVariants(version).all_versions]\n"
      "    return _VARIANTS[version]\n\n\n"),
    [V("memoised VersionVariants factory + all_versions as a cached_property holding the list", "keep", _V,
       "        versions = VersionVariants(distribution_version)\n", "        versions = _variants(distribution_version)\n"),
     V("", "keep", _V, "    @property\n    def all_versions(self):", "    @functools.cached_property\n    def all_versions(self):"),
     V("", "keep", _V, "        return versions\n\n\ndef best_match", "        return versions\n\n\n@functools.lru_cache(maxsize=None)\ndef _variants(version):\n    return VersionVariants(version)\n\n\ndef best_match")],
    [V("bounded-minor search memoised, its caller hands it a tuple of the branches (the rule hands its own lists in directly: not a verdict on the callers)", "keep", _V,
       "latest_bounded_minor(available_alternatives, versions)", "latest_bounded_minor(tuple(available_alternatives), versions)"),
     V("", "keep", _V, "def latest_bounded_minor(alternatives, target_version):", "@functools.lru_cache(maxsize=64)\ndef latest_bounded_minor(alternatives, target_version):")],
    V("_latest_major memoised although the matcher hands it the branch LIST (TypeError: unhashable on every master decision)", "break", _V,
      "def _latest_major(alternatives):", "@functools.lru_cache(maxsize=64)\ndef _latest_major(alternatives):", "O15.3"),
    [V("tag search result kept per repository OBJECT and version (instance attribute set in the tag search)", "keep", _P, _FT_OLD,
       '        tags = git.tags(self.repo_dir)\n        self.last_tag = next((f"v{v}" for v in versions.variants_of(distribution_version) if f"v{v}" in tags), None)\n'
       '        return self.last_tag\n')],
    # ---- a remote branch matched and was checked out: a refused rebase on origin (local changes, only warned about) does not reopen the search among local branches / tags
    V("seed m17: `return` moved into the rebase try (a refused rebase falls through to the LOCAL branch lookup)", "break", _P, _UP_OLD,
      _UP_OLD.replace("                        self.revision = git.head_revision(self.repo_dir)\n", "                        self.revision = git.head_revision(self.repo_dir)\n                        return\n")
      .replace("                        )\n                    return\n", "                        )\n"), "O15.4"),
    V("remote step returns in the `else` of the rebase try only (same fall-through, other spelling)", "break", _P, "                        )\n                    return\n",
      "                        )\n                    else:\n                        return\n", "O15.4"),
    V("remote step returns only when a revision was recorded (none is after a refused rebase)", "break", _P, "                        )\n                    return\n",
      "                        )\n                    if self.revision is not None:\n                        return\n", "O15.4"),
    V("refused rebase handler resets the selection (`branch = None`) and the remote step returns only with a selection", "break", _P, "                        )\n                    return\n",
      "                        )\n                        branch = None\n                    if branch:\n                        return\n", "O15.4"),
    V("remote step returns at the end of the rebase try AND at the end of its handler", "keep", _P, _UP_OLD,
      _UP_OLD.replace("                        self.revision = git.head_revision(self.repo_dir)\n", "                        self.revision = git.head_revision(self.repo_dir)\n                        return\n")
      .replace("                        )\n                    return\n", "                        )\n                        return\n")),
    V("refused rebase noted in a flag, the remote step returns unconditionally after the warning", "keep", _P, _UP_OLD,
      _UP_OLD.replace("                    try:\n", "                    refused = False\n                    try:\n")
      .replace("                    except exceptions.SupplyError:\n", "                    except exceptions.SupplyError:\n                        refused = True\n")
      .replace("                        )\n                    return\n", "                        )\n                    if refused:\n                        self.logger.debug(\"Keeping [%s] without the update from origin.\", branch)\n                    return\n")),
    # ---- F59 (fixed in f9619cc): master from the local listing only when the version is newer than every versioned branch of the repository, remote and local names together
    V("F59 reverted: the local master match is not decided against the remote branch names (fresh clone: local listing = [master])", "break", _P, _F59_OLD, "", "O15.4"),
    V("F59: the master decision of the local lookup looks at the local names only", "break", _P, "versions.best_match(list(local_branches) + list(remote_branches), distribution_version)",
      "versions.best_match(list(local_branches), distribution_version)", "O15.4"),
    V("F59: the remote listing is not kept for the master decision (remote_branches stays empty)", "break", _P,
      "                remote_branches = git.branches(self.repo_dir, remote=self.remote)\n                branch = versions.best_match(remote_branches, distribution_version)\n",
      "                branch = versions.best_match(git.branches(self.repo_dir, remote=self.remote), distribution_version)\n", "O15.4"),
    V("F59: a local master match is withdrawn whenever the remote lists any branch (master is never selected locally for a remote repository)", "break", _P,
      ' and versions.best_match(list(local_branches) + list(remote_branches), distribution_version) != "master":', " and remote_branches:", "O15.4"),
    V("F59 fix with a set union instead of the list concatenation", "keep", _P, "versions.best_match(list(local_branches) + list(remote_branches), distribution_version)",
      "versions.best_match(set(local_branches) | set(remote_branches), distribution_version)"),
    V("F59 fix with the listings unpacked into one list and the decision bound to a local first", "keep", _P, _F59_OLD,
      '            if branch == "master":\n                known = [*remote_branches, *local_branches]\n                if versions.best_match(known, distribution_version) != "master":\n'
      '                    branch = None\n'),
    # preserving
    V("strictly smaller minors only", "keep", _V, "minor is not None and minor <= target_version.minor:", "minor is not None and minor < target_version.minor:"),
    V("nearest = max", "keep", _V, "    return min(eligible_minors, key=lambda x: abs(x - target_version.minor))", "    return max(eligible_minors)"),
    V("None checks reordered", "keep", _V, "            if patch is not None or suffix is not None:", "            if suffix is not None or patch is not None:"),
]
