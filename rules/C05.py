"""C05 — iterations, time periods, warm-up, progress and pacing follow the task spec (DESIGN.md section 4, C05)."""
from __future__ import annotations

import ast
import itertools

from sa import pat, source
from sa.cfg import cfg_of, guards, holds, negate
from sa.minieval import CannotEval, Record, ev
from sa.tables import Outcome
from sa.source import AnchorMissing, arg_of, bind_args, dotted, is_self_attr, last_attr, local_defs, params_of, short, u, walk_body
from sa.sym import comparison, NotRational, oriented, parse_expr, rat_equal, ratfun, UnknownAtom
from sa.tables import decide, Unsupported

_D = "esrally/driver/driver.py"
_S = "esrally/driver/scheduler.py"


def _prop(mod, cls, name):
    f = mod.methods(cls).get(name)
    if f is None:
        raise AnchorMissing(f"{cls.name}.{name}")
    return f


def _param(f, i):
    """name of the i-th positional parameter (self included) — a stable anchor; AnchorMissing when the signature is shorter."""
    ps = params_of(f)
    if i >= len(ps):
        raise AnchorMissing(f"parameter #{i} of {getattr(f, 'name', '?')}({', '.join(ps)})")
    return ps[i]


def _is_none(n):
    return isinstance(n, ast.Constant) and n.value is None  # (source.is_const(n, None) accepts any constant)


def _single_return(f):
    rets = [n for n in walk_body(f) if isinstance(n, ast.Return)]
    return rets[0].value if len(rets) == 1 else None


def throughput_pattern_rule(chk, rid, trk_mod):
    """Task.THROUGHPUT_PATTERN, decided on the regex syntax tree (re._parser; nothing is matched): the pattern is exactly <value group> <one whitespace> <unit group> and the decimal
    point with the fraction digits lies INSIDE the value group — shared with C10 (the loaded throughput target is the number written in the file)."""
    TKc = trk_mod.cls("Task")
    tpat = [n for n in TKc.body if isinstance(n, ast.Assign) and u(n.targets[0]) == "THROUGHPUT_PATTERN"]
    # regex AST (re._parser): the pattern is exactly <value group> <one whitespace> <unit group>; the decimal point and the fraction digits are INSIDE the value group
    ok = False
    detail = ""
    if tpat and isinstance(tpat[0].value, ast.Call) and tpat[0].value.args and isinstance(tpat[0].value.args[0], ast.Constant):
        import re._parser as _rp  # the standard library's own regex parser; nothing is matched, the pattern's syntax tree is inspected
        try:
            tree = _rp.parse(tpat[0].value.args[0].value)
            gi = tree.state.groupdict
            items = list(tree)
            names = {v: k for k, v in gi.items()}
            top = [(str(op), names.get(av[0]) if str(op) == "SUBPATTERN" else None) for op, av in items]
            shape = [t for t in top]
            vgrp = next((av[3] for op, av in items if str(op) == "SUBPATTERN" and names.get(av[0]) == "value"), None)

            def lits(sub):
                out = set()
                for op, av in sub:
                    if str(op) == "LITERAL":
                        out.add(chr(av))
                    elif str(op) in ("SUBPATTERN",):
                        out |= lits(av[3])
                    elif str(op) in ("MAX_REPEAT", "MIN_REPEAT"):
                        out |= lits(av[2])
                    elif str(op) == "BRANCH":
                        for alt in av[1]:
                            out |= lits(alt)
                return out

            exact = [n for _, n in shape] == ["value", None, "unit"] and shape[1][0] == "IN"
            ok = exact and vgrp is not None and "." in lits(vgrp)
            detail = f"top-level sequence: {[n or o for o, n in shape]}; literals inside the value group: {sorted(lits(vgrp)) if vgrp is not None else None}" + \
                ("" if ok else " — part of the number lies outside the value group: '2.5 docs/s' is read as 2, '0.5 ops/s' as 0 (unthrottled)")
        except Exception as e:  # noqa: BLE001 - a pattern the parser rejects is reported, not a crash
            detail = f"pattern not parseable: {e}"
    chk.ob(rid, "throughput pattern == <value incl. fraction> <space> <unit>: nothing of the number outside the value group", ok, tpat[0] if tpat else TKc, detail,
           key="esrally/track/track.py:Task.THROUGHPUT_PATTERN:value-group-covers-fraction")


def parallel_defaults_rule(chk, rid, repo):
    """TrackSpecificationReader.parse_parallel hands the iteration / time-period defaults written on the parallel element to parse_task under the parameter of the SAME meaning
    (four ints: a swap type-checks and only shows when the two values differ)."""
    ldr = repo.module("esrally/track/loader.py")
    chk.use(ldr)
    SR = ldr.cls("TrackSpecificationReader")
    pp, pt = ldr.methods(SR).get("parse_parallel"), ldr.methods(SR).get("parse_task")
    if pp is None or pt is None:
        raise AnchorMissing("TrackSpecificationReader.parse_parallel / parse_task")
    calls = [c for c in source.calls_in(pp) if u(c.func) == "self.parse_task"]
    if not calls:
        raise AnchorMissing("self.parse_task(...) in parse_parallel")
    b = source.bind_args(calls[0], pt)
    d = local_defs(pp)
    for param, key in (("default_warmup_iterations", "warmup-iterations"), ("default_iterations", "iterations"), ("default_warmup_time_period", "warmup-time-period"), ("default_time_period", "time-period")):
        e = b.get(param)
        txt = source.inline(e, d) if e is not None else ""
        import re as _re
        keys = set(_re.findall(r"'([a-z-]+)'", txt)) & {"warmup-iterations", "iterations", "warmup-time-period", "time-period", "ramp-up-time-period"}
        chk.ob(rid, f"parallel default '{key}' -> parse_task({param}=...)", keys == {key}, calls[0], f"{param} is read from key(s) {sorted(keys)}", key=f"esrally/track/loader.py:parse_parallel:default:{param}")


def timer_before_rampup_rule(chk, rid, drv, why):
    """The schedule's progress timer (it decides warm-up vs. normal and the end of a time period) starts, unconditionally, before the ramp-up wait of the client."""
    ex = _prop(drv, drv.cls("AsyncExecutor"), "__call__")
    ge = cfg_of(ex)
    edefs = local_defs(ex)
    sleeps = [n for n in walk_body(ex) if isinstance(n, ast.Await) and isinstance(n.value, ast.Call) and dotted(n.value.func) == "asyncio.sleep" and n.value.args
              and "ramp_up_wait_time" in source.inline(n.value.args[0], edefs)]
    starts = [n for n in walk_body(ex) if isinstance(n, ast.Call) and u(n.func) == "self.schedule_handle.start"]
    loops_ = [n for n in walk_body(ex) if isinstance(n, ast.AsyncFor)]
    if not sleeps or not starts or not loops_:
        raise AnchorMissing("ramp-up sleep / schedule_handle.start() / request loop in AsyncExecutor.__call__")
    sl, stt, lp = ge.node_of(sleeps[0]), ge.node_of(starts[0]), ge.node_of(loops_[0])
    ok = ge.dominated_by_nodes(sl, [stt]) and not ge.path_exists(sl, stt) and not guards(starts[0])
    chk.ob(rid, "progress timer started before the ramp-up wait", ok, starts[0], "" if ok else why)
    return ex, ge, edefs, sleeps, starts, loops_, sl, stt, lp


def partition_call_rule(chk, rid, drv):
    """schedule_for partitions the task's parameter source with (task-local client index, the TASK's client count) — shared with C03 (slices must tile the corpus)."""
    sfn = drv.func("schedule_for")
    ta = _param(sfn, 0)
    pc_ = [n for n in walk_body(sfn) if isinstance(n, ast.Call) and last_attr(n.func) == "partition"]
    d = local_defs(sfn)
    ok = len(pc_) == 1 and len(pc_[0].args) == 2 and source.inline(pc_[0].args[0], d) == f"{ta}.client_index_in_task" and source.inline(pc_[0].args[1], d) == f"{ta}.task.clients"
    got = f"partition({source.inline(pc_[0].args[0], d)}, {source.inline(pc_[0].args[1], d)})" if pc_ and len(pc_[0].args) == 2 else ""
    chk.ob(rid, "parameter source partitioned by (task-local client index, the task's own client count)", ok, pc_[0] if pc_ else sfn, got, key="esrally/driver/driver.py:schedule_for:partition")


# ---- F40: the client's schedule is anchored at the end of its ramp-up wait ------------------------------------------------------------------------------
_CLOCKS = ("time.perf_counter", "time.monotonic")
_SLEEP = "asyncio.sleep"


class _LoopReached(Exception):
    pass


class _Ended(Exception):
    pass


def _timeline(expr, now, wait):
    """copy of `expr` in which a read of the monotonic clock is the virtual time `now` and the schedule handle's ramp-up wait is `wait` (nothing else is interpreted here)."""

    class X(ast.NodeTransformer):
        def visit_Call(self, n):
            if dotted(n.func) in _CLOCKS and not n.args and not n.keywords:
                return ast.Constant(value=now)
            return self.generic_visit(n)

        def visit_Attribute(self, n):
            if n.attr == "ramp_up_wait_time":
                return ast.Constant(value=wait)
            return self.generic_visit(n)

    try:
        return X().visit(source.clone(expr))
    except SyntaxError as e:  # an expression that does not re-parse on its own (e.g. a bare await): opaque
        raise CannotEval(str(e))


def _sleep_arg(node):
    """the duration of `await asyncio.sleep(<duration>)`, else None."""
    if isinstance(node, ast.Expr):
        node = node.value
    if isinstance(node, ast.Await) and isinstance(node.value, ast.Call) and dotted(node.value.func) == _SLEEP and node.value.args:
        return node.value.args[0]
    return None


def _run_until_loop(stmts, loop, env, clk, wait):
    """Local helper (sa/minieval.py evaluates expressions only): walks the straight-line / if / try / with statements that precede the request loop on a virtual time line.
    A clock read yields clk[0]; `await asyncio.sleep(x)` advances it by x; every other statement takes no (modelled) time; a local whose value cannot be evaluated from
    clock reads, the ramp-up wait and literals is unbound (using it later is CannotEval => the rule is inconclusive, never a verdict). Raises _LoopReached at `loop`."""
    for s in stmts:
        if s is loop:
            raise _LoopReached()
        if isinstance(s, ast.Assign):
            try:
                v, known = ev(_timeline(s.value, clk[0], wait), env), True
            except CannotEval:
                v, known = None, False
            for t in s.targets:
                if isinstance(t, ast.Name) and known:
                    env[t.id] = v
                else:
                    for x in ast.walk(t):
                        if isinstance(x, ast.Name) and isinstance(x.ctx, ast.Store):
                            env.pop(x.id, None)
        elif isinstance(s, ast.AugAssign):
            if isinstance(s.target, ast.Name):
                try:
                    env[s.target.id] = ev(_timeline(ast.BinOp(left=ast.Name(id=s.target.id, ctx=ast.Load()), op=s.op, right=s.value), clk[0], wait), env)
                except CannotEval:
                    env.pop(s.target.id, None)
        elif isinstance(s, ast.Expr):
            d = _sleep_arg(s)
            if d is not None:
                dt = ev(_timeline(d, clk[0], wait), env)
                if not isinstance(dt, (int, float)) or isinstance(dt, bool):
                    raise CannotEval(f"sleep duration {u(d)}")
                clk[0] += max(dt, 0)
            # any other expression statement (logging, starting the progress timer) takes no modelled time
        elif isinstance(s, ast.If):
            _run_until_loop(s.body if ev(_timeline(s.test, clk[0], wait), env) else s.orelse, loop, env, clk, wait)
        elif isinstance(s, ast.Try):
            _run_until_loop(s.body, loop, env, clk, wait)
            _run_until_loop(s.orelse, loop, env, clk, wait)
            _run_until_loop(s.finalbody, loop, env, clk, wait)
        elif isinstance(s, (ast.With, ast.AsyncWith)):
            _run_until_loop(s.body, loop, env, clk, wait)
        elif isinstance(s, (ast.Return, ast.Raise)):
            raise _Ended()
        elif isinstance(s, (ast.Pass, ast.Import, ast.ImportFrom, ast.FunctionDef, ast.AsyncFunctionDef, ast.ClassDef, ast.Global, ast.Nonlocal, ast.Assert)):
            pass
        else:
            raise CannotEval(f"statement kind {type(s).__name__} before the request loop (line {getattr(s, 'lineno', '?')})")


def schedule_anchor_rule(chk, rid, ex, loop):
    """Pacing under ramp-up (F40): the absolute time a request is due is <anchor> + <scheduled offset>, and the executor sleeps until then. The anchor must be the moment the client
    starts issuing requests, i.e. the end of its ramp-up wait: anchored before the wait, every request whose offset is smaller than the wait is already overdue when the client
    wakes up and is issued back-to-back (not weight*C/T apart). Decided on values: the statements before the request loop are walked on a virtual time line (start at t0, the
    ramp-up sleep advances it by the wait W) for W = 0 and W > 0; then the EXTRACTED sleep-until duration of the loop body is evaluated for a first request at offset d.
    It must be d whatever W is (pre-repair: d - W). Roles: offset = first element of the loop's target tuple (position 0 of the generator's yield, O5.3); the sleep-until =
    the `await asyncio.sleep(..)` in the loop whose duration depends on the offset; clock = time.perf_counter()/monotonic(); wait = <schedule handle>.ramp_up_wait_time."""
    tgt = loop.target
    first = tgt.elts[0] if isinstance(tgt, ast.Tuple) and tgt.elts else tgt
    if not isinstance(first, ast.Name):
        raise AnchorMissing("scheduled offset: first target of the request loop in AsyncExecutor.__call__")
    offset = first.id
    ldefs = {k: v for k, v in local_defs(ex).items() if any(a is loop for a in source.ancestors(v))}
    until = []
    for n in ast.walk(loop):
        d = _sleep_arg(n) if isinstance(n, ast.Await) else None
        if d is not None:
            inl = source.inline_node(d, ldefs)
            if any(isinstance(x, ast.Name) and x.id == offset for x in ast.walk(inl)):
                until.append((n, inl))
    if not until:
        raise AnchorMissing("sleep-until on the scheduled offset in the request loop of AsyncExecutor.__call__")
    T0, D = 100.0, 0.5
    for wait in (0, 4.0):
        env, clk = {}, [T0]
        try:
            try:
                _run_until_loop(ex.body, loop, env, clk, wait)
                raise AnchorMissing(f"the request loop of AsyncExecutor.__call__ is not reached with ramp-up wait {wait}")
            except _LoopReached:
                pass
            except _Ended:
                raise AnchorMissing(f"AsyncExecutor.__call__ ends before its request loop with ramp-up wait {wait}")
            env[offset] = D
            rests = [(n, ev(_timeline(inl, clk[0], wait), env)) for n, inl in until]
        except CannotEval as e:
            chk.unknown(rid, f"schedule anchor not evaluable on the virtual time line (ramp-up wait {wait}): {e}", until[0][0])
            continue
        waited = clk[0] - T0
        bad = [(n, r) for n, r in rests if not isinstance(r, (int, float)) or abs(r - D) > 1e-9]
        chk.ob(rid, f"ramp-up wait {wait:g}s: a request scheduled at offset d is due d after the client's start (the end of its ramp-up wait), i.e. the schedule is anchored after the wait",
               not bad and abs(waited - wait) < 1e-9, (bad[0][0] if bad else until[0][0]),
               f"virtual time line: start {T0:g}, ramp-up sleep {waited:g}s, request loop entered at {clk[0]:g}; first request at offset {D:g} is due in "
               f"{', '.join(f'{r:g}' if isinstance(r, (int, float)) else repr(r) for _, r in rests)}s (expected {D:g}s)"
               + ("" if not bad else f": the schedule is anchored {D - bad[0][1]:g}s before the client starts, so every request with an offset below that is overdue and issued back-to-back"
                  if isinstance(bad[0][1], (int, float)) else ""),
               key=f"{_D}:AsyncExecutor.__call__:schedule-anchor-after-ramp-up-wait:wait={wait:g}")


# ---- F48: a task that reaches the loop-control choice carries fields of ONE kind ---------------------------------------------------------------------------
_MIX_FIELDS = (("warmup_iterations", "warmup-iterations", 5), ("iterations", "iterations", 5), ("warmup_time_period", "warmup-time-period", 10), ("time_period", "time-period", 10))


def iteration_time_mix_rule(chk, rid, repo):
    """requires_time_period_schedule() lets any time-period field win over the iteration fields (O5.5 table), so `exactly warmup-iterations + iterations requests` holds for a
    task only if no task carrying an iteration field AND a time-period field ever reaches the driver: the loader has to reject it (its own message: 'mixing time periods and
    iterations is not allowed'). Decided on values: the 16 set/unset combinations of the four fields (ramp-up unset) are fed, as a record standing for the constructed Task, through
    the validation statements that follow the Task construction in TrackSpecificationReader.parse_task (tables.decide over the EXTRACTED tests; a call of self._error / a raise is
    the rejection). Every mixed row must be rejected, every unmixed row accepted. Roles: the task = the local bound to the `Task(...)` construction; fields = the Task attributes
    that requires_time_period_schedule() reads. Where a field value comes from (the task itself or the default inherited from the parallel element) does not matter here."""
    ldr = repo.module("esrally/track/loader.py")
    chk.use(ldr)
    pt = ldr.methods(ldr.cls("TrackSpecificationReader")).get("parse_task")
    if pt is None:
        raise AnchorMissing("TrackSpecificationReader.parse_task")
    ctor = [c for c in source.calls_in(pt) if last_attr(c.func) == "Task" and {k.arg for k in c.keywords} >= {f for f, _, _ in _MIX_FIELDS}]
    tstmt = source.enclosing_stmt(ctor[0]) if len(ctor) == 1 else None
    if not (isinstance(tstmt, ast.Assign) and len(tstmt.targets) == 1 and isinstance(tstmt.targets[0], ast.Name) and tstmt.value is ctor[0]):
        raise AnchorMissing("`<local> = track.Task(warmup_iterations=..., iterations=..., warmup_time_period=..., time_period=...)` in parse_task")
    task_local = tstmt.targets[0].id
    par = source.parent(tstmt)
    own = next((b for f_ in ("body", "orelse", "finalbody") for b in [getattr(par, f_, None)] if isinstance(b, list) and any(x is tstmt for x in b)), None)
    if own is None:
        raise AnchorMissing("the block of parse_task that constructs the Task")
    block = own[[i for i, x in enumerate(own) if x is tstmt][0] + 1:]

    def on_stmt(s, e_, b):
        if isinstance(s, ast.Expr) and isinstance(s.value, ast.Call) and is_self_attr(s.value.func, "_error"):
            return Outcome("raise", s.value, [], s)
        return None

    n_rows = 0
    for vals in itertools.product([False, True], repeat=4):
        fields = {f: (v if given else None) for (f, _, v), given in zip(_MIX_FIELDS, vals)}
        rec = Record(ramp_up_time_period=None, **fields)

        def atom(n, e_, rec=rec):
            try:
                return bool(ev(n, {task_local: rec}))
            except CannotEval:
                return None

        names = [k for (_, k, _), given in zip(_MIX_FIELDS, vals) if given]
        row = "+".join(names) or "none"
        try:
            out = decide(block, atom, {}, on_stmt=on_stmt)
        except (Unsupported, UnknownAtom) as e:
            chk.unknown(rid, f"validation statements of parse_task are not a decision over the four iteration / time-period fields (row {row}): {e}", pt)
            continue
        n_rows += 1
        rejected = out.kind == "raise"
        wi, it, wt, tp = vals
        mixed = (wi or it) and (wt or tp)
        detail = f"the loader {'rejects' if rejected else 'accepts'} the task"
        if mixed and not rejected:
            detail += (f": it reaches the driver with both kinds of fields, requires_time_period_schedule() picks the time-based control and the "
                       f"{' + '.join(n for n in names if 'iterations' in n)} written in the track are ignored"
                       + (" (warm-up period without a period: the control is infinite, a task with a constant parameter source never ends)" if not tp else ""))
        chk.ob(rid, f"task with {', '.join(names) or 'no iteration / time-period field'}: {'rejected by the loader (iterations mixed with time periods)' if mixed else 'accepted'}",
               rejected == mixed, (out.node if rejected and out.node is not None else pt), detail,
               key=f"esrally/track/loader.py:TrackSpecificationReader.parse_task:mix:[{row}]")
    chk.ob(rid, "iteration / time-period mixing table: all 16 rows evaluated", n_rows == 16, pt, f"{n_rows} of 16 rows")


# ---- F47: the progress Rally reports for a step is monotone by construction ----------------------------------------------------------------------------------
_NOVAL = object()
_PURE_BUILTINS = {"len", "max", "min", "sum", "round", "float", "int", "abs", "list", "tuple", "set", "sorted", "bool", "any", "all"}


def _evx(expr, env):
    """Local extension of sa/minieval.ev (which lacks them): multi-argument max()/min() and the dict views .values()/.keys()/.items() are evaluated first, bottom-up, and replaced
    by temporaries bound in the environment; everything else is minieval. A view / max that depends on a comprehension variable stays CannotEval."""
    env = dict(env)
    k = [0]

    class X(ast.NodeTransformer):
        def visit_Call(self, n):
            n = self.generic_visit(n)
            val = _NOVAL
            d = dotted(n.func)
            if d in ("max", "min") and len(n.args) >= 2 and not n.keywords and not any(isinstance(a, ast.Starred) for a in n.args):
                try:
                    val = (max if d == "max" else min)(*[ev(a, env) for a in n.args])
                except TypeError as e:
                    raise CannotEval(f"{u(n)[:60]}: {e}")
            elif isinstance(n.func, ast.Attribute) and n.func.attr in ("values", "keys", "items") and not n.args and not n.keywords:
                recv = ev(n.func.value, env)
                if not isinstance(recv, dict):
                    raise CannotEval(f"{u(n)[:60]}: receiver is not a table")
                val = [list(x) if isinstance(x, tuple) and n.func.attr == "items" else x for x in getattr(recv, n.func.attr)()]
            if val is _NOVAL:
                return n
            k[0] += 1
            env[f"_t{k[0]}"] = val
            return ast.Name(id=f"_t{k[0]}", ctx=ast.Load())

    return ev(X().visit(source.clone(expr)), env)


def progress_aggregate_rule(chk, rid, drv):
    """`reported progress never decreases`: what Rally prints for a running step is an aggregate over a per-step table of the most recent sample of each client. Two necessary
    conditions of monotonicity (each also met by a per-step high-water mark `shown = max(shown, value)`):
      (key)  a client that runs two tasks of a parallel element in turn must not overwrite its finished task's 100% with the next task's first sample: the table key separates
             (client, task). Decided on values: the EXTRACTED key expression of the store in update_samples is evaluated on sample records.
      (mean) the divisor must not be the number of clients that have reported SO FAR: a slower client's first report then lowers the mean. Decided on values when the EXTRACTED
             aggregate is a function of the table alone (history: client 0 reports 60%, then client 1 reports 20%); an aggregate that also reads other driver state (the
             allocations of the step, a high-water mark) is accepted, not evaluated (necessary, not sufficient).
    Roles: table = the self attribute subscripted-and-stored with the loop variable in `for s in <batch parameter>` of update_samples; aggregate = the table-dependent value that
    flows into the progress reporter's print call in update_progress_message."""
    DR = drv.cls("Driver")
    us, up = _prop(drv, DR, "update_samples"), _prop(drv, DR, "update_progress_message")
    batch = _param(us, 1)
    stores = []
    for loop in [n for n in walk_body(us) if isinstance(n, ast.For) and isinstance(n.iter, ast.Name) and n.iter.id == batch and isinstance(n.target, ast.Name)]:
        for n in ast.walk(loop):
            if isinstance(n, ast.Assign) and len(n.targets) == 1 and isinstance(n.targets[0], ast.Subscript) and is_self_attr(n.targets[0].value) \
                    and isinstance(n.value, ast.Name) and n.value.id == loop.target.id:
                stores.append((n, loop.target.id, n.targets[0].value.attr, n.targets[0].slice))
    if len(stores) != 1:
        raise AnchorMissing(f"`for s in {batch}: self.<table>[<key of s>] = s` in Driver.update_samples ({len(stores)} found)")
    store, svar, T, kexpr = stores[0]
    udefs = {k: v for k, v in local_defs(us).items() if k != svar}
    kexpr = source.inline_node(kexpr, udefs)

    def mentions_table(e):
        return any(is_self_attr(x, T) for x in ast.walk(e))

    # the aggregate: table-dependent value(s) reaching the reporter's print call
    prints = [c for c in walk_body(up) if isinstance(c, ast.Call) and isinstance(c.func, ast.Attribute) and c.func.attr == "print" and is_self_attr(c.func.value)]
    if not prints:
        raise AnchorMissing("self.<progress reporter>.print(...) in Driver.update_progress_message")
    pdefs = local_defs(up)
    aggs = []
    for c in prints:
        for a in list(c.args) + [k_.value for k_ in c.keywords]:
            inl = source.inline_node(a, pdefs)
            if mentions_table(inl):
                aggs.append((source.enclosing_stmt(c), inl))
            for nm in {x.id for x in ast.walk(inl) if isinstance(x, ast.Name) and isinstance(x.ctx, ast.Load)}:
                for st in walk_body(up):
                    if isinstance(st, ast.Assign) and any(isinstance(t, ast.Name) and t.id == nm for t in st.targets):
                        v = source.inline_node(st.value, pdefs)
                        if mentions_table(v) and not any(st is s_ for s_, _ in aggs):
                            aggs.append((st, v))
    if not aggs:
        raise AnchorMissing(f"a value derived from self.{T} that reaches the progress reporter in Driver.update_progress_message")
    # per-step high-water mark: max(..., self.<attr>, ...) with that attribute stored in the same method
    stored = {t.attr for st in walk_body(up) if isinstance(st, (ast.Assign, ast.AugAssign)) for t in (st.targets if isinstance(st, ast.Assign) else [st.target]) if is_self_attr(t)}
    hw = sorted({a.attr for c in walk_body(up) if isinstance(c, ast.Call) and dotted(c.func) == "max" for a in c.args if is_self_attr(a) and a.attr != T and a.attr in stored})

    class _Task(Record):  # a task record that prints readably in the obligation details (identity-compared like the real Task objects of two tasks)
        def __repr__(self):
            return f"<task {self.fields['name']}>"

    TA, TB = _Task(name="a"), _Task(name="b")

    def sample(client, task, progress):
        return Record(client_id=client, task=task, percent_completed=progress)

    def key_of(s):
        return ev(kexpr, {svar: s})

    def replay(history):
        """the reported values after each batch of `history`: the table is filled through the extracted key, the extracted aggregate(s) evaluated on it."""
        table, out = {}, []
        for s in history:
            table[key_of(s)] = s
            vals = [_evx(a, {"self": Record(**{T: dict(table)})}) for _, a in aggs]
            out.append(vals[0] if len(vals) == 1 else tuple(vals))
        return out

    def pct(vs):
        return " -> ".join(f"{round(v * 100)}%" if isinstance(v, (int, float)) else str(v) for v in vs)

    # (key)
    try:
        k_a, k_a2, k_b, k_c1 = key_of(sample(0, TA, 0.25)), key_of(sample(0, TA, 1.0)), key_of(sample(0, TB, 0.25)), key_of(sample(1, TA, 0.25))
        for k_ in (k_a, k_a2, k_b, k_c1):
            hash(k_)
    except (CannotEval, TypeError) as e:
        chk.unknown(rid, f"key of the progress table `{u(kexpr)}` is not evaluable on a sample record (client_id, task, percent_completed): {e}", store)
        return
    try:
        wit = "; one client running task a, then task b of the same step is reported as " + pct(replay([sample(0, TA, 0.25), sample(0, TA, 1.0), sample(0, TB, 0.25)]))
    except (CannotEval, TypeError, ZeroDivisionError):
        wit = ""
    chk.ob(rid, "progress table: the samples of one client for two tasks of the step occupy two entries (or the reported value is a per-step high-water mark)", k_a != k_b or bool(hw), store,
           f"self.{T}[{u(kexpr)}] = {svar}: keys {k_a!r} / {k_b!r} for (client 0, task a) / (client 0, task b)" + (f"; high-water mark self.{hw[0]}" if hw else "") + (wit if k_a == k_b and not hw else ""),
           key=f"{_D}:Driver.update_samples:progress-table-key:client-with-two-tasks")
    chk.ob(rid, "progress table: two clients occupy two entries", k_a != k_c1, store, f"keys {k_a!r} / {k_c1!r} for (client 0, task a) / (client 1, task a)",
           key=f"{_D}:Driver.update_samples:progress-table-key:two-clients")
    chk.ob(rid, "progress table: a newer sample of the same client and task replaces the older one", k_a == k_a2, store, f"keys {k_a!r} / {k_a2!r} for two samples of (client 0, task a)",
           key=f"{_D}:Driver.update_samples:progress-table-key:same-client-and-task")
    # (mean)
    resets = [st for m in drv.methods(DR).values() for st in walk_body(m) if isinstance(st, ast.Assign) and any(is_self_attr(t, T) for t in st.targets)]
    empty = [st for st in resets if (isinstance(st.value, ast.Dict) and not st.value.keys) or (isinstance(st.value, ast.Call) and dotted(st.value.func) == "dict" and not st.value.args and not st.value.keywords)]
    if not resets or len(empty) != len(resets):
        chk.unknown(rid, f"self.{T} is not (only) reset to an empty table: entries may exist before a client reports, the mean is not decided here", resets[0] if resets else DR)
        return
    site = aggs[0][0]
    other = sorted({x.attr for _, a in aggs for x in ast.walk(a) if is_self_attr(x) and x.attr != T}
                   | {u(x.func) for _, a in aggs for x in ast.walk(a) if isinstance(x, ast.Call) and dotted(x.func) not in _PURE_BUILTINS
                      and not (isinstance(x.func, ast.Attribute) and x.func.attr in ("values", "keys", "items", "get"))})
    text = "; ".join(short(a, 150) for _, a in aggs)
    try:
        seq = replay([sample(0, TA, 0.6), sample(1, TA, 0.2)])
        ok = all(isinstance(v, (int, float)) for v in seq) and seq[1] >= seq[0] - 1e-12
        detail = f"`{text}` is a function of self.{T} alone (reset to an empty table for every step): client 0 reports 60%, then client 1 reports its first sample at 20% => {pct(seq)}" \
            + ("" if ok else (f" before the high-water mark self.{hw[0]} is applied" if hw else ": the mean is taken over the clients that have reported so far"))
    except (CannotEval, TypeError, ZeroDivisionError) as e:
        if not other and not hw:
            chk.unknown(rid, f"reported progress `{text}` is neither evaluable on a table of sample records nor dependent on other driver state: {e}", site)
            return
        ok = True
        detail = f"`{text}` also reads {', '.join(('self.' + o) if '.' not in o else o for o in other) or 'self.' + hw[0]}: not a function of the reports received so far alone (not evaluated)"
    chk.ob(rid, "reported progress of a step does not drop when a further client reports for the first time (mean over all clients / allocations of the step, or a per-step high-water mark)",
           ok or bool(hw), site, detail, key=f"{_D}:Driver.update_progress_message:progress-mean-divisor")


def run(chk):
    repo = chk.repo
    drv, sch = repo.module(_D), repo.module(_S)
    chk.use(drv, sch)
    chk.explanation = (
        "Decides the loop-control and pacing skeleton: the iteration counter idiom with comparator strictness (>= W+I, < W, (it+1)/(W+I)); time-period guards by direction; "
        "the schedule generator yields, then advances the progress control exactly once, threading the scheduled time; loop-control choice as a decision table; "
        "field flow of warm-up/iteration/time fields into the loop controls; pacing formulas (1/theta, expovariate(theta), 0, theta = T/clients/weight) and the unit rule; "
        "ramp-up formula and placement (progress timer started before the ramp-up wait, wait before the main loop, request schedule anchored at the end of the wait: "
        "sleep-until duration evaluated on a virtual time line); the loader's iteration / time-period mixing table (16 rows: no task with both kinds of fields reaches the "
        "loop-control choice); the progress aggregate printed for a step (table key and mean evaluated on sample records)."
    )
    chk.not_decided = "the boundary request of time-based tasks, Poisson statistics, plugin schedulers, float rounding of progress."
    IB = drv.cls("IterationBased")
    TB = drv.cls("TimePeriodBased")
    SH = drv.cls("ScheduleHandle")

    # ---- O5.1 iteration counter -------------------------------------------------------------------------------------------------
    chk.rule("O5.1", "iteration-based progress: counter idiom (start: it = 0; next: it += 1; no other writer); completed == it >= W + I; warm-up == it < W; "
             "progress == (it + 1) / (W + I)", 6,
             "every iteration-based task: one request too many/few, the wrong number flagged warm-up, or progress not ending at exactly 1")
    init = _prop(drv, IB, "__init__")
    W, I = _param(init, 1), _param(init, 2)
    attrs = {}
    for n in walk_body(init):
        if isinstance(n, ast.Assign) and len(n.targets) == 1 and is_self_attr(n.targets[0]):
            attrs.setdefault(n.targets[0].attr, []).append(n.value)

    def expand(e):
        """substitute self._x attributes assigned in __init__ by their (first non-None) definitions over the constructor parameters."""
        class T(ast.NodeTransformer):
            def visit_Attribute(self, n):
                if is_self_attr(n) and n.attr in attrs:
                    vals = [v for v in attrs[n.attr] if not (isinstance(v, ast.Constant) and v.value is None)]
                    if len(vals) == 1:
                        return T().visit(source.clone(vals[0]))
                return n

        return T().visit(source.clone(e))

    writers = {}
    for m in drv.methods(IB).values():
        for n in walk_body(m):
            if isinstance(n, (ast.Assign, ast.AugAssign)):
                for t in (n.targets if isinstance(n, ast.Assign) else [n.target]):
                    if is_self_attr(t):
                        writers.setdefault(t.attr, []).append((m.name, n))
    it = None
    for a, ws in writers.items():
        if any(isinstance(n, ast.AugAssign) for _, n in ws):
            it = a
    if it is None:
        raise AnchorMissing("iteration counter attribute (+= 1) in IterationBased")
    ws = writers[it]
    incs = [(m, n) for m, n in ws if isinstance(n, ast.AugAssign)]
    zero = [(m, n) for m, n in ws if isinstance(n, ast.Assign) and source.is_const(n.value, 0)]
    other = [(m, n) for m, n in ws if (m, n) not in incs and (m, n) not in zero and m != "__init__"]
    ok = len(incs) == 1 and incs[0][0] == "next" and isinstance(incs[0][1].op, ast.Add) and source.is_const(incs[0][1].value, 1) and not guards(incs[0][1]) \
        and len(zero) == 1 and zero[0][0] == "start" and not other
    chk.ob("O5.1", "counter idiom", ok, incs[0][1] if incs else IB, f"increments={[(m, short(n, 30)) for m, n in incs]} resets={[(m, short(n, 30)) for m, n in zero]} other={[(m, short(n, 30)) for m, n in other]}")
    comp = _single_return(_prop(drv, IB, "completed"))
    ok = False
    if comp is not None:
        c = comparison(expand(comp))
        if c:
            l, op, r = c
            if u(l) == f"self.{it}" and op == ">=":
                ok = rat_equal(r, parse_expr(f"{W} + {I}"))
            elif u(r) == f"self.{it}" and op == "<=":
                ok = rat_equal(l, parse_expr(f"{W} + {I}"))
            elif op in ("<=", ">=") and rat_equal(ast.BinOp(left=l, op=ast.Sub(), right=r), parse_expr(f"{W} + {I} - self.{it}")) and op == "<=":
                ok = True
    chk.ob("O5.1", "completed == it >= W + I", ok, _prop(drv, IB, "completed"), f"`{u(comp) if comp is not None else None}` expands to `{u(expand(comp)) if comp is not None else None}`")
    st = _single_return(_prop(drv, IB, "sample_type"))
    ok = False
    if isinstance(st, ast.IfExp):
        c = comparison(expand(st.test))
        warm_first = last_attr(st.body) == "Warmup" and last_attr(st.orelse) == "Normal"
        norm_first = last_attr(st.body) == "Normal" and last_attr(st.orelse) == "Warmup"
        if c:
            l, op, r = c
            lt = (u(l) == f"self.{it}" and op == "<" and u(r) == W) or (u(r) == f"self.{it}" and op == ">" and u(l) == W)
            ge = (u(l) == f"self.{it}" and op == ">=" and u(r) == W) or (u(r) == f"self.{it}" and op == "<=" and u(l) == W)
            ok = (lt and warm_first) or (ge and norm_first)
    chk.ob("O5.1", "warm-up == it < W", ok, _prop(drv, IB, "sample_type"), f"`{u(st) if st is not None else None}`")
    pc = _single_return(_prop(drv, IB, "percent_completed"))
    ok = pc is not None and rat_equal(expand(pc), parse_expr(f"(self.{it} + 1) / ({W} + {I})"))
    chk.ob("O5.1", "progress == (it + 1) / (W + I)", ok, _prop(drv, IB, "percent_completed"), f"`{u(pc) if pc is not None else None}`")
    inf = _single_return(_prop(drv, IB, "infinite"))
    ok = inf is not None and pat.is_(expand(inf), f"{I} is None")
    chk.ob("O5.1", "infinite == iterations is None", ok, _prop(drv, IB, "infinite"), f"`{u(inf) if inf is not None else None}`")
    # zero total is rejected
    zr = [n for n in walk_body(init) if isinstance(n, ast.Raise)]
    # a guard fact `x == 0` (either orientation, either arm polarity) of the raise
    ok = False
    for f_ in (pat.fact_nodes(zr[0]) if zr else []):
        c = oriented(f_, lambda n: not source.is_const(n, 0))
        if c and c[1] == "==" and source.is_const(c[2], 0):
            try:
                ok = ok or rat_equal(expand(c[0]), parse_expr(f"{W} + {I}"))
            except NotRational:
                pass
    chk.ob("O5.1", "W + I == 0 rejected", ok, zr[0] if zr else init, "")

    # ---- O5.2 time-period guards --------------------------------------------------------------------------------------------------
    chk.rule("O5.2", "time-based progress: elapsed == now - start; warm-up == elapsed < Wt; completed == now >= start + (Wt + T) (direction only); start written only by start(); "
             "now only from the monotonic clock", 6,
             "a time-based task never stops / stops at once, flags the wrong side as warm-up, or returns to warm-up")
    tinit = _prop(drv, TB, "__init__")
    Wt, T = _param(tinit, 1), _param(tinit, 2)
    tattrs = {}
    for n in walk_body(tinit):
        if isinstance(n, ast.Assign) and len(n.targets) == 1 and is_self_attr(n.targets[0]):
            tattrs.setdefault(n.targets[0].attr, []).append(n.value)

    props = {name: f for name, f in drv.methods(TB).items() if any((dotted(d) or "") == "property" for d in f.decorator_list)}

    def texpand(e, depth=0):
        class X(ast.NodeTransformer):
            def visit_Attribute(self, n):
                if is_self_attr(n) and depth < 5:
                    if n.attr in props and n.attr.startswith("_"):
                        r = _single_return(props[n.attr])
                        if r is not None:
                            return texpand(r, depth + 1)
                    if n.attr in tattrs and n.attr not in ("_start", "_now"):
                        vals = [v for v in tattrs[n.attr] if not (isinstance(v, ast.Constant) and v.value is None)]
                        if len(vals) == 1:
                            return texpand(vals[0], depth + 1)
                return n

        return X().visit(source.clone(e))

    el = props.get("_elapsed")
    elr = _single_return(el) if el else None
    ok = elr is not None and rat_equal(elr, parse_expr("self._now - self._start"))
    chk.ob("O5.2", "elapsed == now - start", ok, el if el else TB, f"`{u(elr) if elr is not None else None}`")
    st = _single_return(_prop(drv, TB, "sample_type"))
    ok = False
    if isinstance(st, ast.IfExp):
        c = comparison(texpand(st.test))
        if c:
            l, op, r = c
            d = ast.BinOp(left=l, op=ast.Sub(), right=r)
            want = parse_expr(f"self._now - self._start - {Wt}")
            neg = parse_expr(f"{Wt} - (self._now - self._start)")
            less = (op in ("<", "<=") and rat_equal(d, want)) or (op in (">", ">=") and rat_equal(d, neg))
            more = (op in (">", ">=") and rat_equal(d, want)) or (op in ("<", "<=") and rat_equal(d, neg))
            ok = (less and last_attr(st.body) == "Warmup" and last_attr(st.orelse) == "Normal") or (more and last_attr(st.body) == "Normal" and last_attr(st.orelse) == "Warmup")
    chk.ob("O5.2", "warm-up == elapsed < warm-up period (direction)", ok, _prop(drv, TB, "sample_type"), f"`{u(st) if st is not None else None}`")
    comp = _single_return(_prop(drv, TB, "completed"))
    ok = False
    if comp is not None:
        c = comparison(texpand(comp))
        if c:
            l, op, r = c
            d = ast.BinOp(left=l, op=ast.Sub(), right=r)
            want = parse_expr(f"self._now - (self._start + {Wt} + {T})")
            neg = parse_expr(f"(self._start + {Wt} + {T}) - self._now")
            ok = (op in (">", ">=") and rat_equal(d, want)) or (op in ("<", "<=") and rat_equal(d, neg))
    chk.ob("O5.2", "completed == now >= start + warm-up + period (direction)", ok, _prop(drv, TB, "completed"), f"`{u(comp) if comp is not None else None}` expands to `{u(texpand(comp)) if comp is not None else None}`")
    pc = _single_return(_prop(drv, TB, "percent_completed"))
    ok = pc is not None and rat_equal(texpand(pc), parse_expr(f"(self._now - self._start) / ({Wt} + {T})"))
    chk.ob("O5.2", "progress == elapsed / (warm-up + period)", ok, _prop(drv, TB, "percent_completed"), f"`{u(pc) if pc is not None else None}`")
    tw = {}
    for m in drv.methods(TB).values():
        for n in walk_body(m):
            if isinstance(n, (ast.Assign, ast.AugAssign)):
                for t in (n.targets if isinstance(n, ast.Assign) else [n.target]):
                    if is_self_attr(t) and t.attr in ("_start", "_now"):
                        tw.setdefault(t.attr, []).append((m.name, n))
    sw = [(m, n) for m, n in tw.get("_start", []) if m != "__init__"]
    ok = len(sw) == 1 and sw[0][0] == "start"
    chk.ob("O5.2", "start written only by start()", ok, sw[0][1] if sw else TB, f"writers: {[m for m, _ in sw]}")
    nw = [(m, n) for m, n in tw.get("_now", []) if m != "__init__"]
    ok = bool(nw) and all(isinstance(n, ast.Assign) and isinstance(n.value, ast.Call) and dotted(n.value.func) == "time.perf_counter" for m, n in nw) and {m for m, _ in nw} == {"start", "next"}
    chk.ob("O5.2", "now only from the monotonic clock in start()/next()", ok, nw[0][1] if nw else TB, f"writers: {[(m, short(n, 40)) for m, n in nw]}")
    # every call of start() / next() advances `now`: warm-up / progress / completion are all read off it, also for a task whose end the parameter source decides
    cond = [(m, n) for m, n in nw if guards(n)]
    chk.ob("O5.2", "the clock is read on every call of start()/next() (unconditionally)", bool(nw) and not cond, cond[0][1] if cond else TB,
           "" if not cond else f"{cond[0][0]}() reads the clock only under {[u(t) for t, _ in guards(cond[0][1])]}: otherwise `now` never advances and every sample stays warm-up",
           key=f"{_D}:TimePeriodBased:now-unconditional")
    # start() makes start == now (elapsed 0)
    stf = _prop(drv, TB, "start")
    ok = any(isinstance(n, ast.Assign) and is_self_attr(n.targets[0], "_start") and (is_self_attr(n.value, "_now") or dotted(getattr(n.value, "func", ast.Name(id=""))) == "time.perf_counter") for n in walk_body(stf))
    chk.ob("O5.2", "start() sets start to the current clock", ok, stf, "")

    # ---- O5.3 generator discipline -----------------------------------------------------------------------------------------------------
    chk.rule("O5.3", "schedule generator: finite branch loops while not completed; each iteration computes next_scheduled = sched.next(previous), yields "
             "(next_scheduled, sample_type, progress, runner, params) and calls progress-control next() exactly once after the yield", 6,
             "requests issued after completion, progress advancing twice per request (half the iterations) or never (endless task), scheduled times not threaded")
    gen = _prop(drv, SH, "__call__")
    gg = cfg_of(gen)
    loops = [n for n in walk_body(gen) if isinstance(n, ast.While)]
    if len(loops) < 2:
        raise AnchorMissing("the two generator loops in ScheduleHandle.__call__")
    fin = [l for l in loops if not (isinstance(l.test, ast.Constant))]
    inf = [l for l in loops if isinstance(l.test, ast.Constant)]
    if not fin or not inf:
        raise AnchorMissing("finite / infinite loop in ScheduleHandle.__call__")
    ok = pat.is_(negate(fin[0].test), "self.task_progress_control.completed")
    chk.ob("O5.3", "finite loop guard == not completed", ok, fin[0], f"`{u(fin[0].test)}`")
    gs = guards(fin[0])
    ok = holds(fin[0], "not self.task_progress_control.infinite")
    chk.ob("O5.3", "finite loop iff the progress control is finite", ok, fin[0], f"guards {[(u(t), p) for t, p in gs]}")
    threaded = {}
    for name, l in (("finite", fin[0]), ("infinite", inf[0])):
        ys = [n for n in ast.walk(l) if isinstance(n, ast.Yield)]
        nx = [n for n in ast.walk(l) if isinstance(n, ast.Call) and u(n.func) == "self.task_progress_control.next"]
        sn = [n for n in ast.walk(l) if isinstance(n, ast.Assign) and isinstance(n.value, ast.Call) and u(n.value.func) == "self.sched.next"]
        lh = gg.node_of(l)
        ok = len(ys) == 1 and len(nx) == 1 and len(sn) == 1
        chk.ob("O5.3", f"{name}: one yield, one next(), one sched.next per iteration", ok, l, f"yields={len(ys)} next={len(nx)} sched.next={len(sn)}")
        if not ok:
            continue
        y, n_, s_ = gg.node_of(ys[0]), gg.node_of(nx[0]), gg.node_of(sn[0])
        ok = gg.dominated_by_nodes(n_, [y]) and not gg.path_exists(n_, y, avoid=[lh]) and not guards(nx[0], stop=l)
        # every normal path from the yield to the loop head passes next()
        ok = ok and lh.id not in gg.reachable([gg.nodes[t] for t, lab in gg.succ[y.id] if gg.normal_edge(y.id, t, lab)], avoid=[n_], edge_ok=gg.normal_edge)
        chk.ob("O5.3", f"{name}: next() exactly once after the yield", ok, nx[0], "")
        tgt = sn[0].targets[0].id if len(sn[0].targets) == 1 and isinstance(sn[0].targets[0], ast.Name) else None
        if tgt is not None:
            threaded.setdefault(tgt, []).append(l)
        ok = tgt is not None and sn[0].value.args and u(sn[0].value.args[0]) == tgt and gg.dominated_by_nodes(y, [s_]) and not gg.path_exists(y, s_, avoid=[lh])
        chk.ob("O5.3", f"{name}: scheduled time threaded (next = sched.next(previous)) before the yield", ok, sn[0], short(sn[0], 60))
        tup = ys[0].value
        ok = isinstance(tup, ast.Tuple) and len(tup.elts) == 5 and u(tup.elts[0]) == tgt and u(tup.elts[1]) == "self.task_progress_control.sample_type" and u(tup.elts[3]) == "self.runner"
        if name == "finite":
            ok = ok and u(tup.elts[2]) == "self.task_progress_control.percent_completed"
        chk.ob("O5.3", f"{name}: yielded tuple (scheduled, sample type, progress, runner, params)", ok, ys[0], short(tup, 120))
    # role: the variable threaded through sched.next() in a loop is written outside the threading loops exactly once, with 0, on every path to the loop (and one loop does not feed the other)
    ok = bool(threaded)
    inits = []
    for tgt, ls in threaded.items():
        outside = [n for n in walk_body(gen) if isinstance(n, (ast.Assign, ast.AugAssign, ast.AnnAssign, ast.NamedExpr)) and not any(l is a for l in ls for a in source.ancestors(n))
                   and any(isinstance(x, ast.Name) and x.id == tgt for t in (n.targets if isinstance(n, ast.Assign) else [n.target]) for x in ast.walk(t))]
        zero = [n for n in outside if isinstance(n, ast.Assign) and len(n.targets) == 1 and isinstance(n.targets[0], ast.Name) and source.is_const(n.value, 0)]
        inits += zero
        ok = ok and len(zero) == 1 and len(outside) == 1 and all(gg.dominated_by_nodes(gg.node_of(l), [gg.node_of(zero[0])]) for l in ls) \
            and not any(a is not b and gg.path_exists(gg.node_of(a), gg.node_of(b)) for a in ls for b in ls)
    chk.ob("O5.3", "first scheduled time derives from 0", ok, inits[0] if inits else gen, f"threaded through sched.next(): {sorted(threaded)}")

    # ---- O5.4 pacing ----------------------------------------------------------------------------------------------------------------------------
    chk.rule("O5.4", "pacing: deterministic next == current + 1/theta; Poisson current + expovariate(theta); unthrottled 0; unit-aware theta == T / clients / weight "
             "(so consecutive requests are weight*C/T apart); ops/s target with another reported unit => weight 1 on every call; ramp-up == ramp * (i / total), "
             "progress timer started before the ramp-up wait, wait before the main loop, the request schedule anchored at the END of the wait", 9,
             "throttled tasks run at another rate than specified; clients start before/after their ramp-up slot; warm-up window shifted by the ramp-up delay")
    DS = sch.cls("DeterministicScheduler")
    di = _prop(sch, DS, "__init__")
    dn = _prop(sch, DS, "next")
    thp = _param(di, 2)
    dattrs = {n.targets[0].attr: n.value for n in walk_body(di) if isinstance(n, ast.Assign) and is_self_attr(n.targets[0])}
    r = _single_return(dn)

    def dexp(e):
        class X(ast.NodeTransformer):
            def visit_Attribute(self, n):
                if is_self_attr(n) and n.attr in dattrs:
                    return source.clone(dattrs[n.attr])
                return n

        return X().visit(source.clone(e))

    cur = _param(dn, 1)
    ok = r is not None and rat_equal(dexp(r), parse_expr(f"{cur} + 1 / {thp}"))
    chk.ob("O5.4", "deterministic: next == current + 1/theta", ok, dn, f"`{u(dexp(r)) if r is not None else None}`")
    PS = sch.cls("PoissonScheduler")
    pi, pn = _prop(sch, PS, "__init__"), _prop(sch, PS, "next")
    pattrs = {n.targets[0].attr: n.value for n in walk_body(pi) if isinstance(n, ast.Assign) and is_self_attr(n.targets[0])}
    r = _single_return(pn)
    ok = False
    if isinstance(r, ast.BinOp) and isinstance(r.op, ast.Add):
        sides = [r.left, r.right]
        cur = _param(pn, 1)
        ex = [s for s in sides if isinstance(s, ast.Call) and dotted(s.func) == "random.expovariate"]
        ok = len(ex) == 1 and any(u(s) == cur for s in sides) and len(ex[0].args) == 1 and is_self_attr(ex[0].args[0]) and u(pattrs.get(ex[0].args[0].attr)) == _param(pi, 2)
    chk.ob("O5.4", "poisson: next == current + expovariate(theta)", ok, pn, f"`{u(r) if r is not None else None}`")
    UT = sch.cls("Unthrottled")
    r = _single_return(_prop(sch, UT, "next"))
    chk.ob("O5.4", "unthrottled: next == 0", r is not None and source.is_const(r, 0), _prop(sch, UT, "next"), "")
    UA = sch.cls("UnitAwareScheduler")
    ar = _prop(sch, UA, "after_request")
    adefs = {k: v for k, v in local_defs(ar).items() if k not in params_of(ar)}  # a re-assigned parameter is not a single-definition local
    # role: theta is what the delegate's constructor receives as its target-throughput parameter in `self.scheduler_class(task, theta)`; `tt` is the statement computing it
    # (the defining assignment when theta is a local, else the statement holding the constructor call)
    scc = [c for c in walk_body(ar) if isinstance(c, ast.Call) and is_self_attr(c.func, "scheduler_class")]
    theta = bind_args(scc[0], di).get(thp) if len(scc) == 1 else None
    tt = []
    if isinstance(theta, ast.Name) and theta.id in adefs:
        tt = [n for n in walk_body(ar) if isinstance(n, ast.Assign) and n.value is adefs[theta.id]]
    elif theta is not None and not isinstance(theta, ast.Name):
        tt = [source.enclosing_stmt(scc[0])]
    ok = False
    detail = "target throughput assignment not found"
    if tt:
        e = tt[0].value if isinstance(theta, ast.Name) else theta  # the direct definition only: deeper locals could be stale reads of the weight
        ok = rat_equal(e, parse_expr("self.task.target_throughput.value / self.task.clients / self.current_weight"))
        detail = f"theta = {u(e)}"
        # composition with the deterministic wait
        comp = ratfun(parse_expr("1 / THETA"), subst=lambda n: e if isinstance(n, ast.Name) and n.id == "THETA" else None)
        want = ratfun(parse_expr("self.current_weight * self.task.clients / self.task.target_throughput.value"))
        ok = ok and comp == want
    chk.ob("O5.4", "unit-aware: theta == T / clients / weight (gap == weight*C/T)", ok, tt[0] if tt else ar, detail)
    cw = [n for n in walk_body(ar) if isinstance(n, ast.Assign) and any(is_self_attr(t, "current_weight") for t in n.targets)]
    wparam = _param(ar, 2)
    ok = len(cw) == 1 and u(cw[0].value) == wparam and bool(tt) and cfg_of(ar).dominated_by_nodes(cfg_of(ar).node_of(tt[0]), [cfg_of(ar).node_of(cw[0])])
    chk.ob("O5.4", "current weight updated from the reported weight before theta is computed", ok, cw[0] if cw else ar, "")
    w1 = [n for n in walk_body(ar) if isinstance(n, ast.Assign) and isinstance(n.targets[0], ast.Name) and n.targets[0].id == wparam and source.is_const(n.value, 1)]
    ok = False
    detail = "no `weight = 1` normalisation"
    if w1:
        gs = guards(w1[0])
        # guard facts of the normalisation beyond those of the update branch itself (the branch that stores current_weight): exactly {reported unit != target unit, target unit == 'ops/s'},
        # whatever the nesting / arm polarity / orientation / local names; any further condition (e.g. first_request) means it is not applied on every call
        outer = {u(f_) for c_ in cw for f_ in pat.fact_nodes(c_)}
        inner = [source.inline_node(f_, adefs) for f_ in pat.fact_nodes(w1[0]) if u(f_) not in outer]
        UNIT = "self.task.target_throughput.unit"
        uparam = params_of(ar)[3] if len(params_of(ar)) > 3 else None
        is_opss = [f_ for f_ in inner if pat.is_(f_, f"{UNIT} == 'ops/s'")]
        mism = [f_ for f_ in inner if f_ not in is_opss and (c_ := oriented(f_, lambda n: u(n) == UNIT)) is not None and c_[1] == "!=" and uparam is not None
                and any(isinstance(x, ast.Name) and x.id == uparam for x in ast.walk(c_[2])) and "/s" in u(c_[2])]
        ok = len(cw) == 1 and len(is_opss) == 1 and len(mism) == 1 and len(inner) == 2
        detail = f"weight = 1 under {[(u(t), p) for t, p in gs]}; beyond the update branch: {[u(f_) for f_ in inner]}"
    chk.ob("O5.4", "ops/s target with another unit: weight normalised to 1 on every call (not only the first)", ok, w1[0] if w1 else ar, detail)
    # scheduler re-created with the new theta on every path through the update branch
    mk = [n for n in walk_body(ar) if isinstance(n, ast.Assign) and any(is_self_attr(t, "scheduler") for t in n.targets)]
    # rebuilt exactly when the weight is stored and theta recomputed (same guard facts), i.e. under the update condition weight > 0 and (first request or weight changed), from that theta
    upd = [u(f_) for f_ in pat.fact_nodes(mk[0])] if mk else []
    ok = len(mk) == 1 and bool(tt) and len(cw) == 1 and sorted(upd) == sorted(u(f_) for f_ in pat.fact_nodes(cw[0])) == sorted(u(f_) for f_ in pat.fact_nodes(tt[0])) \
        and len(upd) == 2 and any(pat.is_(f_, f"{wparam} > 0") for f_ in pat.fact_nodes(mk[0])) \
        and any(pat.is_(f_, f"self.first_request or self.current_weight != {wparam}") for f_ in pat.fact_nodes(mk[0])) \
        and isinstance(mk[0].value, ast.Call) and mk[0].value is scc[0]
    chk.ob("O5.4", "delegate scheduler rebuilt with the new theta", ok, mk[0] if mk else ar, "")
    sf = sch.func("scheduler_for")
    sfp = _param(sf, 0)
    ok = any(isinstance(n, ast.Return) and isinstance(n.value, ast.Call) and last_attr(n.value.func) == "Unthrottled" and any(pat.is_(f_, f"run_unthrottled({sfp})") for f_ in pat.fact_nodes(n)) for n in walk_body(sf))
    chk.ob("O5.4", "unthrottled scheduler iff run_unthrottled(task)", ok, sf, "")
    ru = sch.func("run_unthrottled")
    r = _single_return(ru)
    from sa.cfg import conjuncts

    ok = r is not None and isinstance(r, ast.BoolOp) and isinstance(r.op, ast.And) and any(pat.is_(v, f"{_param(ru, 0)}.target_throughput is None") for v in conjuncts(r))
    chk.ob("O5.4", "unthrottled requires target throughput is None", ok, ru, "")
    # ramp-up
    rw = _prop(drv, SH, "ramp_up_wait_time")
    rets = [n for n in walk_body(rw) if isinstance(n, ast.Return)]
    rdefs = local_defs(rw)
    ok = False
    for rr in rets:
        if not source.is_const(rr.value, 0):
            ok = rat_equal(source.inline_node(rr.value, rdefs), parse_expr("self.task_allocation.task.ramp_up_time_period * self.task_allocation.global_client_index / self.task_allocation.total_clients"))
    chk.ob("O5.4", "ramp-up wait == ramp * (i / total)", ok, rw, f"{[u(x.value) for x in rets]}")
    from rules.C02 import allocation_totals

    allocation_totals(chk, "O5.4", drv)
    ex, ge, edefs, sleeps, starts, loops_, sl, stt, lp = timer_before_rampup_rule(chk, "O5.4", drv, "the warm-up / time period would start after the ramp-up delay: client i runs ramp*i/total too long")
    ok = not ge.path_exists(lp, sl) and len(starts) == 1
    chk.ob("O5.4", "ramp-up wait before the main loop", ok, sleeps[0], "")
    gs = [source.inline_node(f_, edefs) for f_ in pat.fact_nodes(sleeps[0])]
    ok = len(gs) == 1 and pat.is_(gs[0], "self.schedule_handle.ramp_up_wait_time", "self.schedule_handle.ramp_up_wait_time > 0", "self.schedule_handle.ramp_up_wait_time != 0")
    chk.ob("O5.4", "ramp-up wait guarded only by a non-zero wait time", ok, sleeps[0], "")

    # ---- O5.6 target throughput parsing ------------------------------------------------------------------------------------------------------------------
    chk.rule("O5.6", "target throughput of a task: interval k => 1/k ops/s; numeric throughput v => v ops/s; string 'v unit/s' => (v, unit/s); both given, non-numeric interval, malformed string "
             "or another type => rejected; neither => unthrottled (None)", 8,
             "a target interval is taken as a rate (or vice versa): the task is paced at the inverse of what the track says")
    TKc = repo.module("esrally/track/track.py").cls("Task")
    repo_trk = repo.module("esrally/track/track.py")
    chk.use(repo_trk)
    tt = repo_trk.methods(TKc).get("target_throughput")
    if tt is None:
        raise AnchorMissing("Task.target_throughput")
    body = [s_ for s_ in tt.body if not isinstance(s_, ast.FunctionDef)]
    # roles instead of names: an expression is "the interval" / "the throughput" when, with locals substituted, it reads the key target-interval / target-throughput
    tdefs = local_defs(tt)
    localfns = {f_.name: f_ for f_ in tt.body if isinstance(f_, ast.FunctionDef)}

    def role_of(e):
        t = source.inline(e, tdefs)
        if "'target-interval'" in t and "'target-throughput'" not in t:
            return "iv"
        if "'target-throughput'" in t and "'target-interval'" not in t:
            return "tv"
        return None

    CASES = [  # (label, interval, throughput) abstract values: None | 'num' | 'nonnum' | 'str-ok' | 'str-bad' | 'other'
        ("neither given", None, None, ("none", None, None)),
        ("both given", "num", "num", ("raise", None, None)),
        ("interval numeric", "num", None, ("value", "1 / float(IV)", "'ops/s'")),
        ("interval not numeric", "nonnum", None, ("raise", None, None)),
        ("throughput numeric", None, "num", ("value", "float(TV)", "'ops/s'")),
        ("throughput well-formed string", None, "str-ok", ("value", "float(MATCH.group('value'))", "MATCH.group('unit')")),
        ("throughput malformed string", None, "str-bad", ("raise", None, None)),
        ("throughput of another type", None, "other", ("raise", None, None)),
    ]
    IVX, TVX = "self.params.get('target-interval')", "self.params.get('target-throughput')"

    def canon(e):
        """bound value with locals substituted, roles abstracted: IV / TV / MATCH."""
        if e is None:
            return None
        t = source.inline(e, tdefs)
        import re as _re
        t = _re.sub(r"re\.(?:match|fullmatch)\([^()]*(?:\([^()]*\)[^()]*)*\)", "MATCH", t)
        return t.replace(IVX, "IV").replace(TVX, "TV")

    for label, iv, tv, want in CASES:
        val = {"iv": iv, "tv": tv}

        def atom(n, env, val=val):
            if isinstance(n, ast.Call) and dotted(n.func) in ("re.match", "re.fullmatch", "re.search") and len(n.args) == 2 and role_of(n.args[1]) == "tv":
                return val["tv"] == "str-ok"
            if isinstance(n, ast.Call) and isinstance(n.func, ast.Name) and n.func.id in localfns and len(n.args) == 1 and role_of(n.args[0]):
                return val[role_of(n.args[0])] == "num"  # the local predicate `numeric`
            if isinstance(n, ast.Call) and dotted(n.func) == "isinstance" and len(n.args) == 2 and role_of(n.args[0]) and u(n.args[1]) == "str":
                return val[role_of(n.args[0])] in ("str-ok", "str-bad")
            if isinstance(n, ast.Compare) and len(n.ops) == 1 and isinstance(n.ops[0], (ast.Is, ast.IsNot)) and _is_none(n.comparators[0]) and role_of(n.left):
                isnone = val[role_of(n.left)] is None
                return isnone if isinstance(n.ops[0], ast.Is) else not isnone
            r = role_of(n)
            if r and isinstance(n, (ast.Name, ast.Call)):
                return val[r] is not None  # truthiness of the raw parameter
            if isinstance(n, ast.Constant):
                return bool(n.value)
            if isinstance(n, (ast.BinOp, ast.Call)) and (("IV" in (canon(n) or "")) or ("TV" in (canon(n) or "")) or "MATCH" in (canon(n) or "")):
                return True  # the computed value (non-zero for the representative inputs)
            return None

        try:
            out = decide(body, atom, {})
        except (Unsupported, UnknownAtom) as e:
            chk.unknown("O5.6", f"target_throughput is not a decision over (interval kind, throughput kind): {e}", tt)
            break
        if want[0] == "raise":
            ok = out.kind == "raise"
            got = out.text()
        elif want[0] == "none":
            ok = out.kind == "return" and isinstance(out.value, ast.Constant) and out.value.value is None
            got = out.text()
        else:
            a_ = [canon(x) for x in out.value.args] if out.kind == "return" and isinstance(out.value, ast.Call) and last_attr(out.value.func) == "Throughput" else []
            b_ = getattr(out, "bindings", {})
            a_ = [canon(b_[x.id]) if isinstance(x, ast.Name) and b_.get(x.id) is not None else canon(x) for x in out.value.args] if a_ else []
            ok = a_ == [want[1], want[2]]
            got = f"{out.text()} with (value, unit) = {a_}"
        chk.ob("O5.6", f"{label}", ok, tt, f"{got}; expected {want}", key=f"esrally/track/track.py:Task.target_throughput:{label}")
    tpat = [n for n in TKc.body if isinstance(n, ast.Assign) and u(n.targets[0]) == "THROUGHPUT_PATTERN"]
    ok = bool(tpat) and isinstance(tpat[0].value, ast.Call) and bool(tpat[0].value.args) and isinstance(tpat[0].value.args[0], ast.Constant) and "(?P<value>" in tpat[0].value.args[0].value and "(?P<unit>" in tpat[0].value.args[0].value and "/s" in tpat[0].value.args[0].value
    chk.ob("O5.6", "string form parsed with named groups value / unit (unit ends in /s)", ok, tpat[0] if tpat else TKc, "")
    throughput_pattern_rule(chk, "O5.6", repo_trk)
    reads = {source.inline(v_, {}) for v_ in tdefs.values()}
    ok = IVX in reads and TVX in reads
    chk.ob("O5.6", "read from the keys target-throughput / target-interval", ok, tt, "")

    # ---- O5.5 loop-control choice --------------------------------------------------------------------------------------------------------------------
    chk.rule("O5.5", "loop-control choice as a decision table: any time-period field => time-based; else any iteration field => iteration-based; else runner completion => time-based; "
             "else finite parameter source => time-based; the chosen control receives (warm-up, measurement) from the task fields of the same kind", 8,
             "explicit iterations ignored (task never stops after W+I requests) or explicit time periods ignored")
    rq = drv.func("requires_time_period_schedule")
    tpn, rn, pn_ = _param(rq, 0), _param(rq, 1), _param(rq, 2)

    FIELD = {(tpn, "warmup_time_period"): "wt", (tpn, "time_period"): "t", (tpn, "warmup_iterations"): "wi", (tpn, "iterations"): "i", (rn, "completed"): "rc"}

    def atom(n, env):
        """role atoms: `<param>.<field> is [not] None` in either orientation; `<params>.infinite`."""
        if isinstance(n, ast.Compare) and len(n.ops) == 1 and isinstance(n.ops[0], (ast.Is, ast.IsNot)):
            l, r = n.left, n.comparators[0]
            x = r if _is_none(l) else l if _is_none(r) else None
            if isinstance(x, ast.Attribute) and isinstance(x.value, ast.Name) and (x.value.id, x.attr) in FIELD:
                given = env[FIELD[(x.value.id, x.attr)]]
                return given if isinstance(n.ops[0], ast.IsNot) else not given
            return None
        if isinstance(n, ast.Attribute) and isinstance(n.value, ast.Name) and n.value.id == pn_ and n.attr == "infinite":
            return env["inf"]
        return None

    n_rows = 0
    try:
        for vals in itertools.product([False, True], repeat=6):
            env = dict(zip(["wt", "t", "wi", "i", "rc", "inf"], vals))
            out = decide(rq.body, atom, env)
            if out.kind != "return":
                chk.ob("O5.5", f"row {env}", False, rq, f"no decision: {out.text()}")
                continue
            from sa.sym import bool_eval

            got = bool_eval(out.value, lambda n: atom(n, env))
            if env["wt"] or env["t"]:
                want = True
            elif env["wi"] or env["i"]:
                want = False
            elif env["rc"]:
                want = True
            else:
                want = not env["inf"]
            n_rows += 1
            if got != want:
                chk.ob("O5.5", f"choice for {', '.join(k for k, v in env.items() if v) or 'nothing set'}", False, rq,
                       f"chooses {'time-based' if got else 'iteration-based'}, documented: {'time-based' if want else 'iteration-based'}",
                       key=f"{_D}:requires_time_period_schedule:{sorted(k for k, v in env.items() if v)}")
        chk.ob("O5.5", "decision table rows evaluated", n_rows == 64, rq, f"{n_rows} of 64 abstract cases agree with the documented precedence")
    except (Unsupported, UnknownAtom) as e:
        chk.unknown("O5.5", f"requires_time_period_schedule is not a decision function over the six role atoms: {e}", rq)
    sfn = drv.func("schedule_for")
    sdefs = {}
    for n in walk_body(sfn):
        if isinstance(n, ast.Assign) and len(n.targets) == 1 and isinstance(n.targets[0], ast.Name):
            sdefs.setdefault(n.targets[0].id, []).append(n.value)
    ibc = [n for n in walk_body(sfn) if isinstance(n, ast.Call) and last_attr(n.func) == "IterationBased"]
    tbc = [n for n in walk_body(sfn) if isinstance(n, ast.Call) and last_attr(n.func) == "TimePeriodBased"]
    if not ibc or not tbc:
        raise AnchorMissing("IterationBased(...) / TimePeriodBased(...) construction in schedule_for")

    ta = _param(sfn, 0)

    def is_task(x, depth=0):
        """role: the task of the allocation — `<allocation parameter>.task` itself or a local all of whose definitions are that."""
        if isinstance(x, ast.Attribute):
            return x.attr == "task" and isinstance(x.value, ast.Name) and x.value.id == ta
        return isinstance(x, ast.Name) and x.id != ta and depth < 4 and bool(sdefs.get(x.id)) and all(is_task(v, depth + 1) for v in sdefs[x.id])

    def sources(e):
        """attribute names of the task an expression can carry (through the local's definitions)."""
        out = set()
        todo = [e]
        seen = set()
        while todo:
            x = todo.pop()
            for n in ast.walk(x):
                if isinstance(n, ast.Attribute) and is_task(n.value):
                    out.add(n.attr)
                if isinstance(n, ast.Name) and n.id in sdefs and n.id not in seen:
                    seen.add(n.id)
                    todo.extend(sdefs[n.id])
        return out

    b = bind_args(ibc[0], init)
    chk.ob("O5.5", "IterationBased(warm-up := task.warmup_iterations)", sources(b.get(W)) == {"warmup_iterations"} if b.get(W) is not None else False, ibc[0], f"{W} <- {sorted(sources(b[W])) if b.get(W) is not None else None}")
    chk.ob("O5.5", "IterationBased(iterations := task.iterations)", sources(b.get(I)) == {"iterations"} if b.get(I) is not None else False, ibc[0], f"{I} <- {sorted(sources(b[I])) if b.get(I) is not None else None}")
    b = bind_args(tbc[0], tinit)
    chk.ob("O5.5", "TimePeriodBased(warm-up := task.warmup_time_period)", sources(b.get(Wt)) == {"warmup_time_period"} if b.get(Wt) is not None else False, tbc[0], "")
    chk.ob("O5.5", "TimePeriodBased(period := task.time_period)", sources(b.get(T)) == {"time_period"} if b.get(T) is not None else False, tbc[0], "")
    ok = any(pat.is_(f_, "requires_time_period_schedule(E_a, E_b, E_c)") for f_ in pat.fact_nodes(tbc[0])) and any(pat.is_(f_, "not requires_time_period_schedule(E_a, E_b, E_c)") for f_ in pat.fact_nodes(ibc[0]))
    chk.ob("O5.5", "time-based control iff requires_time_period_schedule", ok, tbc[0], "")
    # the chosen control reaches the schedule handle
    shc = [n for n in walk_body(sfn) if isinstance(n, ast.Call) and last_attr(n.func) == "ScheduleHandle"]
    lc = bind_args(shc[0], _prop(drv, SH, "__init__")).get("task_progress_control") if shc else None
    ok = isinstance(lc, ast.Name) and lc.id in sdefs and all(isinstance(v, ast.Call) and last_attr(v.func) in ("IterationBased", "TimePeriodBased") for v in sdefs[lc.id])
    chk.ob("O5.5", "the chosen loop control is handed to the schedule handle", ok, shc[0] if shc else sfn, "")
    # params partitioned with the task-local client index
    partition_call_rule(chk, "O5.5", drv)
    from rules.C01 import complete_read_exemption_rule

    complete_read_exemption_rule(chk, "O5.5", drv)
    parallel_defaults_rule(chk, "O5.5", repo)
    # ---- obligations added after the defect hunt (kept last: an anchor they cannot find must not hide the verdicts above) ----------------------------------
    schedule_anchor_rule(chk, "O5.4", ex, loops_[0])  # F40
    iteration_time_mix_rule(chk, "O5.5", repo)  # F48
    chk.rule("O5.7", "the progress reported for a running step is monotone by construction: the per-step table of most recent samples is keyed by (client, task), and the mean "
             "over it is not taken over the clients that have reported so far only (or the reported value is a per-step high-water mark)", 4,
             "reported progress decreases: a client that runs two tasks of a parallel element in turn (100% -> 25%), or a slower client whose first samples arrive later (60% -> 40%)")
    progress_aggregate_rule(chk, "O5.7", drv)  # F47


from sa.selftest import V  # noqa: E402

VARIANTS = [
    V("completed it > total", "break", _D, "        return self._it >= self._total_iterations", "        return self._it > self._total_iterations", "O5.1"),
    V("warmup it <= W", "break", _D, "        return metrics.SampleType.Warmup if self._it < self._warmup_iterations else metrics.SampleType.Normal", "        return metrics.SampleType.Warmup if self._it <= self._warmup_iterations else metrics.SampleType.Normal", "O5.1"),
    V("progress it / total", "break", _D, "        return (self._it + 1) / self._total_iterations", "        return self._it / self._total_iterations", "O5.1"),
    V("total is iterations only", "break", _D, "            self._total_iterations = self._warmup_iterations + self._iterations", "            self._total_iterations = self._iterations", "O5.1"),
    V("counter advanced by 2", "break", _D, "        self._it += 1", "        self._it += 2", "O5.1"),
    V("time warmup inverted", "break", _D, "        return metrics.SampleType.Warmup if self._elapsed < self._warmup_time_period else metrics.SampleType.Normal", "        return metrics.SampleType.Warmup if self._elapsed > self._warmup_time_period else metrics.SampleType.Normal", "O5.2"),
    V("completed ignores warmup", "break", _D, "            self._duration = self._warmup_time_period + self._time_period", "            self._duration = self._time_period", "O5.2"),
    V("start reassigned in next()", "break", _D, "    def next(self):\n        self._now = time.perf_counter()", "    def next(self):\n        self._now = time.perf_counter()\n        self._start = self._now", "O5.2"),
    V("next() before the yield", "break", _D, "                    next_scheduled = self.sched.next(next_scheduled)\n                    # current_params = await self.loop.run_in_executor(self.io_pool_exc, self.params.params)\n                    yield (\n                        next_scheduled,\n                        self.task_progress_control.sample_type,\n                        self.task_progress_control.percent_completed,",
      "                    next_scheduled = self.sched.next(next_scheduled)\n                    self.task_progress_control.next()\n                    yield (\n                        next_scheduled,\n                        self.task_progress_control.sample_type,\n                        self.task_progress_control.percent_completed,", "O5.3"),
    V("scheduled time not threaded", "break", _D, "            while not self.task_progress_control.completed:\n                try:\n                    next_scheduled = self.sched.next(next_scheduled)", "            while not self.task_progress_control.completed:\n                try:\n                    next_scheduled = self.sched.next(0)", "O5.3"),
    V("weight dropped from theta", "break", _S, "            target_throughput = self.task.target_throughput.value / self.task.clients / self.current_weight", "            target_throughput = self.task.target_throughput.value / self.task.clients", "O5.4"),
    V("deterministic wait = theta", "break", _S, "        self.wait_time = 1 / target_throughput", "        self.wait_time = target_throughput", "O5.4"),
    V("seed m2: unit check only on first request", "break", _S, "                if expected_unit == \"ops/s\":\n                    weight = 1\n                    if self.first_request:", "                if expected_unit == \"ops/s\" and self.first_request:\n                    weight = 1\n                    if self.first_request:", "O5.4"),
    V("ramp-up by task clients", "break", _D, "            return ramp_up_time_period * (self.task_allocation.global_client_index / self.task_allocation.total_clients)", "            return ramp_up_time_period * (self.task_allocation.client_index_in_task / self.task_allocation.total_clients)", "O5.4"),
    V("seed m3: timer started after the ramp-up wait", "break", _D, "        self.schedule_handle.start()\n        rampup_wait_time = self.schedule_handle.ramp_up_wait_time\n        if rampup_wait_time:\n            self.logger.debug(\"client id [%s] waiting [%.2f]s for ramp-up.\", self.client_id, rampup_wait_time)\n            await asyncio.sleep(rampup_wait_time)\n",
      "        rampup_wait_time = self.schedule_handle.ramp_up_wait_time\n        if rampup_wait_time:\n            self.logger.debug(\"client id [%s] waiting [%.2f]s for ramp-up.\", self.client_id, rampup_wait_time)\n            await asyncio.sleep(rampup_wait_time)\n        self.schedule_handle.start()\n", "O5.4"),
    V("F40 reverted: schedule anchored before the ramp-up wait", "break", _D, "                absolute_expected_schedule_time = schedule_start + expected_scheduled_time", "                absolute_expected_schedule_time = total_start + expected_scheduled_time", "O5.4"),
    V("F40 equivalent break: anchor is the pre-wait clock on both arms", "break", _D, "        schedule_start = time.perf_counter() if rampup_wait_time else total_start\n", "        schedule_start = total_start if rampup_wait_time else total_start\n", "O5.4"),
    V("loader accepts the crossed mix warmup-iterations + time-period", "break", "esrally/track/loader.py", "        if task.warmup_iterations is not None and task.time_period is not None:", "        if False:", "O5.5"),
    V("loader rejects a pure iteration task", "break", "esrally/track/loader.py", "        elif task.warmup_time_period is not None and task.iterations is not None:", "        elif task.warmup_iterations is not None and task.iterations is not None:", "O5.5"),
    V("progress table keyed by the task only", "break", _D, "                self.most_recent_sample_per_client[s.client_id] = s", "                self.most_recent_sample_per_client[s.task] = s", "O5.7"),
    V("seed m1: runner completion beats explicit iterations", "break", _D, "    if task.warmup_time_period is not None or task.time_period is not None:\n        return True", "    if task.warmup_time_period is not None or task.time_period is not None or task_runner.completed is not None:\n        return True", "O5.5"),
    V("iterations passed as warm-up", "break", _D, "        loop_control = IterationBased(warmup_iterations, iterations)", "        loop_control = IterationBased(iterations, warmup_iterations)", "O5.5"),
    V("warm-up period from time_period", "break", _D, "        warmup_time_period = task.warmup_time_period if task.warmup_time_period else 0", "        warmup_time_period = task.time_period if task.warmup_time_period else 0", "O5.5"),
    V("interval taken as a rate", "break", "esrally/track/track.py", "            value = 1 / float(target_interval)", "            value = float(target_interval)", "O5.6"),
    V("both interval and throughput accepted", "break", "esrally/track/track.py", "        if target_interval is not None and target_throughput is not None:", "        if False:", "O5.6"),
    V("throughput key misspelled", "break", "esrally/track/track.py", "        target_throughput = self.params.get(\"target-throughput\")", "        target_throughput = self.params.get(\"target_throughput\")", "O5.6"),
    # preserving
    V("total - it <= 0", "keep", _D, "        return self._it >= self._total_iterations", "        return self._total_iterations - self._it <= 0"),
    V("W > it", "keep", _D, "        return metrics.SampleType.Warmup if self._it < self._warmup_iterations else metrics.SampleType.Normal", "        return metrics.SampleType.Warmup if self._warmup_iterations > self._it else metrics.SampleType.Normal"),
    V("theta written directly", "keep", _S, "            target_throughput = self.task.target_throughput.value / self.task.clients / self.current_weight", "            target_throughput = self.task.target_throughput.value / (self.task.clients * self.current_weight)"),
    V("strict time completion", "keep", _D, "        return self._now >= (self._start + self._duration)", "        return self._now > (self._start + self._duration)"),
    V("F40 respelled: anchor chosen by an if/else statement", "keep", _D, "        schedule_start = time.perf_counter() if rampup_wait_time else total_start\n",
      "        if rampup_wait_time:\n            schedule_start = time.perf_counter()\n        else:\n            schedule_start = total_start\n"),
    V("F40 respelled: anchor read inside the ramp-up branch after the sleep, else the start time", "keep", _D,
      "            await asyncio.sleep(rampup_wait_time)\n        # the client's schedule starts when the client starts, i.e. after any ramp-up wait\n        schedule_start = time.perf_counter() if rampup_wait_time else total_start\n",
      "            await asyncio.sleep(rampup_wait_time)\n            schedule_start = time.perf_counter()\n        else:\n            schedule_start = total_start\n"),
    [V("F40 respelled: anchor preset to the start time, re-read after the sleep", "keep", _D, "        rampup_wait_time = self.schedule_handle.ramp_up_wait_time\n",
       "        rampup_wait_time = self.schedule_handle.ramp_up_wait_time\n        schedule_start = total_start\n"),
     V("", "keep", _D, "            await asyncio.sleep(rampup_wait_time)\n        # the client's schedule starts when the client starts, i.e. after any ramp-up wait\n        schedule_start = time.perf_counter() if rampup_wait_time else total_start\n",
       "            await asyncio.sleep(rampup_wait_time)\n            schedule_start = time.perf_counter()\n")],
    V("F40 respelled: anchor folded into the due time", "keep", _D, "                absolute_expected_schedule_time = schedule_start + expected_scheduled_time", "                absolute_expected_schedule_time = expected_scheduled_time + schedule_start"),
    V("mixing rule: operands swapped, chain as two ifs", "keep", "esrally/track/loader.py", "        elif task.warmup_time_period is not None and task.iterations is not None:", "        if task.iterations is not None and task.warmup_time_period is not None:"),
    V("progress mean: divisor respelled (same known finding, same key)", "keep", _D, "                num_clients = max(len(progress_per_client), 1)", "                num_clients = len(progress_per_client) or 1"),
    V("progress table: key through a local (same known finding, same key)", "keep", _D, "                self.most_recent_sample_per_client[s.client_id] = s", "                reporter = s.client_id\n                self.most_recent_sample_per_client[reporter] = s"),
    V("decision function as nested ifs", "keep", _D, "    # user has explicitly requested iterations\n    if task.warmup_iterations is not None or task.iterations is not None:\n        return False",
      "    # user has explicitly requested iterations\n    if task.warmup_iterations is not None:\n        return False\n    if task.iterations is not None:\n        return False"),
]
