"""C05 — iterations, time periods, warm-up, progress and pacing follow the task spec (DESIGN.md section 4, C05)."""
from __future__ import annotations

import ast
import itertools

from sa import source
from sa.cfg import cfg_of
from sa.minieval import CannotEval, Record, ev
from sa.source import AnchorMissing, dotted, is_self_attr, last_attr, local_defs, params_of, short, u, walk_body

_D = "esrally/driver/driver.py"
_S = "esrally/driver/scheduler.py"


def _prop(mod, cls, name):
    f = mod.methods(cls).get(name)
    if f is None:
        raise AnchorMissing(f"{cls.name}.{name}")
    return f


def _param(f, i):
    """name of the i-th positional parameter (self included) — a stable anchor; AnchorMissing when the signature is shorter."""
    ps = params_of(f)
    if i >= len(ps):
        raise AnchorMissing(f"parameter #{i} of {getattr(f, 'name', '?')}({', '.join(ps)})")
    return ps[i]


def _regex_literal(v):
    """the pattern text of `re.compile(<literal>[, flags])` / a bare string literal, else None"""
    if isinstance(v, ast.Call) and (dotted(v.func) or "").split(".")[-1] == "compile" and v.args and isinstance(v.args[0], ast.Constant) and isinstance(v.args[0].value, str):
        return v.args[0].value
    if isinstance(v, ast.Constant) and isinstance(v.value, str) and "(?P<" in v.value:
        return v.value
    return None


def _throughput_pattern_sites(trk_mod):
    """Role: the regular expression(s) Task.target_throughput matches a string target against - a class-level or module-level constant (whatever its name) that the property or a
    helper of the class it calls refers to, or a pattern literal written inside it. [(node, pattern text)]"""
    TKc = trk_mod.cls("Task")
    meths = trk_mod.methods(TKc)
    tt = meths.get("target_throughput")
    if tt is None:
        raise AnchorMissing("Task.target_throughput")
    fns, todo = [], [tt]
    while todo:
        f = todo.pop()
        if any(f is g for g in fns):
            continue
        fns.append(f)
        for n in ast.walk(f):
            if isinstance(n, ast.Call) and isinstance(n.func, ast.Attribute) and isinstance(n.func.value, ast.Name) and n.func.value.id in ("self", "cls", TKc.name) and n.func.attr in meths:
                todo.append(meths[n.func.attr])
    used = {n.attr for f in fns for n in ast.walk(f) if isinstance(n, ast.Attribute)} | {n.id for f in fns for n in ast.walk(f) if isinstance(n, ast.Name)}
    sites = []
    for st in list(TKc.body) + list(trk_mod.tree.body):
        if isinstance(st, ast.Assign) and len(st.targets) == 1 and isinstance(st.targets[0], ast.Name) and st.targets[0].id in used and _regex_literal(st.value) is not None:
            sites.append((st, _regex_literal(st.value)))
    for f in fns:
        for n in ast.walk(f):
            if isinstance(n, ast.Call) and (dotted(n.func) or "").split(".")[0] == "re" and n.args and isinstance(n.args[0], ast.Constant) and isinstance(n.args[0].value, str):
                sites.append((n, n.args[0].value))
    return sites


def throughput_pattern_rule(chk, rid, trk_mod):
    """The pattern Task.target_throughput parses a string target with — shared with C10 (the loaded throughput target is the number written in the file). Decided twice:
    on VALUES (the extracted pattern literal, compiled by the standard library, is matched against '2.5 docs/s', '0.5 ops/s', '12.25 pages/s', '100 ops/s': its first group must
    be the whole number text, its last group the unit) and, where the pattern has the plain form <value group> <one whitespace> <unit group> (zero-width anchors aside), on the
    regex syntax tree (re._parser): the decimal point lies INSIDE the value group. A pattern of another form (anchored, non-capturing sub-groups, ...) is judged by what it
    captures, not by how it is written. The pattern is located by role (the regex constant / literal the property refers to), not by its name; not found => inconclusive."""
    TKc = trk_mod.cls("Task")
    sites = _throughput_pattern_sites(trk_mod)
    if len(sites) != 1:
        chk.unknown(rid, f"the regular expression Task.target_throughput parses a string target with: {len(sites)} candidate pattern literal(s) found (a class- or module-level "
                    f"`re.compile(<literal>)` the property refers to, or a literal inside it)", TKc)
        return
    site, text = sites[0]
    import re._parser as _rp  # the standard library's own regex parser; nothing is matched, the pattern's syntax tree is inspected
    try:
        tree = _rp.parse(text)
    except Exception as e:  # noqa: BLE001 - a pattern the parser rejects is reported, not a crash
        chk.ob(rid, "throughput pattern == <value incl. fraction> <space> <unit>: nothing of the number outside the value group", False, site, f"pattern not parseable: {e}",
               key="esrally/track/track.py:Task.THROUGHPUT_PATTERN:value-group-covers-fraction")
        return
    all_items = list(tree)
    items = [(op, av) for op, av in all_items if str(op) != "AT"]  # `^` / `$` / `\\b` consume nothing
    names = {v: k for k, v in tree.state.groupdict.items()}
    groups = [(av[0], av[3]) for op, av in items if str(op) == "SUBPATTERN"]
    # roles by position: the first top-level group captures the value, the last one the unit (their names are an agreement between the pattern and its reader, checked by value in O5.6)
    shape = [("group" if str(op) == "SUBPATTERN" else str(op)) for op, av in items]

    def lits(sub):
        out = set()
        for op, av in sub:
            if str(op) == "LITERAL":
                out.add(chr(av))
            elif str(op) in ("SUBPATTERN",):
                out |= lits(av[3])
            elif str(op) in ("MAX_REPEAT", "MIN_REPEAT"):
                out |= lits(av[2])
            elif str(op) == "BRANCH":
                for alt in av[1]:
                    out |= lits(alt)
        return out

    exact = shape == ["group", "IN", "group"] and len(groups) == 2
    vgrp = groups[0][1] if groups else None
    # on values: what the pattern captures for representative targets
    if len(groups) < 2 or groups[0][0] is None or groups[-1][0] is None:
        chk.unknown(rid, f"the pattern {text!r} Task.target_throughput refers to has no two top-level capturing groups: value / unit are not located in it", site)
        return
    import re as _re
    reads = []
    for num, unit in (("2.5", "docs/s"), ("0.5", "ops/s"), ("12.25", "pages/s"), ("100", "ops/s")):
        mt = _re.match(text, f"{num} {unit}")
        got = (mt.group(groups[0][0]), mt.group(groups[-1][0])) if mt is not None else None  # roles by position: first top-level group = value, last = unit
        reads.append((f"{num} {unit}", got, got == (num, unit)))
    ok = all(r_[2] for r_ in reads) and (not exact or "." in lits(vgrp))
    detail = f"top-level sequence: {[names.get(av[0], 'group') if str(op) == 'SUBPATTERN' else str(op) for op, av in all_items]}; literals inside the value group: {sorted(lits(vgrp)) if vgrp is not None else None}; " \
        + "captured (value, unit): " + ", ".join(f"{t_!r} => {g_}" for t_, g_, _ in reads) + \
        ("" if ok else " — part of the number lies outside the value group: '2.5 docs/s' is read as 2, '0.5 ops/s' as 0 (unthrottled)")
    chk.ob(rid, "throughput pattern == <value incl. fraction> <space> <unit>: nothing of the number outside the value group", ok, site, detail,
           key="esrally/track/track.py:Task.THROUGHPUT_PATTERN:value-group-covers-fraction")


def timer_before_rampup_rule(chk, rid, drv, why):
    """The schedule's progress timer (it decides warm-up vs. normal and the end of a time period) starts before the ramp-up wait of the client - shared with C07.
    Decided on values: AsyncExecutor.__call__ is walked on a virtual clock up to its first request (see _ExecutorRun) with a ramp-up wait of 4 s and of 0 s; the call that starts
    the handle's timer must be made exactly once, at the client's start time (before any sleep). Role: the timer start = the method(s) of ScheduleHandle that call start() on one of
    the handle's own attributes (the loop control), whatever they are called; nothing in the executor is located by name. Returns (executor function, its CFG)."""
    AE, SH = drv.cls("AsyncExecutor"), drv.cls("ScheduleHandle")
    ex = _prop(drv, AE, "__call__")
    ge = cfg_of(ex)
    starters = {m.name for m in drv.methods(SH).values() if any(isinstance(c, ast.Call) and isinstance(c.func, ast.Attribute) and c.func.attr == "start" and is_self_attr(c.func.value) for c in ast.walk(m))}
    if not starters:
        raise AnchorMissing("the method of ScheduleHandle that starts the progress control (self.<control>.start())")
    try:
        runs = [(w, _ExecutorRun(drv, w, 0.5)) for w in (4.0, 0)]
    except CannotEval as e:
        chk.unknown(rid, f"AsyncExecutor.__call__ is not evaluable on the virtual time line: {e}", ex)
        return ex, ge
    seen = [(w, [round(t - r.t0, 6) for a, t, _ in r.calls if a in starters], r) for w, r in runs]
    if any(r.issued is None for _, _, r in seen) or not any(ts for _, ts, _ in seen):
        chk.unknown(rid, "the walk of AsyncExecutor.__call__ up to its first request " + ("issues no request" if any(r.issued is None for _, _, r in seen) else
                    f"never calls the handle's timer start ({sorted(starters)}); calls on the handle: {sorted({a for _, _, r in seen for a, _, _ in r.calls})}"), ex)
        return ex, ge
    ok = all(ts == [0.0] for _, ts, _ in seen)
    chk.ob(rid, "progress timer started before the ramp-up wait", ok, ex,
           "; ".join(f"ramp-up wait {w:g}s: timer started at start + {ts} s, first request issued at start + {r.issued - r.t0:g} s" for w, ts, r in seen) + ("" if ok else f": {why}"),
           key=f"{_D}:AsyncExecutor.__call__:progress-timer-before-ramp-up-wait")
    return ex, ge


def ramp_up_placement_rule(chk, rid, drv):
    """where the ramp-up wait sits in AsyncExecutor.__call__, decided on values (walk on the virtual clock up to the second request, see _ExecutorRun; requests due at offsets
    0.5 s and 1 s, a request takes no time): it is taken ONCE, before the request loop - the sleep log holds exactly one sleep of the wait's length, before the first request -
    and under no other condition than a non-zero wait: with a wait of 4 s the client sleeps exactly 4 s at its start, with a wait of 0 s it does not sleep for the ramp-up."""
    ex = _prop(drv, drv.cls("AsyncExecutor"), "__call__")
    try:
        r4, r0 = _ExecutorRun(drv, 4.0, 0.5), _ExecutorRun(drv, 0, 0.5)
    except CannotEval as e:
        chk.unknown(rid, f"AsyncExecutor.__call__ is not evaluable on the virtual time line: {e}", ex)
        return
    if len(r4.issues) < 2 or len(r0.issues) < 2:
        chk.unknown(rid, f"the walk of AsyncExecutor.__call__ does not reach a second request on the virtual time line ({len(r4.issues)} / {len(r0.issues)} issued)", ex)
        return
    # the wait is taken once: up to the second request exactly one sleep has the length of the wait (the sleep-untils of requests due 0.5 s apart are shorter), and it lies before
    # the first request (read off the sleep log, so that a wrongly anchored schedule - overdue requests - is not reported here as well)
    waits = [(round(t - r4.t0, 6), d) for t, d in r4.sleeps if abs(d - 4.0) < 1e-9]
    chk.ob(rid, "ramp-up wait before the main loop", len(waits) == 1 and r4.t0 + waits[0][0] < r4.issues[0] + 1e-9 and not [d for t, d in r0.sleeps if d > 0.5 + 1e-9], ex,
           f"ramp-up wait 4 s, requests due 0.5 s apart: sleeps up to the second request (offset from start, duration) {[(round(t - r4.t0, 6), round(d, 6)) for t, d in r4.sleeps]}, "
           f"requests issued at start + {[round(x - r4.t0, 6) for x in r4.issues]} s: {len(waits)} sleep(s) of the wait's length (expected one, before the first request)")
    pre4 = [d for t, d in r4.sleeps if abs(t - r4.t0) < 1e-9]
    pre0 = [d for t, d in r0.sleeps if abs(t - r0.t0) < 1e-9 and abs(d - 0.5) > 1e-9]
    ok = len(pre4) == 1 and abs(pre4[0] - 4.0) < 1e-9 and not [d for d in pre0 if d > 0]
    chk.ob(rid, "ramp-up wait guarded only by a non-zero wait time", ok, ex, f"wait 4 s: sleeps at the client's start {pre4}; wait 0 s: ramp-up sleeps {pre0}")


def partition_call_rule(chk, rid, drv):
    """schedule_for partitions the task's parameter source with (task-local client index, the TASK's client count) — shared with C02 / C03 (slices must tile the corpus).
    Decided on values: schedule_for is walked by the local machine for an allocation that is client 1 of the 3 clients of its task and client 5 of the 8 clients of the schedule
    element; the arguments that reach the call on the parameter source must be (1, 3) - whatever locals they pass through and whichever helper makes the call."""
    try:
        sfn = drv.func("schedule_for")
    except AnchorMissing as e:
        chk.unknown(rid, f"anchor missing: {e}")
        return
    try:
        run_ = _ScheduleRun(drv, {"warmup_iterations": 3, "iterations": 7})
    except (CannotEval, AnchorMissing) as e:
        chk.unknown(rid, f"schedule_for is not evaluable on the representative allocation: {e}", sfn)
        return
    if not run_.partition:
        chk.unknown(rid, "schedule_for makes no call on the parameter source it is given" + (f" (it raises {run_.error})" if run_.error else "") + ": the partitioning is not located", sfn)
        return
    if _unknown(*[a for _, a in run_.partition]) is not None:
        chk.unknown(rid, f"an argument of the call on the parameter source is a value the walk of schedule_for does not know ({_unknown(*[a for _, a in run_.partition])!r}): "
                    "the partition arguments are not located", sfn)
        return
    nums = [[x for x in a if isinstance(x, int) and not isinstance(x, bool)] for _, a in run_.partition]
    ok = len(run_.partition) == 1 and nums[0] == [1, 3] and len(run_.partition[0][1]) == 2
    chk.ob(rid, "parameter source partitioned by (task-local client index, the task's own client count)", ok, sfn,
           "client 1 of 3 of its task, client 5 of 8 of the schedule element: " + "; ".join(f"{n}({', '.join(repr(x) for x in a)})" for n, a in run_.partition) + " (expected (1, 3))",
           key="esrally/driver/driver.py:schedule_for:partition")


# ---- a small interpreter for EXTRACTED statements (local helper: sa/minieval.py evaluates pure expressions over immutable records only) ----------------------
# Several rules below are decided on VALUES: the statements of a function of the analysed source are walked with representative inputs (objects with named fields whose
# attributes the rule fixes), helper methods / functions / properties / local closures of the same module are followed, classes of the same module are instantiated by walking
# their own __init__, everything else (loggers, other modules, runners) is an opaque object that can be passed around and called but never decides a branch. Nothing of the
# repository is imported or executed; of the standard library only `re` (on pattern literals extracted from the source) and `numbers.Number` are consulted. A construct the
# machine does not model raises CannotEval => the rule is inconclusive, never a verdict. A renamed local / attribute / parameter, an extracted helper, a guard clause, a merged
# or split loop, a named constant are all invisible to a rule stated this way: only the values that reach the observed calls / fields count.
import builtins as _builtins
import collections as _collections
import numbers as _numbers
import re as _re_mod


class _Stop(Exception):
    """raised by a rule's hook: enough has been observed, end the simulation"""


class _Ret(Exception):
    def __init__(self, value):
        self.value = value


class _Rse(Exception):
    """the analysed code raises: `value` is the exception object (an _Opaque whose label starts with the class name)"""

    def __init__(self, value, node=None):
        self.value, self.node = value, node

    def name(self):
        return getattr(self.value, "label", repr(self.value)).split("(")[0]


class _Brk(Exception):
    pass


class _Cnt(Exception):
    pass


_MISSING = object()


class _Sym:
    """symbolic value with structural equality (e.g. the scheduled time sched.next(sched.next(0)))"""

    def __init__(self, *parts):
        self.parts = parts

    def __eq__(self, o):
        return isinstance(o, _Sym) and self.parts == o.parts

    def __hash__(self):
        return hash(("_Sym",) + tuple(repr(p) for p in self.parts))

    def __repr__(self):
        return f"{self.parts[0]}({', '.join(repr(p) for p in self.parts[1:])})"


class _Opaque:
    """an object the machine does not model: identity only. kind 'object' = something that exists (result of a call, a module, an unknown global);
    kind 'attr' = an unknown attribute value of such an object (may be anything, also None: no comparison is decided on it)."""

    def __init__(self, label, kind="object", args=(), kwargs=None):
        self.label, self.kind, self.args, self.kwargs, self.attrs = label, kind, tuple(args), dict(kwargs or {}), {}

    def __repr__(self):
        return f"<{self.label}>"


class _Obj:
    """a mutable object with named fields; `cls` (a ClassDef of the analysed module) supplies methods / properties / class attributes, `on_load(attr)` / `on_call(attr, args, kwargs)`
    let a rule give it behaviour (return _MISSING to fall through)."""

    def __init__(self, label, cls=None, on_load=None, on_call=None, **fields):
        self.label, self.cls, self.on_load, self.on_call, self.fields = label, cls, on_load, on_call, dict(fields)
        self.ctor = {}  # parameter name -> value the object was constructed with (filled when the machine instantiates a class of the module)
        self.ctor_pos = []

    def __repr__(self):
        return f"<{self.label}>"


class _Fn:
    def __init__(self, node, env=None, self_=None, static=False):
        self.node, self.env, self.self_, self.static = node, env, self_, static


class _Cls:
    def __init__(self, node):
        self.node = node


class _NT:
    """result of collections.namedtuple(name, fields) with literal fields: calling it gives an object with those fields"""

    def __init__(self, name, fields):
        self.name, self.fields = name, fields


class _Builtin:
    def __init__(self, name):
        self.name = name


class _Py:
    """a whitelisted standard-library object (re.match, re.compile, numbers.Number, a bound method of a str / dict / re.Match value)"""

    def __init__(self, obj):
        self.obj = obj


class _Env(dict):
    def __init__(self, parent=None):
        super().__init__()
        self.parent = parent

    def find(self, name):
        e = self
        while e is not None:
            if name in e:
                return e
            e = e.parent
        return None


_CONCRETE = (str, int, float, bool, type(None), list, tuple, dict, set, frozenset, range, _re_mod.Pattern, _re_mod.Match)
_TYPE_NAMES = {"str": str, "int": int, "float": float, "bool": bool, "dict": dict, "list": list, "tuple": tuple, "set": set, "bytes": bytes, "frozenset": frozenset}
_BUILTINS = {"isinstance", "float", "int", "str", "bool", "len", "max", "min", "abs", "round", "hasattr", "getattr", "super", "range", "list", "tuple", "dict", "set", "sorted",
             "sum", "any", "all", "repr", "enumerate", "zip", "print", "frozenset", "bytes", "type", "id", "callable", "iter", "next"}
_PURE = {"float": float, "int": int, "len": len, "max": max, "min": min, "abs": abs, "round": round, "list": list, "tuple": tuple, "dict": dict, "set": set, "sorted": sorted,
         "sum": sum, "any": any, "all": all, "bool": bool, "frozenset": frozenset, "range": range}
_PY_MODULES = {"re": (_re_mod, {"match", "fullmatch", "search", "compile"}), "numbers": (_numbers, {"Number", "Integral", "Real"})}
_PY_METHODS = {str: {"replace", "strip", "lstrip", "rstrip", "lower", "upper", "split", "rsplit", "partition", "startswith", "endswith", "format", "join", "isdigit", "casefold", "title"},
               dict: {"get", "keys", "values", "items", "update", "pop", "setdefault", "copy"}, list: {"append", "extend", "index", "count", "copy", "pop"}, tuple: {"index", "count"},
               _re_mod.Pattern: {"match", "fullmatch", "search"}, _re_mod.Match: {"group", "groups", "groupdict", "start", "end"}, set: {"add", "discard", "copy"},
               float: {"is_integer"}, int: set()}
_ARITH_OPS = {ast.Add: lambda a, b: a + b, ast.Sub: lambda a, b: a - b, ast.Mult: lambda a, b: a * b, ast.Div: lambda a, b: a / b, ast.FloorDiv: lambda a, b: a // b,
              ast.Mod: lambda a, b: a % b, ast.Pow: lambda a, b: a ** b}
_CMP_OPS = {ast.Lt: lambda a, b: a < b, ast.LtE: lambda a, b: a <= b, ast.Gt: lambda a, b: a > b, ast.GtE: lambda a, b: a >= b}


def _concrete(v, depth=0):
    if isinstance(v, (list, tuple, set, frozenset)):
        return depth < 4 and all(_concrete(x, depth + 1) for x in v)
    if isinstance(v, dict):
        return depth < 4 and all(_concrete(k, depth + 1) and _concrete(x, depth + 1) for k, x in v.items())
    return isinstance(v, _CONCRETE)


def _keyable(k, depth=0):
    """a table key the machine can look up: a literal, an object of the machine (hashed by identity, like the Task / enum-member objects of the analysed code) or a tuple of those"""
    if isinstance(k, tuple):
        return depth < 3 and all(_keyable(x, depth + 1) for x in k)
    return isinstance(k, (str, int, float, bool, type(None), frozenset, _Obj, _Opaque, _Cls, _Fn))


def _unknown(*vals):
    """the first of `vals` (looking into lists / tuples) that is a value the machine does NOT know (result of an unmodelled call, attribute of an unmodelled object, arithmetic on
    one of those), else None. A rule that judges a value the walk produced asks this first: an unknown value is `not recognised`, never `wrong`."""
    for v in vals:
        if isinstance(v, (_Opaque, _BoundHook)):
            return v
        if isinstance(v, (list, tuple)):
            x = _unknown(*v)
            if x is not None:
                return x
    return None


def _catches(handler, raised):
    """does `except <handler>` catch an exception of class <raised> (both given by name)? The catch-alls and the class itself do; between two classes of Python's own
    hierarchy the language decides (`except RuntimeError` catches NotImplementedError, `except LookupError` a KeyError). Classes of the analysed package are matched by name only."""
    h, r = handler.split(".")[-1], raised.split(".")[-1]
    if h in ("BaseException", "Exception") or h == r:
        return True
    hc, rc = getattr(_builtins, h, None), getattr(_builtins, r, None)
    return isinstance(hc, type) and isinstance(rc, type) and issubclass(hc, BaseException) and issubclass(rc, hc)


class _Machine:
    def __init__(self, mod, budget=20000, on_opaque_call=None, on_yield=None, on_await=None, overrides=None):
        self.mod, self.budget, self.steps = mod, budget, 0
        self.on_opaque_call, self.on_yield, self.on_await = on_opaque_call, on_yield, on_await
        self.on_call = None  # optional observer of EVERY call the walk makes: on_call(callee, args, kwargs); may raise _Stop
        self.overrides = dict(overrides or {})
        self._globals = {}
        self._resolving = set()
        self.created = []  # every object the machine instantiated from a class of the module, in order
        self.depth = 0
        self.top = {}
        for n in mod.tree.body:
            if isinstance(n, (ast.FunctionDef, ast.AsyncFunctionDef, ast.ClassDef)):
                self.top[n.name] = n
            elif isinstance(n, ast.Assign) and len(n.targets) == 1 and isinstance(n.targets[0], ast.Name):
                self.top[n.targets[0].id] = n

    # -- names --------------------------------------------------------------------------------------------------------------------------------------------
    def glob(self, name):
        if name in self.overrides:
            return self.overrides[name]
        if name in self._globals:
            return self._globals[name]
        n = self.top.get(name)
        if isinstance(n, (ast.FunctionDef, ast.AsyncFunctionDef)):
            v = _Fn(n)
        elif isinstance(n, ast.ClassDef):
            v = _Cls(n)
        elif isinstance(n, ast.Assign):
            if name in self._resolving:
                raise CannotEval(f"module-level name {name} is defined through itself")
            self._resolving.add(name)
            try:
                v = self.ev(n.value, _Env())
            finally:
                self._resolving.discard(name)
        elif name in self.mod.imports and self.mod.imports[name] in _PY_MODULES:
            v = _Py(_PY_MODULES[self.mod.imports[name]][0])
        elif name in self.mod.imports:
            # labelled by what is imported, not by the local alias: `from time import perf_counter` / `import time as t` still read time.perf_counter; a module of the
            # package keeps its short name (esrally.metrics -> metrics)
            target = self.mod.imports[name]
            v = _Opaque(target[len("esrally."):] if target.startswith("esrally.") else target)
        elif name not in _BUILTINS:
            v = _Opaque(name)
        else:
            v = _Builtin(name)
        self._globals[name] = v
        return v

    def lookup(self, name, env):
        e = env.find(name)
        return e[name] if e is not None else self.glob(name)

    # -- classes of the analysed module ---------------------------------------------------------------------------------------------------------------------
    def mro(self, cls):
        out, todo = [], [cls]
        while todo and len(out) < 8:
            c = todo.pop(0)
            if any(c is x for x in out):
                continue
            out.append(c)
            for b in c.bases:
                bn = self.top.get(dotted(b) or "")
                if isinstance(bn, ast.ClassDef):
                    todo.append(bn)
        return out

    def class_member(self, cls, name):
        for c in self.mro(cls):
            for st in c.body:
                if isinstance(st, (ast.FunctionDef, ast.AsyncFunctionDef)) and st.name == name:
                    return st
                if isinstance(st, ast.Assign) and any(isinstance(t, ast.Name) and t.id == name for t in st.targets):
                    return st
        return None

    @staticmethod
    def _decos(f):
        return {(dotted(d.func if isinstance(d, ast.Call) else d) or "").split(".")[-1] for d in f.decorator_list}  # @dataclass and @dataclass(eq=False) alike

    def instantiate(self, c, args, kwargs, node=None):
        base_names = {(dotted(b) or "").split(".")[-1] for k in self.mro(c.node) for b in k.bases}
        obj = _Obj(c.node.name, cls=c.node)
        self.created.append(obj)
        init = self.class_member(c.node, "__init__")
        if isinstance(init, (ast.FunctionDef, ast.AsyncFunctionDef)):
            bound = self.bind(init, [obj] + list(args), kwargs, _Env())
            obj.ctor = {k: v for k, v in bound.items() if v is not obj}
            obj.ctor_pos = list(args)
            self.call(_Fn(init, self_=obj), args, kwargs, node)
            return obj
        fields = [st.target.id for k in reversed(self.mro(c.node)) for st in k.body if isinstance(st, ast.AnnAssign) and isinstance(st.target, ast.Name)]
        if fields and ("NamedTuple" in base_names or "dataclass" in self._decos(c.node)):
            if len(args) > len(fields) or any(k not in fields for k in kwargs):
                raise _Rse(_Opaque("TypeError(constructor arguments)"), node)
            obj.fields.update(dict(zip(fields, args)))
            obj.fields.update(kwargs)
            for k in reversed(self.mro(c.node)):  # field defaults of the generated constructor
                for st in k.body:
                    if isinstance(st, ast.AnnAssign) and isinstance(st.target, ast.Name) and st.value is not None and st.target.id not in obj.fields:
                        obj.fields[st.target.id] = self.ev(st.value, _Env())
            missing = [f_ for f_ in fields if f_ not in obj.fields]
            if missing:
                raise _Rse(_Opaque(f"TypeError(missing argument {missing[0]})"), node)
            obj.ctor, obj.ctor_pos = dict(obj.fields), list(args)
            post = self.class_member(c.node, "__post_init__")
            if isinstance(post, (ast.FunctionDef, ast.AsyncFunctionDef)):
                self.call(_Fn(post, self_=obj), [], {}, node)
            return obj
        obj.ctor_pos = list(args)
        return obj

    # -- calls ------------------------------------------------------------------------------------------------------------------------------------------------
    def bind(self, f, args, kwargs, env):
        a = f.args
        names = [x.arg for x in a.posonlyargs + a.args]
        out = {}
        args = list(args)
        for i, nm in enumerate(names):
            if i < len(args):
                out[nm] = args[i]
        if len(args) > len(names):
            if a.vararg is None:
                raise _Rse(_Opaque("TypeError(too many positional arguments)"))
            out[a.vararg.arg] = tuple(args[len(names):])
        elif a.vararg is not None:
            out[a.vararg.arg] = ()
        kwonly = [x.arg for x in a.kwonlyargs]
        extra = {}
        for k, v in kwargs.items():
            if k in names or k in kwonly:
                out[k] = v
            elif a.kwarg is not None:
                extra[k] = v
            else:
                raise _Rse(_Opaque(f"TypeError(unexpected keyword argument {k})"))
        if a.kwarg is not None:
            out[a.kwarg.arg] = extra
        defaults = dict(zip(names[len(names) - len(a.defaults):], a.defaults))
        defaults.update({k: d for k, d in zip(kwonly, a.kw_defaults) if d is not None})
        for nm in names + kwonly:
            if nm not in out:
                if nm not in defaults:
                    raise _Rse(_Opaque(f"TypeError(missing argument {nm})"))
                out[nm] = self.ev(defaults[nm], env)
        return out

    def call(self, f, args, kwargs, node=None):
        if self.on_call is not None:
            self.on_call(f, args, kwargs)
        if isinstance(f, _BoundHook):
            r = f.obj.on_call(f.attr, list(args), kwargs)
            if r is _MISSING:
                raise CannotEval(f"method {f.attr} of {f.obj!r} is not modelled")
            return r
        if isinstance(f, _Obj) and f.on_call is not None:
            r = f.on_call("__call__", list(args), kwargs)
            if r is not _MISSING:
                return r
        if isinstance(f, _Obj) and f.cls is not None and isinstance(self.class_member(f.cls, "__call__"), (ast.FunctionDef, ast.AsyncFunctionDef)):
            return self.call(_Fn(self.class_member(f.cls, "__call__"), self_=f), args, kwargs, node)
        if isinstance(f, _Fn):
            if self.depth > 12:
                raise CannotEval("call depth")
            fargs = list(args) if f.self_ is None or f.static else [f.self_] + list(args)
            env = _Env(f.env)
            if isinstance(f.node, ast.Lambda):
                env.update(self.bind(f.node, fargs, kwargs, env))
                return self.ev(f.node.body, env)
            env.update(self.bind(f.node, fargs, kwargs, env))
            self.depth += 1
            try:
                self.block(f.node.body, env)
            except _Ret as r:
                return r.value
            finally:
                self.depth -= 1
            return None
        if isinstance(f, _Cls):
            return self.instantiate(f, args, kwargs, node)
        if isinstance(f, _NT):
            if len(args) > len(f.fields):
                raise _Rse(_Opaque("TypeError(constructor arguments)"), node)
            o = _Obj(f.name, **dict(zip(f.fields, args)), **kwargs)
            o.ctor, o.ctor_pos = dict(o.fields), list(args)
            return o
        if isinstance(f, _Builtin):
            return self.builtin(f.name, args, kwargs, node)
        if isinstance(f, _Py):
            # a method of a list / dict / set VALUE may store any machine value; everything else of the standard library only sees literals
            container = isinstance(getattr(f.obj, "__self__", None), (list, dict, set)) and getattr(f.obj, "__name__", "") in ("append", "extend", "update", "setdefault", "add", "pop", "get", "discard", "copy", "index", "count")
            if not container and not all(_concrete(a) for a in list(args) + list(kwargs.values())):
                raise CannotEval(f"standard-library call with a non-literal argument: {short(node, 60) if node is not None else f.obj}")
            try:
                r = f.obj(*args, **kwargs)
            except (TypeError, ValueError, KeyError, IndexError, AttributeError, _re_mod.error) as x:
                raise _Rse(_Opaque(type(x).__name__), node)
            # a view of a table (d.values() / d.keys() / d.items()) is walked as the list of what it shows at that moment (loops and comprehensions iterate lists)
            return list(r) if isinstance(r, (type({}.values()), type({}.keys()), type({}.items()))) else r
        if isinstance(f, _Opaque):
            if self.on_opaque_call is not None:
                r = self.on_opaque_call(f, args, kwargs)
                if r is not _MISSING:
                    return r
            if f.label == "collections.namedtuple" and len(args) == 2 and isinstance(args[0], str) and isinstance(args[1], (list, tuple, str)):
                return _NT(args[0], args[1].replace(",", " ").split() if isinstance(args[1], str) else list(args[1]))
            # the standard tables of `collections` are tables (a diagnostics counter `collections.Counter()` next to the analysed statements must not end the walk)
            if f.label == "collections.Counter" and not args and not kwargs:
                return _collections.Counter()
            if f.label == "collections.OrderedDict" and not args and not kwargs:
                return {}
            if f.label == "collections.defaultdict" and len(args) == 1 and not kwargs and isinstance(args[0], _Builtin) and args[0].name in ("int", "float", "list", "dict", "set"):
                return _collections.defaultdict({"int": int, "float": float, "list": list, "dict": dict, "set": set}[args[0].name])
            return _Opaque(f.label + "(...)", "object", args, kwargs)
        if isinstance(f, _Sym):
            return _Sym("call", f, *args)
        raise CannotEval(f"call of {f!r}")

    def builtin(self, name, args, kwargs, node):
        if name == "isinstance" and len(args) == 2:
            v, t = args
            ts = t if isinstance(t, tuple) else (t,)
            real = []
            for x in ts:
                if isinstance(x, _Builtin) and x.name in _TYPE_NAMES:
                    real.append(_TYPE_NAMES[x.name])
                elif isinstance(x, _Py) and isinstance(x.obj, type):
                    real.append(x.obj)
                elif isinstance(x, _Cls):
                    real.append(x)
                else:
                    raise CannotEval(f"isinstance against {x!r}")
            if isinstance(v, _Obj):
                return any(isinstance(r, _Cls) and v.cls is not None and any(r.node is k for k in self.mro(v.cls)) for r in real)
            if _concrete(v):
                return any(not isinstance(r, _Cls) and isinstance(v, r) for r in real)
            raise CannotEval(f"isinstance of {v!r}")
        if name == "hasattr" and len(args) == 2 and isinstance(args[1], str):
            v = args[0]
            if isinstance(v, _Obj):
                return args[1] in v.fields or (v.cls is not None and self.class_member(v.cls, args[1]) is not None) or (v.on_load is not None and v.on_load(args[1]) is not _MISSING)
            if isinstance(v, _Opaque):
                return args[1] in v.attrs  # representative: an unmodelled object has only the attributes the analysed code stored on it
            raise CannotEval(f"hasattr of {v!r}")
        if name == "getattr" and len(args) in (2, 3) and isinstance(args[1], str):
            if len(args) == 3 and not self.builtin("hasattr", args[:2], {}, node):
                return args[2]
            return self.load(args[0], args[1], node)
        if name in ("str", "repr") and len(args) == 1:
            return str(args[0]) if _concrete(args[0]) else f"<{getattr(args[0], 'label', args[0])}>"
        if name == "super":
            return _Opaque("super()")
        if name == "print":
            return None
        if name in ("len", "list", "tuple") and len(args) == 1 and not kwargs and isinstance(args[0], (list, tuple, dict, set, frozenset, str, range)):
            return {"len": len, "list": list, "tuple": tuple}[name](args[0])  # a container of machine values is still a container
        if name in ("any", "all") and len(args) == 1 and not kwargs and isinstance(args[0], (list, tuple, set, frozenset)):
            return {"any": any, "all": all}[name](self.truth(x) for x in args[0])
        if name in ("enumerate", "zip") and not kwargs and all(isinstance(a, (list, tuple, dict, str, range)) for a in args[:1 if name == "enumerate" else None]):
            if name == "enumerate":
                return [tuple(x) for x in enumerate(args[0], *[a for a in args[1:2] if isinstance(a, int)])]
            return [tuple(x) for x in zip(*args)]
        if name in _PURE and not kwargs:
            if not all(_concrete(a) for a in args):
                if name == "bool" and len(args) == 1:
                    return self.truth(args[0])
                raise CannotEval(f"{name}() of a non-literal value")
            try:
                return _PURE[name](*args)
            except (TypeError, ValueError, OverflowError) as x:
                raise _Rse(_Opaque(type(x).__name__), node)
        raise CannotEval(f"builtin {name}({len(args)} argument(s))")

    # -- attributes -------------------------------------------------------------------------------------------------------------------------------------------
    def load(self, v, attr, node=None):
        if isinstance(v, _Obj):
            if v.on_load is not None:
                r = v.on_load(attr)
                if r is not _MISSING:
                    return r
            if attr in v.fields:
                return v.fields[attr]
            m = self.class_member(v.cls, attr) if v.cls is not None else None
            if isinstance(m, (ast.FunctionDef, ast.AsyncFunctionDef)):
                d = self._decos(m)
                if d & {"property", "cached_property"}:
                    r = self.call(_Fn(m, self_=v), [], {}, node)
                    if "cached_property" in d:
                        v.fields[attr] = r
                    return r
                return _Fn(m, self_=v, static="staticmethod" in d)
            if isinstance(m, ast.Assign):
                return self.ev(m.value, _Env())
            if v.on_call is not None:
                return _BoundHook(v, attr)
            if v.cls is not None:
                raise _Rse(_Opaque(f"AttributeError({v.label}.{attr})"), node)
            return v.fields.setdefault(attr, _Opaque(f"{v.label}.{attr}", "attr"))
        if isinstance(v, _Opaque):
            if attr not in v.attrs:
                v.attrs[attr] = _Opaque(f"{v.label}.{attr}", "attr")
            return v.attrs[attr]
        if isinstance(v, _Cls):
            m = self.class_member(v.node, attr)
            if isinstance(m, (ast.FunctionDef, ast.AsyncFunctionDef)):
                return _Fn(m, static=True)  # through the class: static method, or a plain function that takes its receiver explicitly
            if isinstance(m, ast.Assign):
                return self.ev(m.value, _Env())
            if attr == "__name__":
                return v.node.name
            raise CannotEval(f"class attribute {v.node.name}.{attr}")
        if isinstance(v, _Py):
            for modname, (real, allowed) in _PY_MODULES.items():
                if v.obj is real:
                    if attr in allowed:
                        return _Py(getattr(real, attr))
                    raise CannotEval(f"{modname}.{attr} is not modelled")
            raise CannotEval(f"attribute {attr} of {v.obj!r}")
        if isinstance(v, _Sym):
            return _Sym("attr", v, attr)
        if isinstance(v, _Fn) and attr == "__name__":
            return getattr(v.node, "name", "<lambda>")
        for t, allowed in _PY_METHODS.items():
            if type(v) is t or (t is not int and isinstance(v, t) and not isinstance(v, bool)):
                if attr in allowed:
                    return _Py(getattr(v, attr))
                break
        if _concrete(v):
            if hasattr(v, attr):
                raise CannotEval(f"attribute {attr} of a {type(v).__name__} value is not modelled")
            raise _Rse(_Opaque(f"AttributeError({type(v).__name__}.{attr})"), node)
        raise CannotEval(f"attribute {attr} of {v!r}")

    def store(self, target, value, env):
        if isinstance(target, ast.Name):
            env[target.id] = value
        elif isinstance(target, ast.Attribute):
            o = self.ev(target.value, env)
            if isinstance(o, _Obj):
                o.fields[target.attr] = value
            elif isinstance(o, _Opaque):
                o.attrs[target.attr] = value
            else:
                raise CannotEval(f"attribute store on {o!r}")
        elif isinstance(target, ast.Subscript):
            o, k = self.ev(target.value, env), self.ev(target.slice, env)
            if isinstance(o, (dict, list)):
                try:
                    o[k] = value
                except (TypeError, IndexError, KeyError) as x:
                    raise _Rse(_Opaque(type(x).__name__), target)
            elif not isinstance(o, _Opaque):
                raise CannotEval(f"item store on {o!r}")
        elif isinstance(target, (ast.Tuple, ast.List)):
            if not isinstance(value, (list, tuple)) or len(value) != len(target.elts) or any(isinstance(t, ast.Starred) for t in target.elts):
                raise CannotEval(f"unpacking {value!r}")
            for t, x in zip(target.elts, value):
                self.store(t, x, env)
        else:
            raise CannotEval(f"assignment target {type(target).__name__}")

    # -- values -----------------------------------------------------------------------------------------------------------------------------------------------
    def truth(self, v):
        if isinstance(v, (_Opaque, _Sym)):
            raise CannotEval(f"truth value of {v!r}")
        if isinstance(v, _BoundHook):
            raise CannotEval(f"truth value of the unmodelled attribute {v.attr} of {v.obj!r}")
        if isinstance(v, (_Obj, _Fn, _Cls, _NT, _Py, _Builtin)):
            return True
        return bool(v)

    def compare(self, op, a, b, node):
        for x in (a, b):
            if isinstance(x, _Opaque) and x.kind == "attr":
                raise CannotEval(f"comparison on the unknown value {x!r}")
        if isinstance(op, (ast.Is, ast.IsNot)):
            same = a is b if not (_concrete(a) and _concrete(b)) else (a is b or (type(a) is type(b) and isinstance(a, (int, str, float, bool, type(None))) and a == b))
            return same if isinstance(op, ast.Is) else not same
        if isinstance(op, (ast.Eq, ast.NotEq)):
            if _concrete(a) and _concrete(b):
                eq = a == b
            elif isinstance(a, _Sym) or isinstance(b, _Sym):
                raise CannotEval("equality on a symbolic value")
            else:
                eq = a is b
            return eq if isinstance(op, ast.Eq) else not eq
        if isinstance(op, (ast.In, ast.NotIn)):
            if isinstance(b, (list, tuple, set, frozenset, dict, str)) and (_concrete(a) or isinstance(a, (_Obj, _Opaque))):
                try:
                    r = any(self.compare(ast.Eq(), a, x, node) for x in b) if not isinstance(b, str) else (a in b)
                except TypeError as x:
                    raise _Rse(_Opaque("TypeError"), node)
                return r if isinstance(op, ast.In) else not r
            raise CannotEval(f"membership in {b!r}")
        if type(op) in _CMP_OPS:
            if not (_concrete(a) and _concrete(b)):
                raise CannotEval(f"ordering of {a!r} and {b!r}")
            try:
                return _CMP_OPS[type(op)](a, b)
            except TypeError:
                raise _Rse(_Opaque("TypeError"), node)
        raise CannotEval(f"comparison {type(op).__name__}")

    def ev(self, e, env):
        self.steps += 1
        if self.steps > self.budget:
            raise CannotEval("step budget exhausted (the simulated code does not terminate on the representative input)")
        if isinstance(e, ast.Constant):
            return e.value
        if isinstance(e, ast.Name):
            return self.lookup(e.id, env)
        if isinstance(e, ast.Attribute):
            return self.load(self.ev(e.value, env), e.attr, e)
        if isinstance(e, ast.Call):
            args, kwargs = [], {}
            recv = self.ev(e.func.value, env) if isinstance(e.func, ast.Attribute) else None  # Python's order: the receiver first, then the arguments
            for a in e.args:
                if isinstance(a, ast.Starred):
                    v = self.ev(a.value, env)
                    if not isinstance(v, (list, tuple)):
                        raise CannotEval("*argument")
                    args += list(v)
                else:
                    args.append(self.ev(a, env))
            for k in e.keywords:
                if k.arg is None:
                    v = self.ev(k.value, env)
                    if not isinstance(v, dict):
                        raise CannotEval("**argument")
                    kwargs.update(v)
                else:
                    kwargs[k.arg] = self.ev(k.value, env)
            if isinstance(e.func, ast.Attribute):
                if isinstance(recv, _Obj) and recv.on_call is not None:
                    r = recv.on_call(e.func.attr, args, kwargs)
                    if r is not _MISSING:
                        return r
                f = self.load(recv, e.func.attr, e.func)
            else:
                f = self.ev(e.func, env)
            return self.call(f, args, kwargs, e)
        if isinstance(e, ast.BoolOp):
            r = None
            for v in e.values:
                r = self.ev(v, env)
                t = self.truth(r)
                if (isinstance(e.op, ast.And) and not t) or (isinstance(e.op, ast.Or) and t):
                    return r
            return r
        if isinstance(e, ast.UnaryOp):
            v = self.ev(e.operand, env)
            if isinstance(e.op, ast.Not):
                return not self.truth(v)
            if isinstance(v, (int, float)) and not isinstance(v, bool):
                return -v if isinstance(e.op, ast.USub) else +v if isinstance(e.op, ast.UAdd) else ~v
            raise CannotEval(f"unary operator on {v!r}")
        if isinstance(e, ast.Compare):
            left = self.ev(e.left, env)
            for op, c in zip(e.ops, e.comparators):
                right = self.ev(c, env)
                if not self.compare(op, left, right, e):
                    return False
                left = right
            return True
        if isinstance(e, ast.IfExp):
            return self.ev(e.body, env) if self.truth(self.ev(e.test, env)) else self.ev(e.orelse, env)
        if isinstance(e, ast.BinOp):
            a, b = self.ev(e.left, env), self.ev(e.right, env)
            if type(e.op) not in _ARITH_OPS:
                raise CannotEval(f"operator {type(e.op).__name__}")
            num = lambda x: isinstance(x, (int, float)) and not isinstance(x, bool)  # noqa: E731
            if (num(a) and num(b)) or (isinstance(e.op, ast.Add) and type(a) is type(b) and isinstance(a, (str, list, tuple))) or (isinstance(e.op, ast.Mod) and isinstance(a, str) and _concrete(b)) \
                    or (isinstance(e.op, ast.Mult) and isinstance(a, (str, list)) and isinstance(b, int)):
                try:
                    return _ARITH_OPS[type(e.op)](a, b)
                except ZeroDivisionError:
                    raise _Rse(_Opaque("ZeroDivisionError"), e)
                except (TypeError, ValueError, OverflowError) as x:
                    raise _Rse(_Opaque(type(x).__name__), e)
            if _concrete(a) and _concrete(b):
                raise _Rse(_Opaque("TypeError"), e)
            if isinstance(a, _Opaque) or isinstance(b, _Opaque):
                # arithmetic on a value the machine does not know gives a value it does not know: it can be stored and passed on (a diagnostics counter kept on an unmodelled
                # object), it never decides a branch, an ordering or a sleep (those raise CannotEval) and a rule never judges it (_unknown)
                return _Opaque(f"({getattr(a, 'label', a)} {type(e.op).__name__} {getattr(b, 'label', b)})"[:120], "attr")
            raise CannotEval(f"arithmetic on {a!r} and {b!r}")
        if isinstance(e, (ast.Tuple, ast.List, ast.Set)):
            vals = []
            for x in e.elts:
                if isinstance(x, ast.Starred):
                    vals += list(self.ev(x.value, env))
                else:
                    vals.append(self.ev(x, env))
            return tuple(vals) if isinstance(e, ast.Tuple) else vals if isinstance(e, ast.List) else set(vals)
        if isinstance(e, ast.Dict):
            out = {}
            for k, v in zip(e.keys, e.values):
                if k is None:
                    out.update(self.ev(v, env))
                else:
                    out[self.ev(k, env)] = self.ev(v, env)
            return out
        if isinstance(e, ast.Subscript):
            o = self.ev(e.value, env)
            if isinstance(e.slice, ast.Slice):
                if not isinstance(o, (list, tuple, str)):
                    raise CannotEval(f"slice of {o!r}")
                lo, hi, st = [self.ev(x, env) if x is not None else None for x in (e.slice.lower, e.slice.upper, e.slice.step)]
                return o[lo:hi:st]
            k = self.ev(e.slice, env)
            if isinstance(o, _Opaque):
                return o.attrs.setdefault(f"[{k!r}]", _Opaque(f"{o.label}[{k!r}]", "attr"))
            if isinstance(o, _Obj) and o.cls is None:  # an item of a stand-in: unknown value, stable identity
                return o.fields.setdefault(f"[{k!r}]", _Opaque(f"{o.label}[{k!r}]", "attr"))
            if isinstance(o, _Sym):
                return _Sym("item", o, k)
            if isinstance(o, (dict, list, tuple, str, _re_mod.Match)) and (_concrete(k) or (isinstance(o, dict) and _keyable(k))):
                try:
                    return o[k]
                except (KeyError, IndexError, TypeError) as x:
                    raise _Rse(_Opaque(type(x).__name__), e)
            raise CannotEval(f"subscript of {o!r}")
        if isinstance(e, ast.JoinedStr):
            out = []
            for v in e.values:
                if isinstance(v, ast.Constant):
                    out.append(str(v.value))
                else:
                    val = self.ev(v.value, env)
                    spec = self.ev(v.format_spec, env) if v.format_spec is not None else ""
                    if _concrete(val):
                        try:
                            out.append(format(repr(val) if v.conversion == 114 else str(val) if v.conversion == 115 else val, spec))
                        except (TypeError, ValueError) as x:
                            raise _Rse(_Opaque(type(x).__name__), e)
                    else:
                        out.append(f"<{getattr(val, 'label', val)}>")
            return "".join(out)
        if isinstance(e, ast.NamedExpr):
            v = self.ev(e.value, env)
            self.store(e.target, v, env)
            return v
        if isinstance(e, ast.Yield):
            v = self.ev(e.value, env) if e.value is not None else None
            return self.on_yield(v, e) if self.on_yield is not None else None
        if isinstance(e, ast.Await):
            if self.on_await is not None:
                r = self.on_await(e, env)
                if r is not _MISSING:
                    return r
            return self.ev(e.value, env)
        if isinstance(e, ast.Lambda):
            return _Fn(e, env)
        if isinstance(e, (ast.ListComp, ast.SetComp, ast.GeneratorExp, ast.DictComp)):
            out = []

            def rec(i, env_):
                if i == len(e.generators):
                    out.append((self.ev(e.key, env_), self.ev(e.value, env_)) if isinstance(e, ast.DictComp) else self.ev(e.elt, env_))
                    return
                g = e.generators[i]
                it = self.ev(g.iter, env_)
                if g.is_async or not isinstance(it, (list, tuple, set, frozenset, dict, range, str)):
                    raise CannotEval(f"comprehension over {it!r}")
                for x in list(it):
                    env2 = _Env(env_)
                    self.store(g.target, x, env2)
                    if all(self.truth(self.ev(c, env2)) for c in g.ifs):
                        rec(i + 1, env2)

            rec(0, env)
            return dict(out) if isinstance(e, ast.DictComp) else set(out) if isinstance(e, ast.SetComp) else out
        raise CannotEval(f"{type(e).__name__}: {short(e, 60)}")

    # -- statements -------------------------------------------------------------------------------------------------------------------------------------------
    def block(self, stmts, env):
        for s in stmts:
            self.stmt(s, env)

    def stmt(self, s, env):
        self.steps += 1
        if self.steps > self.budget:
            raise CannotEval("step budget exhausted (the simulated code does not terminate on the representative input)")
        if isinstance(s, ast.Expr):
            self.ev(s.value, env)
        elif isinstance(s, ast.Assign):
            v = self.ev(s.value, env)
            for t in s.targets:
                self.store(t, v, env)
        elif isinstance(s, ast.AnnAssign):
            if s.value is not None:
                self.store(s.target, self.ev(s.value, env), env)
        elif isinstance(s, ast.AugAssign):
            cur = self.ev(_as_load(s.target), env)
            self.store(s.target, self._binop(s.op, cur, self.ev(s.value, env), s), env)
        elif isinstance(s, ast.If):
            self.block(s.body if self.truth(self.ev(s.test, env)) else s.orelse, env)
        elif isinstance(s, ast.While):
            while self.truth(self.ev(s.test, env)):
                try:
                    self.block(s.body, env)
                except _Brk:
                    break
                except _Cnt:
                    continue
            else:
                self.block(s.orelse, env)
        elif isinstance(s, (ast.For, ast.AsyncFor)):
            it = self.ev(s.iter, env)
            if not isinstance(it, (list, tuple, set, frozenset, dict, range, str)):
                raise CannotEval(f"loop over {it!r}")
            for x in list(it):
                self.store(s.target, x, env)
                try:
                    self.block(s.body, env)
                except _Brk:
                    break
                except _Cnt:
                    continue
            else:
                self.block(s.orelse, env)
        elif isinstance(s, ast.Try):
            try:
                try:
                    self.block(s.body, env)
                except _Rse as r:
                    for h in s.handlers:
                        names = [dotted(t) or "" for t in (h.type.elts if isinstance(h.type, ast.Tuple) else [h.type])] if h.type is not None else ["BaseException"]
                        if any(_catches(n_, r.name()) for n_ in names):
                            if h.name:
                                env[h.name] = r.value
                            self.block(h.body, env)
                            break
                    else:
                        raise
                else:
                    self.block(s.orelse, env)
            except (_Rse, _Ret, _Brk, _Cnt):  # the analysed code's own control flow: its finally block runs (not when the walk itself is cut or gives up)
                self.block(s.finalbody, env)
                raise
            self.block(s.finalbody, env)
        elif isinstance(s, (ast.With, ast.AsyncWith)):
            for it in s.items:
                v = self.ev(it.context_expr, env)
                if it.optional_vars is not None:
                    self.store(it.optional_vars, v if isinstance(v, (_Opaque, _Obj)) else _Opaque("context"), env)
            self.block(s.body, env)
        elif isinstance(s, ast.Return):
            raise _Ret(self.ev(s.value, env) if s.value is not None else None)
        elif isinstance(s, ast.Raise):
            if s.exc is None:
                raise _Rse(_Opaque("re-raise"), s)
            v = self.ev(s.exc, env)
            if isinstance(v, _Cls):
                v = _Opaque(v.node.name)
            elif isinstance(v, _Obj):
                v = _Opaque(v.label)
            raise _Rse(v if isinstance(v, _Opaque) else _Opaque(repr(v)), s)
        elif isinstance(s, ast.Break):
            raise _Brk()
        elif isinstance(s, ast.Continue):
            raise _Cnt()
        elif isinstance(s, (ast.FunctionDef, ast.AsyncFunctionDef)):
            env[s.name] = _Fn(s, env)
        elif isinstance(s, (ast.Pass, ast.Import, ast.ImportFrom, ast.Global, ast.Nonlocal, ast.ClassDef)):
            pass
        elif isinstance(s, ast.Assert):
            if not self.truth(self.ev(s.test, env)):
                raise _Rse(_Opaque("AssertionError"), s)
        elif isinstance(s, ast.Delete):
            for t in s.targets:
                if isinstance(t, ast.Name):
                    env.pop(t.id, None)
        else:
            raise CannotEval(f"statement kind {type(s).__name__} (line {getattr(s, 'lineno', '?')})")

    def _binop(self, op, a, b, node):
        env = _Env()
        env["_a"], env["_b"] = a, b
        return self.ev(ast.BinOp(left=ast.Name(id="_a", ctx=ast.Load()), op=op, right=ast.Name(id="_b", ctx=ast.Load())), env)


class _BoundHook:
    """a method of a rule-supplied object that is looked up but not called through the machine's call path"""

    def __init__(self, obj, attr):
        self.obj, self.attr = obj, attr


class _Exploring(_Machine):
    """The machine on a method that also reads state the rule does not model (flags, step indices, collaborators of the object). While `open_` is set
      - the test of an `if` STATEMENT that is not decidable (truth value / ordering / membership of an unknown value) is decided by the next entry of `decisions` (True once they
        are used up); `taken` records the decisions of the walk, so that a caller can enumerate the paths of the method by flipping one decision at a time;
      - an EXPRESSION that is not evaluable has an unknown value (_Opaque, kind 'attr'): it can be stored, passed on and formatted into a message, it never becomes a number a
        rule judges (_unknown) and it decides nothing inside a value: a comprehension filter / conditional expression / helper call on an unknown value makes the whole value
        unknown, it is never guessed;
      - `sink(callee, args, kwargs, node)` observes every call of something the machine does not model (a collaborator's method).
    With `open_` unset it is the plain machine."""

    def __init__(self, mod, **kw):
        super().__init__(mod, **kw)
        self.open_, self.decisions, self.taken, self.sink, self._deciding = False, (), [], None, 0

    def _decide(self):
        d = self.decisions[len(self.taken)] if len(self.taken) < len(self.decisions) else True
        self.taken.append(bool(d))
        return bool(d)

    def truth(self, v):
        try:
            return super().truth(v)
        except CannotEval:
            if self.open_ and self._deciding:
                return self._decide()
            raise

    def compare(self, op, a, b, node):
        try:
            return super().compare(op, a, b, node)
        except CannotEval:
            if self.open_ and self._deciding:
                return self._decide()
            raise

    def call(self, f, args, kwargs, node=None):
        if not self.open_:
            return super().call(f, args, kwargs, node)
        if self.sink is not None and isinstance(f, _Opaque):
            self.sink(f, args, kwargs, node)
        saved, self._deciding = self._deciding, 0  # nothing is decided inside a callee's values; the `if` statements of a walked helper decide for themselves (stmt)
        try:
            return super().call(f, args, kwargs, node)
        finally:
            self._deciding = saved

    def ev(self, e, env):
        if not self.open_:
            return super().ev(e, env)
        saved = self._deciding
        if isinstance(e, (ast.ListComp, ast.SetComp, ast.GeneratorExp, ast.DictComp, ast.IfExp, ast.Lambda)):
            self._deciding = 0
        try:
            return super().ev(e, env)
        except CannotEval:
            if self.steps > self.budget:
                raise
            return _Opaque(f"unknown:{short(e, 40)}", "attr")
        finally:
            self._deciding = saved

    def stmt(self, s, env):
        if not (self.open_ and isinstance(s, ast.If)):
            return super().stmt(s, env)
        self.steps += 1
        self._deciding += 1
        try:
            t = self.truth(self.ev(s.test, env))
        finally:
            self._deciding -= 1
        self.block(s.body if t else s.orelse, env)


def _as_load(t):
    n = source.clone(t)
    for x in ast.walk(n):
        if hasattr(x, "ctx"):
            x.ctx = ast.Load()
    return n


def _close(a, b, tol=1e-9):
    return isinstance(a, (int, float)) and not isinstance(a, bool) and isinstance(b, (int, float)) and abs(a - b) <= tol * max(1.0, abs(a), abs(b))


# ---- F40: the client's schedule is anchored at the end of its ramp-up wait ------------------------------------------------------------------------------
_CLOCKS = ("time.perf_counter", "time.monotonic")
_SLEEP = "asyncio.sleep"


class _ExecutorRun:
    """One walk of AsyncExecutor.__call__ by the local machine on a VIRTUAL CLOCK, from its first statement to the moment the first request is issued. The executor object is
    built by walking AsyncExecutor.__init__ with stand-ins in the roles the worker passes them (the schedule handle = the constructor argument that carries the result of
    schedule_for(...); everything else = an inert stand-in whose is_set() is False). A read of time.perf_counter() / time.monotonic() is the virtual time, asyncio.sleep(x)
    advances it by max(x, 0), nothing else takes time. The handle's ramp-up wait is `wait`, calling it gives a schedule whose first request is due at offset `offset`.
    A request is issued when the runner the schedule yielded is handed to a call (execute_single(runner, ...)) or called; the request itself takes no time and what the
    executor does with its result is not modelled: the walk goes on with the next element of the schedule (like a `continue`) and ends at the second request. Helper methods /
    functions of the module that the executor calls on the way (an extracted `_wait_until`, an extracted ramp-up wait) are followed like any other statement.
      issues   virtual times at which the first two requests are issued; issued = the first (None: the walk ended without a request)
      sleeps   [(virtual time before the sleep, duration)]
      calls    [(method called on the handle, virtual time, arguments)]"""

    @staticmethod
    def handle_param(drv):
        """Role: the constructor parameter of AsyncExecutor that receives the schedule handle. (1) by data flow: the argument of the construction AsyncExecutor(...) that carries
        the result of schedule_for(...) (through single-assignment locals); (2) where the construction is spelled in a way (1) does not follow (built in a helper, arguments
        unpacked): by behaviour - the one parameter for which the walk of __call__, with the handle stand-in passed there and inert stand-ins everywhere else, issues a request."""
        cached = getattr(drv, "_c05_handle_param", None)
        if cached is not None:
            return cached
        AE = drv.cls("AsyncExecutor")
        names = _ctor_params(drv, AE)
        found = []
        sites = [c for c in ast.walk(drv.tree) if isinstance(c, ast.Call) and last_attr(c.func) == AE.name and source.enclosing_func(c) is not None]
        if len(sites) == 1 and not any(isinstance(a, ast.Starred) for a in sites[0].args):
            site = sites[0]
            ldefs = local_defs(source.enclosing_func(site))

            def is_handle(e):
                return any(isinstance(x, ast.Call) and last_attr(x.func) == "schedule_for" for x in ast.walk(source.inline_node(e, ldefs)))

            found = [names[i] for i, a in enumerate(site.args) if i < len(names) and is_handle(a)] + [k.arg for k in site.keywords if k.arg in names and is_handle(k.value)]
        if len(found) != 1:
            found = []
            for nm in names:
                try:
                    if _ExecutorRun(drv, 0, 0.5, handle_at=nm).issues:
                        found.append(nm)
                except (CannotEval, AnchorMissing):
                    pass
        if len(found) != 1:
            raise AnchorMissing(f"the constructor parameter of AsyncExecutor({', '.join(names)}) that receives the schedule handle (the result of schedule_for(...)): candidates {found}")
        drv._c05_handle_param = found[0]
        return found[0]

    def __init__(self, drv, wait, offset, t0=100.0, handle_at=None):
        AE = drv.cls("AsyncExecutor")
        _prop(drv, AE, "__call__")
        names = _ctor_params(drv, AE)
        handle_at = handle_at if handle_at is not None else self.handle_param(drv)
        self.clock, self.sleeps, self.calls, self.issues, self.t0 = [t0], [], [], [], t0
        run = self

        def issue():
            run.issues.append(run.clock[0])
            raise (_Cnt() if len(run.issues) < 2 else _Stop())

        def runner_call(attr, args, kwargs):
            if attr == "__call__":
                issue()
            return _MISSING

        self.runner = _Obj("runner", on_call=runner_call, completed=None, percent_completed=None)

        def handle_load(attr):
            return wait if attr == "ramp_up_wait_time" else _MISSING

        def handle_call(attr, args, kwargs):
            if attr == "__call__":
                return [(offset, "sample type", 0.25, run.runner, {"body": 1}), (2 * offset, "sample type", 0.5, run.runner, {"body": 2})]
            run.calls.append((attr, run.clock[0], list(args)))
            return None

        self.handle = _Obj("schedule handle", on_load=handle_load, on_call=handle_call)

        def inert(i):
            return _Obj(f"constructor argument `{i}`", on_call=lambda attr, a, k: False if attr == "is_set" else None, any_completes_parent=False, completes_parent=False)

        def opaque_call(f, args, kwargs):
            if f.label in _CLOCKS and not args and not kwargs:
                return run.clock[0]
            if f.label == _SLEEP:
                d = args[0] if args else None
                if not isinstance(d, (int, float)) or isinstance(d, bool):
                    raise CannotEval(f"sleep duration {d!r}")
                run.sleeps.append((run.clock[0], d))
                run.clock[0] += max(d, 0)
                return None
            return _MISSING

        def observe(f, args, kwargs):
            if any(a is run.runner for a in list(args) + list(kwargs.values())):
                issue()

        self.machine = m = _Machine(drv, on_opaque_call=opaque_call)
        m.on_call = observe
        self.error = None
        try:
            ex = m.instantiate(_Cls(AE), [self.handle if nm == handle_at else inert(nm) for nm in names], {})
            m.call(m.load(ex, "__call__"), [], {})
        except (_Stop, _Cnt):
            pass
        except _Rse as x:
            self.error = x.name()
        self.issued = self.issues[0] if self.issues else None


def schedule_anchor_rule(chk, rid, drv):
    """Pacing under ramp-up (F40): a request scheduled at offset d is due d after the moment the client starts issuing requests, i.e. after the END of its ramp-up wait. Anchored
    before the wait, every request whose offset is smaller than the wait is already overdue when the client wakes up and is issued back-to-back (not weight*C/T apart).
    Decided on values: AsyncExecutor.__call__ is walked on a virtual clock (see _ExecutorRun) for a ramp-up wait of 0 s and of 4 s with a first request at offset d = 0.5 s; the
    request must be issued at start + wait + d (pre-repair: start + wait, overdue). No local, attribute or helper name is consulted: where the anchor is read, how the
    sleep-until is spelled and whether it lives in the loop or in a helper (`await self._wait_until(due)`) does not matter."""
    exf = _prop(drv, drv.cls("AsyncExecutor"), "__call__")
    D = 0.5
    for wait in (0, 4.0):
        try:
            r = _ExecutorRun(drv, wait, D)
        except CannotEval as e:
            chk.unknown(rid, f"AsyncExecutor.__call__ is not evaluable on the virtual time line (ramp-up wait {wait:g}): {e}", exf)
            continue
        if r.issued is None:
            chk.unknown(rid, f"AsyncExecutor.__call__ issues no request on the virtual time line (ramp-up wait {wait:g})" + (f": it raises {r.error}" if r.error else ""), exf)
            continue
        waited = sum(max(d, 0) for t, d in r.sleeps)
        late = r.issued - (r.t0 + wait + D)
        chk.ob(rid, f"ramp-up wait {wait:g}s: a request scheduled at offset d is due d after the client's start (the end of its ramp-up wait), i.e. the schedule is anchored after the wait",
               abs(late) < 1e-9, exf,
               f"virtual time line: start {r.t0:g}, sleeps {[(round(t - r.t0, 6), round(d, 6)) for t, d in r.sleeps]} (offset from start, duration; {waited:g}s in total), first request at offset {D:g} issued "
               f"{r.issued - r.t0:g}s after the start (expected {wait + D:g}s)"
               + ("" if abs(late) < 1e-9 else f": {-late:g}s early - the schedule is anchored before the client starts issuing, every request with an offset below that is overdue and issued back-to-back" if late < 0
                  else f": {late:g}s late"),
               key=f"{_D}:AsyncExecutor.__call__:schedule-anchor-after-ramp-up-wait:wait={wait:g}")


# ---- F48: a task that reaches the loop-control choice carries fields of ONE kind ---------------------------------------------------------------------------
_MIX_FIELDS = (("warmup_iterations", "warmup-iterations", 5), ("iterations", "iterations", 5), ("warmup_time_period", "warmup-time-period", 10), ("time_period", "time-period", 10))


# ---- F47: the progress Rally reports for a step is monotone by construction ----------------------------------------------------------------------------------
_NOVAL = object()
_PURE_BUILTINS = {"len", "max", "min", "sum", "round", "float", "int", "abs", "list", "tuple", "set", "sorted", "bool", "any", "all"}


def _evx(expr, env):
    """Local extension of sa/minieval.ev (which lacks them): multi-argument max()/min() and the dict views .values()/.keys()/.items() are evaluated first, bottom-up, and replaced
    by temporaries bound in the environment; everything else is minieval. A view / max that depends on a comprehension variable stays CannotEval."""
    env = dict(env)
    k = [0]

    class X(ast.NodeTransformer):
        def visit_Call(self, n):
            n = self.generic_visit(n)
            val = _NOVAL
            d = dotted(n.func)
            if d in ("max", "min") and len(n.args) >= 2 and not n.keywords and not any(isinstance(a, ast.Starred) for a in n.args):
                try:
                    val = (max if d == "max" else min)(*[ev(a, env) for a in n.args])
                except TypeError as e:
                    raise CannotEval(f"{u(n)[:60]}: {e}")
            elif isinstance(n.func, ast.Attribute) and n.func.attr in ("values", "keys", "items") and not n.args and not n.keywords:
                recv = ev(n.func.value, env)
                if not isinstance(recv, dict):
                    raise CannotEval(f"{u(n)[:60]}: receiver is not a table")
                val = [list(x) if isinstance(x, tuple) and n.func.attr == "items" else x for x in getattr(recv, n.func.attr)()]
            if val is _NOVAL:
                return n
            k[0] += 1
            env[f"_t{k[0]}"] = val
            return ast.Name(id=f"_t{k[0]}", ctx=ast.Load())

    return ev(X().visit(source.clone(expr)), env)


def progress_aggregate_rule(chk, rid, drv):
    """`reported progress never decreases`: what Rally prints for a running step is an aggregate over a per-step table of the most recent sample of each client. Two necessary
    conditions of monotonicity (each also met by a per-step high-water mark `shown = max(shown, value)`):
      (key)  a client that runs two tasks of a parallel element in turn must not overwrite its finished task's 100% with the next task's first sample: the table key separates
             (client, task). Decided on values: Driver.update_samples is WALKED by the local machine on shipments of sample objects and the keys under which the samples end
             up in the table are read off the table (no statement shape is matched: a loop with a subscript store, `table.update({key: s for s in batch})`, a helper method).
      (mean) the divisor must not be the number of clients that have reported SO FAR: a slower client's first report then lowers the mean. Decided on values (history: client 0
             reports 60%, then client 1 reports 20%): Driver.update_progress_message is WALKED (_Exploring) on the same driver stand-in after every shipment and the figures it
             hands to the reporter's print are read off the call (60 -> 40 on the pinned tree). No shape of the method is matched - an averaging / printing helper method, a
             guard clause, a reporter read into a local, f-strings, a loop instead of the comprehension are walked like the original; the `if`s on state the stand-in does not
             model (quiet flag, step index) are enumerated as paths. Only where the walk yields no number (an aggregate that also reads other driver state - the allocations of
             the step, a high-water mark -, a library mean) the EXTRACTED aggregate is consulted as before: evaluated when it is a function of the table alone, accepted, not
             evaluated, when it also reads other driver state (necessary, not sufficient).
    Roles: table = the table-valued attribute of the driver that holds the shipped sample object after update_samples([sample]) (by identity of the value, not by name);
    reported progress = the numbers in the arguments of `<collaborator of the driver>.print(...)` that grow with the progress of the samples in the table (fallback: the
    table-dependent value - read directly or through a helper method of the driver - that flows into the reporter's print call in update_progress_message)."""
    DR = drv.cls("Driver")
    us, up = _prop(drv, DR, "update_samples"), _prop(drv, DR, "update_progress_message")
    _param(us, 1)

    class _TaskObj(_Obj):  # a task object that prints readably in the obligation details (compared by identity, like the real Task objects of two tasks)
        def __repr__(self):
            return f"<task {self.label}>"

    TA, TB = _TaskObj("a", name="a"), _TaskObj("b", name="b")
    records = {}  # id(sample object of the walk) -> the same sample as a minieval Record (for the extracted aggregate)

    def sample(client, task, progress):
        o = _Obj(f"sample(client {client}, task {task.label}, {progress})", client_id=client, task=task, percent_completed=progress)
        records[id(o)] = (o, Record(client_id=client, task=task, percent_completed=progress))
        return o

    # containers of the driver: every attribute some method of the class sets to an empty table / list (whatever it is called) starts as one
    kinds = {}
    for meth in drv.methods(DR).values():
        for st in walk_body(meth):
            if isinstance(st, ast.Assign):
                v = st.value
                kind = "dict" if (isinstance(v, ast.Dict) and not v.keys) or (isinstance(v, ast.Call) and dotted(v.func) in ("dict", "collections.OrderedDict") and not v.args and not v.keywords) \
                    else "list" if (isinstance(v, ast.List) and not v.elts) or (isinstance(v, ast.Call) and dotted(v.func) == "list" and not v.args) else None
                for t in st.targets:
                    if is_self_attr(t) and kind:
                        kinds.setdefault(t.attr, set()).add(kind)

    def standin():
        """a driver stand-in and a machine to walk its methods: every attribute some method of the class sets to an empty table / list starts as one, an attribute nobody
        initialises to a container is an unmodelled object (a flag, a step index, a collaborator: the progress reporter, the logger)."""
        m = _Exploring(drv)
        driver = _Obj("driver", cls=DR, **{a: ({} if k == {"dict"} else []) for a, k in kinds.items() if len(k) == 1})

        def unmodelled(attr):
            if attr in driver.fields or m.class_member(DR, attr) is not None:
                return _MISSING
            return driver.fields.setdefault(attr, _Opaque(f"driver.{attr}"))

        driver.on_load = unmodelled
        return m, driver

    def ship(m, driver, s_):
        try:
            m.call(m.load(driver, us.name), [[s_]], {})
        except _Rse as x:
            raise CannotEval(f"the walk of Driver.update_samples on a shipment of one sample raises {x.name()}")

    def feed(history):
        """Driver.update_samples walked by the local machine once per sample of `history` (a shipment of one sample each) on a driver stand-in; yields the driver's fields after
        every shipment. A helper method update_samples calls is followed."""
        m, driver = standin()
        for s_ in history:
            ship(m, driver, s_)
            yield driver.fields

    def tables_holding(fields, s_):
        return [(a, [k_ for k_, x in v.items() if x is s_]) for a, v in fields.items() if isinstance(v, dict) and any(x is s_ for x in v.values())]

    # Role: the progress table = the table-valued attribute of the driver that holds the sample itself after update_samples([sample]) - whatever it is called and however it is
    # filled (a loop with a subscript store, update() with a comprehension, setdefault / a helper method)
    probe = sample(0, TA, 0.25)
    held = tables_holding(list(feed([probe]))[-1], probe)
    if len(held) != 1 or len(held[0][1]) != 1:
        raise AnchorMissing(f"the table of Driver that holds a shipped sample after update_samples([sample]) ({len(held)} table-valued attribute(s) of the driver hold it: {[a for a, _ in held]})")
    T = held[0][0]
    store = next((source.enclosing_stmt(x) for f_ in [us] + [f for f in drv.methods(DR).values() if f is not us and any(isinstance(c, ast.Call) and is_self_attr(c.func) and c.func.attr == f.name for c in walk_body(us))]
                  for x in walk_body(f_) if is_self_attr(x, T)), us)

    def key_of(s_):
        """the key under which update_samples files the sample (observed on the walk)"""
        return tables_holding(list(feed([s_]))[-1], s_)[0][1][0]

    methods = drv.methods(DR)

    def closure(f):
        """f and the methods of the driver it reaches through self.<m>(...) / Driver.<m>(...) calls (an extracted helper is analysed together with its caller)"""
        out, todo = [], [f]
        while todo:
            g = todo.pop(0)
            if any(g is x for x in out):
                continue
            out.append(g)
            for c in walk_body(g):
                if isinstance(c, ast.Call) and isinstance(c.func, ast.Attribute) and isinstance(c.func.value, ast.Name) and c.func.value.id in ("self", "cls", DR.name) and c.func.attr in methods:
                    todo.append(methods[c.func.attr])
        return out

    readers = {f.name for f in methods.values() if f is not us and f is not up and any(is_self_attr(x, T) for g in closure(f) for x in walk_body(g))}

    def mentions_table(e):
        """the expression reads the table itself or calls a helper method of the driver that does"""
        return any(is_self_attr(x, T) or (isinstance(x, ast.Call) and isinstance(x.func, ast.Attribute) and isinstance(x.func.value, ast.Name) and x.func.value.id in ("self", "cls", DR.name)
                                          and x.func.attr in readers) for x in ast.walk(e))

    # ---- the reported value, (1) by a WALK of update_progress_message -------------------------------------------------------------------------------------------------------
    # Role: reported progress = the number(s) in what update_progress_message hands to the print call of a collaborator the driver does not define (the progress reporter; print
    # is the reporter's API) that grow with the progress of the samples in the table. Nothing of the method's shape is matched: locals, a guard clause, an extracted averaging /
    # printing helper, %-formatting vs f-string, a loop instead of a comprehension are all just walked. State the stand-in does not model (quiet flag, step index, tasks of the
    # step) is unknown: the `if` statements on it are enumerated as paths, a value computed from it is unknown (never a number that is judged).
    required = len(up.args.posonlyargs) + len(up.args.args) - 1 - len(up.args.defaults)

    def handed(m, driver, decisions):
        calls = []

        def sink(f, args, kwargs, node):
            if f.label.endswith(".print"):
                calls.append((node, list(args) + list(kwargs.values())))

        m.open_, m.decisions, m.taken, m.sink = True, tuple(decisions), [], sink
        try:
            m.call(m.load(driver, up.name), [_Opaque(f"argument #{i + 1}") for i in range(max(required, 0))], {})  # optional parameters (task_finished=False: a RUNNING step) at their defaults
        except (_Rse, CannotEval):
            pass  # a path that ends in an exception / cannot be walked to its end: what was handed over before still counts
        finally:
            m.open_, m.sink = False, None
        return calls, list(m.taken)

    def numbers(args):
        out = []
        for a in args:
            if isinstance(a, (int, float)) and not isinstance(a, bool):
                out.append(float(a))
            elif isinstance(a, str):
                out += [float(x) for x in _re_mod.findall(r"(?<![\w.])-?\d+(?:\.\d+)?", a)]
        return out

    def observe(decisions, history):
        """(numbers handed to the reporter, decisions taken, print calls) after each shipment of `history`, update_progress_message walked under `decisions`"""
        m, driver = standin()
        out = []
        for s_ in history:
            ship(m, driver, s_)
            calls, taken = handed(m, driver, decisions)
            out.append(([x for _, args in calls for x in numbers(args)], taken, calls))
        return out

    def locate():
        """a path through update_progress_message on which the reporter is handed a number that grows with the progress in the table: (decisions, positions of such numbers among
        the numbers handed over, how many numbers, the print call) - None when no path of the first 32 (one decision flipped at a time, at most 8 decisions deep) has one."""
        queue, tried = [()], set()
        while queue and len(tried) < 32:
            dec = queue.pop(0)
            if dec in tried:
                continue
            tried.add(dec)
            (lo, taken, calls), = observe(dec, [sample(0, TA, 0.25)])
            (hi, _, _), = observe(dec, [sample(0, TA, 0.75)])
            if lo and len(lo) == len(hi):
                pos = [i for i, (a, b) in enumerate(zip(lo, hi)) if b > a]
                if pos:
                    return tuple(taken), pos, len(lo), calls[0][0]
            for i in range(len(dec), min(len(taken), 8)):
                queue.append(tuple(taken[:i]) + (not taken[i],))
        return None

    try:
        found = locate()
    except CannotEval:
        found = None

    def reported(history):
        """the progress figures the reporter is handed after each shipment of `history` (on the located path)"""
        out = []
        for nums, _, _ in observe(found[0], history):
            if len(nums) != found[2]:
                raise CannotEval(f"the reporter is handed {len(nums)} number(s) instead of {found[2]} after a shipment")
            out.append(tuple(nums[i] for i in found[1]))
        return out

    # ---- the reported value, (2) EXTRACTED: the table-dependent value(s) that flow into the reporter's print call (used where the walk does not yield a number: an aggregate that
    # also reads other driver state - the allocations of the step, a high-water mark -, a library mean) -------------------------------------------------------------------------
    def extracted():
        prints = [c for c in walk_body(up) if isinstance(c, ast.Call) and isinstance(c.func, ast.Attribute) and c.func.attr == "print" and is_self_attr(c.func.value)]
        if not prints:
            raise AnchorMissing("self.<progress reporter>.print(...) in Driver.update_progress_message")
        pdefs = local_defs(up)
        out = []
        for c in prints:
            for a in list(c.args) + [k_.value for k_ in c.keywords]:
                inl = source.inline_node(a, pdefs)
                if mentions_table(inl):
                    out.append((source.enclosing_stmt(c), inl))
                for nm in {x.id for x in ast.walk(inl) if isinstance(x, ast.Name) and isinstance(x.ctx, ast.Load)}:
                    for st in walk_body(up):
                        if isinstance(st, ast.Assign) and any(isinstance(t, ast.Name) and t.id == nm for t in st.targets):
                            v = source.inline_node(st.value, pdefs)
                            if mentions_table(v) and not any(st is s_ for s_, _ in out):
                                out.append((st, v))
        if not out:
            raise AnchorMissing(f"a value derived from self.{T} that reaches the progress reporter in Driver.update_progress_message")
        return out

    try:
        aggs, aggs_missing = extracted(), None
    except AnchorMissing as e:
        aggs, aggs_missing = [], e
    # per-step high-water mark: max(..., self.<attr>, ...) with that attribute stored in the same method (or in a helper it calls)
    reach = closure(up)
    stored = {t.attr for g in reach for st in walk_body(g) if isinstance(st, (ast.Assign, ast.AugAssign)) for t in (st.targets if isinstance(st, ast.Assign) else [st.target]) if is_self_attr(t)}
    hw = sorted({a.attr for g in reach for c in walk_body(g) if isinstance(c, ast.Call) and dotted(c.func) == "max" for a in c.args if is_self_attr(a) and a.attr != T and a.attr in stored})

    def replay(history):
        """the values of the extracted aggregate(s) after each shipment of `history`: the table is filled by the walk of update_samples, the aggregate evaluated on it."""
        out = []
        for fields in feed(history):
            table = {k_: records[id(x)][1] for k_, x in fields[T].items()}
            vals = [_evx(a, {"self": Record(**{T: table})}) for _, a in aggs]
            out.append(vals[0] if len(vals) == 1 else tuple(vals))
        return out

    def pct(vs):
        return " -> ".join(f"{round(v * 100)}%" if isinstance(v, (int, float)) else str(v) for v in vs)

    def figures(seq):
        return " -> ".join("/".join(f"{v:g}" for v in t) for t in seq)

    # (key)
    try:
        k_a, k_a2, k_b, k_c1 = key_of(sample(0, TA, 0.25)), key_of(sample(0, TA, 1.0)), key_of(sample(0, TB, 0.25)), key_of(sample(1, TA, 0.25))
        for k_ in (k_a, k_a2, k_b, k_c1):
            hash(k_)
    except (CannotEval, TypeError, IndexError) as e:
        chk.unknown(rid, f"the key under which Driver.update_samples files a sample in self.{T} is not observable on a sample object (client_id, task, percent_completed): {e}", store)
        return
    wit = ""
    try:
        turn = [sample(0, TA, 0.25), sample(0, TA, 1.0), sample(0, TB, 0.25)]
        if found or aggs:
            wit = "; one client running task a, then task b of the same step is reported as " + (figures(reported(turn)) if found else pct(replay(turn)))
    except (CannotEval, TypeError, ZeroDivisionError):
        pass
    chk.ob(rid, "progress table: the samples of one client for two tasks of the step occupy two entries (or the reported value is a per-step high-water mark)", k_a != k_b or bool(hw), store,
           f"update_samples files a sample in self.{T} under the keys {k_a!r} / {k_b!r} for (client 0, task a) / (client 0, task b)" + (f"; high-water mark self.{hw[0]}" if hw else "") + (wit if k_a == k_b and not hw else ""),
           key=f"{_D}:Driver.update_samples:progress-table-key:client-with-two-tasks")
    chk.ob(rid, "progress table: two clients occupy two entries", k_a != k_c1, store, f"keys {k_a!r} / {k_c1!r} for (client 0, task a) / (client 1, task a)",
           key=f"{_D}:Driver.update_samples:progress-table-key:two-clients")
    try:
        older, newer = sample(0, TA, 0.25), sample(0, TA, 0.5)
        kept = [x for x in list(feed([older, newer]))[-1][T].values()]
    except CannotEval as e:
        chk.unknown(rid, f"two shipments for (client 0, task a) in turn are not evaluable: {e}", store)
        return
    chk.ob(rid, "progress table: a newer sample of the same client and task replaces the older one", k_a == k_a2 and any(x is newer for x in kept) and not any(x is older for x in kept), store,
           f"keys {k_a!r} / {k_a2!r} for two samples of (client 0, task a); after shipping a sample at 25% and then one at 50% the table holds {kept}",
           key=f"{_D}:Driver.update_samples:progress-table-key:same-client-and-task")
    # (mean)
    if not found and not aggs:
        raise aggs_missing
    resets = [st for m in drv.methods(DR).values() for st in walk_body(m) if isinstance(st, ast.Assign) and any(is_self_attr(t, T) for t in st.targets)]
    empty = [st for st in resets if (isinstance(st.value, ast.Dict) and not st.value.keys) or (isinstance(st.value, ast.Call) and dotted(st.value.func) == "dict" and not st.value.args and not st.value.keywords)]
    if not resets or len(empty) != len(resets):
        chk.unknown(rid, f"self.{T} is not (only) reset to an empty table: entries may exist before a client reports, the mean is not decided here", resets[0] if resets else DR)
        return
    instance = "reported progress of a step does not drop when a further client reports for the first time (mean over all clients / allocations of the step, or a per-step high-water mark)"
    key = f"{_D}:Driver.update_progress_message:progress-mean-divisor"
    site = aggs[0][0] if aggs else source.enclosing_stmt(found[3]) if found[3] is not None else up
    if found:
        # decided on the figures the walk hands to the reporter
        try:
            seq = reported([sample(0, TA, 0.6), sample(1, TA, 0.2)])
        except CannotEval as e:
            chk.unknown(rid, f"Driver.update_progress_message is not walkable after a second client's first shipment: {e}", site)
            return
        ok = all(b >= a - 1e-9 for a, b in zip(*seq))
        if not ok and not all(b < a - 1e-9 for a, b in zip(*seq)):
            chk.unknown(rid, f"the figures handed to the progress reporter move in different directions when a second client reports ({figures(seq)}): the reported progress is not located", site)
            return
        detail = f"Driver.update_progress_message walked after every shipment (self.{T} is reset to an empty table for every step): client 0 reports 60%, then client 1 reports its first sample at 20% => " \
                 f"the progress reporter is handed {figures(seq)}" \
            + ("" if ok else (f" before the high-water mark self.{hw[0]} is applied" if hw else ": the mean is taken over the clients that have reported so far"))
        chk.ob(rid, instance, ok or bool(hw), site, detail, key=key)
        return
    # the members of the driver the extracted aggregate reads besides the table (in the helpers it calls, too); a method of the driver is not state
    called = [methods[x.func.attr] for _, a in aggs for x in ast.walk(a) if isinstance(x, ast.Call) and isinstance(x.func, ast.Attribute) and isinstance(x.func.value, ast.Name)
              and x.func.value.id in ("self", "cls", DR.name) and x.func.attr in methods]
    exprs = [a for _, a in aggs] + [g for f in called for g in closure(f)]
    other = sorted({x.attr for a in exprs for x in ast.walk(a) if is_self_attr(x) and x.attr != T and x.attr not in methods}
                   | {u(x.func) for a in exprs for x in ast.walk(a) if isinstance(x, ast.Call) and dotted(x.func) not in _PURE_BUILTINS
                      and not (isinstance(x.func, ast.Attribute) and (x.func.attr in ("values", "keys", "items", "get", "append", "extend") or x.func.attr in methods))})
    text = "; ".join(short(a, 150) for _, a in aggs)
    try:
        seq = replay([sample(0, TA, 0.6), sample(1, TA, 0.2)])
        if not all(isinstance(v, (int, float)) and not isinstance(v, bool) for v in seq):
            chk.unknown(rid, f"the value `{text}` that reaches the progress reporter is not a number on a table of sample records ({seq}): the reported progress is not located", site)
            return
        ok = seq[1] >= seq[0] - 1e-12
        detail = f"`{text}` is a function of self.{T} alone (reset to an empty table for every step): client 0 reports 60%, then client 1 reports its first sample at 20% => {pct(seq)}" \
            + ("" if ok else (f" before the high-water mark self.{hw[0]} is applied" if hw else ": the mean is taken over the clients that have reported so far"))
    except (CannotEval, TypeError, ZeroDivisionError) as e:
        if not other and not hw:
            chk.unknown(rid, f"reported progress `{text}` is neither evaluable on a table of sample records nor dependent on other driver state: {e}", site)
            return
        ok = True
        detail = f"`{text}` also reads {', '.join(('self.' + o) if '.' not in o else o for o in other) or 'self.' + hw[0]}: not a function of the reports received so far alone (not evaluated)"
    chk.ob(rid, instance, ok or bool(hw), site, detail, key=key)


def _section(chk, rid, fn, *args):
    """one group of obligations: an anchor role it cannot locate makes THIS group inconclusive (exit 2) and does not hide the verdicts of the groups that follow."""
    try:
        return fn(*args)
    except AnchorMissing as e:
        chk.unknown(rid, f"anchor missing: {e}")
    except CannotEval as e:
        chk.unknown(rid, f"not evaluable: {e}")
    except (TypeError, ValueError, KeyError, IndexError, AttributeError, RecursionError) as e:  # a defect of this checker: reported for this group, never a verdict
        import traceback

        chk.unknown(rid, f"checker raised {type(e).__name__}: {e} [{' | '.join(traceback.format_exc().strip().splitlines()[-3:])}]")
    return None


def _entry_origins(mod, entry, expr, fn=None, depth=0, same=False):
    """Data-flow role finder (local helper; sa/source.py has bind_args / inline_node, not their composition over a call chain): the parameters of the function `entry` the value of
    `expr` - an expression inside `entry` or inside a helper function / method of the same module that `entry` reaches through calls - is computed from (same=True: the parameters
    it IS, i.e. the value is handed through unchanged). Single-assignment locals are inlined; a parameter of a helper stands for the expression every caller in the module passes
    for it (source.bind_args), followed towards `entry` (depth-limited)."""
    fn = fn if fn is not None else source.enclosing_func(expr)
    if fn is None:
        return set()
    inl = source.inline_node(expr, local_defs(fn))
    names = {inl.id} if same and isinstance(inl, ast.Name) else set() if same else {x.id for x in ast.walk(inl) if isinstance(x, ast.Name) and isinstance(x.ctx, ast.Load)}
    a = fn.args
    own = {x.arg for x in a.posonlyargs + a.args + a.kwonlyargs}
    if fn is entry:
        return names & own
    out = set()
    hit = names & own
    if not hit or depth > 4:
        return out
    for c in ast.walk(mod.tree):
        if isinstance(c, ast.Call) and last_attr(c.func) == fn.name and source.enclosing_func(c) is not None and source.enclosing_func(c) is not fn:
            bound = source.bind_args(c, fn)
            for p_ in hit:
                if p_ in bound:
                    out |= _entry_origins(mod, entry, bound[p_], source.enclosing_func(c), depth + 1, same)
    return out


def _value_and_unit(r):
    """(value, unit) of a parsed target throughput by TYPE of its two members (the number is the value, the string the unit), whatever the record is called or how it was built
    (namedtuple, typing.NamedTuple, dataclass, plain tuple, positional or keyword construction); None when it is not such a pair."""
    if isinstance(r, _Obj):
        members = list(r.fields.values()) or list(r.ctor_pos)
    elif isinstance(r, _Opaque) and r.label.endswith("(...)"):
        members = list(r.args) + list(r.kwargs.values())
    elif isinstance(r, (tuple, list)):
        members = list(r)
    else:
        return None
    nums = [x for x in members if isinstance(x, (int, float)) and not isinstance(x, bool)]
    strs = [x for x in members if isinstance(x, str)]
    return (nums[0], strs[0]) if len(members) == 2 and len(nums) == 1 and len(strs) == 1 else None


def target_throughput_rule(chk, rid, repo):
    """Task.target_throughput decided on VALUES: the property's statements (with every helper it calls: a local closure, a static method, a compiled class-level pattern, a walrus,
    a conditional expression - whatever the spelling) are walked by the local machine for representative task parameters; what comes back - None, a (number, unit string) pair or a
    raised exception - is compared with the documented meaning. Roles: the task = an object whose `params` is the representative dict (the attribute every parameter read of Task
    goes through) and whose `clients` is 4 (so that a client count leaking into the rate shows); value / unit = the number / the string of the returned pair."""
    trk = repo.module("esrally/track/track.py")
    chk.use(trk)
    TKc = trk.cls("Task")
    tt = trk.methods(TKc).get("target_throughput")
    if tt is None:
        raise AnchorMissing("Task.target_throughput")

    def parse(params):
        """('none',) | ('value', v, unit) | ('raise', class name) | ('other', repr)"""
        m = _Machine(trk)
        task = _Obj("task", cls=TKc, params=dict(params), clients=4, name="t", schedule=None)
        try:
            r = m.load(task, "target_throughput", tt)
        except _Rse as x:
            return ("raise", x.name())
        if r is None:
            return ("none",)
        vu = _value_and_unit(r)
        return ("value", vu[0], vu[1]) if vu is not None else ("other", repr(r))

    def show(o):
        return "None (unthrottled)" if o[0] == "none" else f"rejected ({o[1]})" if o[0] == "raise" else f"{o[1]:g} {o[2]}" if o[0] == "value" else f"unrecognised result {o[1]}"

    IV, TV = "target-interval", "target-throughput"
    CASES = [  # (label, [(task parameters, expected)]) expected: None | 'raise' | (value, unit)
        ("neither given", [({}, None)]),
        ("both given", [({IV: 4, TV: 10}, "raise")]),
        ("interval numeric", [({IV: 4}, (0.25, "ops/s")), ({IV: 0.5}, (2.0, "ops/s"))]),
        ("interval not numeric", [({IV: "abc"}, "raise")]),
        ("throughput numeric", [({TV: 10}, (10.0, "ops/s")), ({TV: 2.5}, (2.5, "ops/s"))]),
        ("throughput well-formed string", [({TV: "2.5 docs/s"}, (2.5, "docs/s")), ({TV: "100 ops/s"}, (100.0, "ops/s"))]),
        ("throughput malformed string", [({TV: "fast"}, "raise")]),
        ("throughput of another type", [({TV: [1]}, "raise")]),
    ]

    def agrees(got, want):
        if want is None:
            return got[0] == "none"
        if want == "raise":
            return got[0] == "raise"
        return got[0] == "value" and _close(got[1], want[0]) and got[2] == want[1]

    for label, rows in CASES:
        try:
            got = [(p_, parse(p_), w_) for p_, w_ in rows]
        except CannotEval as e:
            chk.unknown(rid, f"target_throughput is not evaluable on representative task parameters ({label}): {e}", tt)
            break
        bad = [(p_, g_, w_) for p_, g_, w_ in got if not agrees(g_, w_)]
        if any(g_[0] == "other" for _, g_, _ in bad):
            chk.unknown(rid, f"target_throughput returns something that is not a (number, unit string) pair ({label}): {[g_[1] for _, g_, _ in bad if g_[0] == 'other'][0]}", tt)
            break
        chk.ob(rid, f"{label}", not bad, tt, "; ".join(f"{p_} => {show(g_)}" + ("" if agrees(g_, w_) else f", documented: {show(('none',) if w_ is None else ('raise', 'invalid') if w_ == 'raise' else ('value',) + w_)}")
                                                        for p_, g_, w_ in got), key=f"esrally/track/track.py:Task.target_throughput:{label}")
    try:
        g1, g2, g3 = parse({TV: "7 pages/s"}), parse({TV: "7 pages"}), parse({TV: "7pages/s"})
        chk.ob(rid, "string form parsed into value / unit (unit ends in /s)", agrees(g1, (7.0, "pages/s")) and g2[0] == "raise" and g3[0] == "raise", tt,
               f"'7 pages/s' => {show(g1)}; '7 pages' => {show(g2)}; '7pages/s' => {show(g3)}", key="esrally/track/track.py:Task.target_throughput:string form value / unit")
        throughput_pattern_rule(chk, rid, trk)
        gi, gt, gn = parse({IV: 4}), parse({TV: 10}), parse({"target_interval": 4, "target_throughput": 10, "interval": 4, "throughput": 10})
        chk.ob(rid, "read from the keys target-throughput / target-interval", gi[0] == "value" and gt[0] == "value" and gn[0] == "none", tt,
               f"{{'{IV}': 4}} => {show(gi)}; {{'{TV}': 10}} => {show(gt)}; other spellings of the keys => {show(gn)}", key="esrally/track/track.py:Task.target_throughput:keys")
    except CannotEval as e:
        chk.unknown(rid, f"target_throughput is not evaluable on representative task parameters: {e}", tt)


def unit_aware_rule(chk, rid, sch):
    """UnitAwareScheduler decided on VALUES. The scheduler is built by walking its own __init__ (arguments in the roles scheduler_for passes them: the task, the delegate class) and
    fed the feedback sequence of a client, `after_request(now, weight, unit, meta)` in the documented positional order; after every call the gap between consecutive requests is
    read off `next(0)` with the module's own deterministic scheduler as the delegate class (so the whole composition is evaluated: theta, 1/theta, delegation), and the theta
    handed to the delegate's constructor is captured with an opaque delegate class. Whatever the locals / attributes are called, whether the parsed throughput is cached, read into
    a local or re-read, and however the unit test is nested: only the resulting gaps count. Task: target throughput T with unit U, C = 4 clients.
      S1  T = 1000 docs/s; feedback (5000 docs), (2500 docs), (0 docs), (5000 docs)  => gaps 20 s, 10 s, 10 s (unchanged, no error), 20 s          [weight*C/T]
      S2  T = 100 ops/s;  feedback (5000 docs), (2500 docs)                          => gaps 0.04 s, 0.04 s                                    [weight normalised to 1 on EVERY call]
      S3  T = 100 ops/s;  feedback (3 ops)                                           => gap 0.12 s                                             [matching unit: weight kept]"""
    UA, DS = sch.cls("UnitAwareScheduler"), sch.cls("DeterministicScheduler")
    ar = _prop(sch, UA, "after_request")
    _prop(sch, UA, "next")
    sf = sch.func("scheduler_for")
    sfp = _param(sf, 0)
    # Roles by data flow: the construction site is the UnitAwareScheduler(...) call - in scheduler_for or in a helper function it hands the work to - one of whose arguments IS
    # scheduler_for's task parameter (handed through single-assignment locals and through the parameters of the helpers on the way); that argument is the task, the other one
    # the delegate class.
    ctor = []
    for c in ast.walk(sch.tree):
        if isinstance(c, ast.Call) and last_attr(c.func) == UA.name and source.enclosing_func(c) is not None and not any(isinstance(a, ast.Starred) for a in c.args) \
                and not any(k.arg is None for k in c.keywords):
            from_task = [sfp in _entry_origins(sch, sf, a, same=True) for a in list(c.args) + [k.value for k in c.keywords]]
            if from_task.count(True) == 1 and len(from_task) == 2:
                ctor.append((c, from_task))
    if len(ctor) != 1:
        raise AnchorMissing(f"the construction UnitAwareScheduler(<the task scheduler_for is called with>, <delegate class>) in scheduler_for or a helper it calls ({len(ctor)} found)")
    (ctor_site, ctor_from_task), = ctor
    n_pos = len(ctor_site.args)
    C = 4

    def simulate(T, U, feedback, delegate):
        """[(error of after_request | None, gap read off next(0) | error name, thetas captured at the delegate's construction)] per feedback call"""
        captured = []

        def hook(f, args, kwargs):
            if f is delegate:
                captured.append([x for x in list(args) + list(kwargs.values()) if isinstance(x, (int, float)) and not isinstance(x, bool)])
                return _Obj("delegate", on_call=lambda attr, a, k: _Sym("delegate." + attr, *a))
            return _MISSING

        m = _Machine(sch, on_opaque_call=hook)
        task = _Obj("task", target_throughput=_Obj("throughput", value=T, unit=U), clients=C, name="t")
        vals = [task if t else delegate for t in ctor_from_task]
        ua = m.instantiate(_Cls(UA), vals[:n_pos], {k.arg: v for k, v in zip(ctor_site.keywords, vals[n_pos:])})
        out = []
        for w, unit in feedback:
            del captured[:]
            try:
                m.call(m.load(ua, "after_request"), [123.0, w, unit, {}], {})
                err = None
            except _Rse as x:
                err = x.name()
            try:
                gap = m.call(m.load(ua, "next"), [0.0], {})
            except _Rse as x:
                gap = x.name()
            out.append((err, gap, [t for c in captured for t in c]))
        return out

    try:
        det = _Cls(DS)
        opq = _Opaque("delegate class")
        s1, s1o = simulate(1000.0, "docs/s", [(5000, "docs"), (2500, "docs"), (0, "docs"), (5000, "docs")], det), simulate(1000.0, "docs/s", [(5000, "docs"), (2500, "docs")], opq)
        s2, s3 = simulate(100.0, "ops/s", [(5000, "docs"), (2500, "docs")], det), simulate(100.0, "ops/s", [(3, "ops")], det)
    except CannotEval as e:
        chk.unknown(rid, f"UnitAwareScheduler is not evaluable on the representative feedback sequences: {e}", ar)
        return

    lost = _unknown([g for run_ in (s1, s2, s3) for _, g, _ in run_])
    if lost is not None:
        chk.unknown(rid, f"UnitAwareScheduler.next(0) gives a value the walk does not know ({lost!r}) on the representative feedback sequences", ar)
        return

    def gaps(run_):
        return ", ".join((f"{g:g}s" if isinstance(g, (int, float)) else str(g)) + (f" (after_request raised {e})" if e else "") for e, g, _ in run_)

    def is_gap(r, want):
        return r[0] is None and _close(r[1], want)

    th = s1o[0][2]
    ok = is_gap(s1[0], 5000 * C / 1000.0) and len(th) >= 1 and any(_close(t, 1000.0 / C / 5000) for t in th)
    chk.ob(rid, "unit-aware: theta == T / clients / weight (gap == weight*C/T)", ok, ar,
           f"T = 1000 docs/s, {C} clients, first request reports 5000 docs: delegate built with theta {th} (expected {1000.0 / C / 5000:g}); with the deterministic delegate the gap is {gaps(s1[:1])} (expected {5000 * C / 1000.0:g}s)",
           key=f"{_S}:UnitAwareScheduler.after_request:theta")
    ok = is_gap(s1[1], 2500 * C / 1000.0) and any(_close(t, 1000.0 / C / 2500) for t in s1o[1][2])
    chk.ob(rid, "current weight updated from the reported weight before theta is computed", ok, ar,
           f"second request reports 2500 docs: gaps {gaps(s1[:2])} (expected 20s, 10s); theta {s1o[1][2]} (expected {1000.0 / C / 2500:g})", key=f"{_S}:UnitAwareScheduler.after_request:weight-before-theta")
    ok = is_gap(s2[0], C / 100.0) and is_gap(s2[1], C / 100.0) and is_gap(s3[0], 3 * C / 100.0)
    chk.ob(rid, "ops/s target with another unit: weight normalised to 1 on every call (not only the first)", ok, ar,
           f"T = 100 ops/s, requests report 5000 docs, then 2500 docs: gaps {gaps(s2)} (expected {C / 100.0:g}s each); a request reporting 3 ops: gap {gaps(s3)} (expected {3 * C / 100.0:g}s)",
           key=f"{_S}:UnitAwareScheduler.after_request:ops-normalisation")
    ok = is_gap(s1[2], 2500 * C / 1000.0) and is_gap(s1[3], 5000 * C / 1000.0) and is_gap(s1[0], 5000 * C / 1000.0) and is_gap(s1[1], 2500 * C / 1000.0)
    chk.ob(rid, "delegate scheduler rebuilt with the new theta", ok, ar,
           f"weights 5000, 2500, 0 (failed request), 5000: gaps {gaps(s1)} (expected 20s, 10s, 10s unchanged and no error, 20s)", key=f"{_S}:UnitAwareScheduler.after_request:rebuilt")


class _ScheduleRun:
    """One walk of driver.schedule_for(task_allocation, parameter_source) by the local machine for a representative task. Everything a rule wants to know is read off the
    OBJECTS that result, so that it does not matter which helper function builds what, what locals are called or how the choice is spelled:
      handle     the object schedule_for returns (an instance of ScheduleHandle built by walking its __init__)
      control    the IterationBased / TimePeriodBased instance constructed during the walk (with the constructor arguments it received, by parameter name)
      roles      attribute of the handle -> role, by identity of the value stored there: 'control', 'scheduler' (what scheduler.scheduler_for returned), 'runner' (what
                 runner.runner_for returned), 'params' (what the parameter source's partition call returned), 'allocation'
      partition  the argument lists of the calls made on the parameter source
    The allocation is client 1 of 3 of its task, client 5 of 8 of the schedule element (distinct values, so that provenance shows)."""

    def __init__(self, drv, fields, params_infinite=True, runner_completed=None, ramp_up=None, global_index=5, total=8):
        self.drv = drv
        self._ALLOC = (("task", None), ("client_index_in_task", 1), ("global_client_index", global_index), ("total_clients", total))
        self.machine = m = _Machine(drv, on_opaque_call=self._opaque_call)
        self.partition = []
        self.params = _Obj("partitioned parameter source", infinite=params_infinite, percent_completed=_Sym("params.percent_completed"), on_call=lambda attr, a, k: _Opaque(f"params.{attr}()"))
        self.scheduler = None
        self.runner = None
        self.runner_completed = runner_completed
        self.task = _task_as_loaded(drv.repo, clients=3, schedule=None, ramp_up_time_period=ramp_up, **{f: fields.get(f) for f, _, _ in _MIX_FIELDS})
        self.allocation = self._allocation(drv, m)

        def psource_call(attr, args, kwargs):
            self.partition.append((attr, list(args) + list(kwargs.values())))
            return self.params

        self.source = _Obj("parameter source", on_call=psource_call)
        self.error = None
        try:
            self.handle = m.call(_Fn(drv.func("schedule_for")), [self.allocation, self.source], {})
        except _Rse as x:
            self.handle, self.error = None, x.name()
        IB, TB = drv.cls("IterationBased"), drv.cls("TimePeriodBased")
        self.controls = [o for o in m.created if o.cls is IB or o.cls is TB]
        self.control = self.controls[-1] if self.controls else None
        self.roles = {}
        if isinstance(self.handle, _Obj):
            for a, v in self.handle.fields.items():
                r = "control" if any(v is c for c in self.controls) else "scheduler" if v is self.scheduler and v is not None else "runner" if v is self.runner and v is not None \
                    else "params" if v is self.params else "allocation" if v is self.allocation else None
                if r:
                    self.roles[a] = r

    _ALLOC = (("task", None), ("client_index_in_task", 1), ("global_client_index", 5), ("total_clients", 8))

    def _allocation(self, drv, m):
        """the allocation object: TaskAllocation of the analysed module instantiated by walking its own constructor (an __init__ or the generated one of a dataclass / NamedTuple),
        so that what its attributes are called is the module's business; the four values are bound by the constructor's keyword names where it has the documented ones (as the
        allocator passes them), else by position (task, task-local index, element-wide index, total clients). Without such a class: a stand-in with the documented attributes."""
        vals = [self.task if v is None else v for _, v in self._ALLOC]
        try:
            ta = drv.cls("TaskAllocation")
            init = m.class_member(ta, "__init__")
            names = params_of(init)[1:] if isinstance(init, (ast.FunctionDef, ast.AsyncFunctionDef)) else \
                [st.target.id for k in reversed(m.mro(ta)) for st in k.body if isinstance(st, ast.AnnAssign) and isinstance(st.target, ast.Name)]
            if all(n in names for n, _ in self._ALLOC):
                return m.instantiate(_Cls(ta), [], {n: v for (n, _), v in zip(self._ALLOC, vals)})
            if len(names) == len(vals):
                return m.instantiate(_Cls(ta), vals, {})
        except (AnchorMissing, CannotEval, _Rse):
            pass
        return _Obj("task_allocation", **{n: v for (n, _), v in zip(self._ALLOC, vals)})

    def _opaque_call(self, f, args, kwargs):
        last = f.label.split(".")[-1]
        if last == "scheduler_for" and self.scheduler is None:
            self.scheduler = _Obj("scheduler", on_call=lambda attr, a, k: _Sym("scheduler." + attr, *a))
            return self.scheduler
        if last == "runner_for" and self.runner is None:
            self.runner = _Obj("runner", completed=self.runner_completed, percent_completed=None)
            return self.runner
        return _MISSING

    def attr_of(self, role):
        hits = [a for a, r in self.roles.items() if r == role]
        return hits[0] if len(hits) == 1 else None

    def kind(self):
        return None if self.control is None else self.control.cls.name


def _ctor_params(drv, cls):
    """names of the constructor's parameters after self, in order: those of the class's own / inherited __init__, or the annotated fields of a dataclass / NamedTuple"""
    m = _Machine(drv)
    init = m.class_member(cls, "__init__")
    if isinstance(init, (ast.FunctionDef, ast.AsyncFunctionDef)):
        return params_of(init)[1:]
    return [st.target.id for k in reversed(m.mro(cls)) for st in k.body if isinstance(st, ast.AnnAssign) and isinstance(st.target, ast.Name)]


def loop_control_flow_rule(chk, rid, drv):
    """Which loop control a task gets and what it is constructed with, decided on VALUES: schedule_for is walked by the local machine (every module-level helper it calls is
    followed, requires_time_period_schedule included; IterationBased / TimePeriodBased / ScheduleHandle are instantiated by walking their own __init__) for representative tasks;
    the control object that results is inspected: its class, the constructor arguments it received (by the POSITION of the constructor's parameters, as O5.1 / O5.2 name them)
    and whether it is the object stored in the handle schedule_for returns. Field values are pairwise distinct (3 / 7 iterations, 30 / 120 seconds)."""
    sfn, rq = drv.func("schedule_for"), drv.func("requires_time_period_schedule")
    itp, tpp = _ctor_params(drv, drv.cls("IterationBased")), _ctor_params(drv, drv.cls("TimePeriodBased"))
    if len(itp) < 2 or len(tpp) < 2:
        raise AnchorMissing(f"the (warm-up, measurement) parameters of the constructors IterationBased({', '.join(itp)}) / TimePeriodBased({', '.join(tpp)})")
    (W, I), (Wt, T) = itp[:2], tpp[:2]
    try:
        ri = _ScheduleRun(drv, {"warmup_iterations": 3, "iterations": 7})
        rt = _ScheduleRun(drv, {"warmup_time_period": 30, "time_period": 120})
        rows = [("warm-up iterations 3, iterations 7", ri), ("warm-up period 30 s, period 120 s", rt),
                ("no iteration / time field, infinite parameter source", _ScheduleRun(drv, {}, True, None)), ("no iteration / time field, finite parameter source", _ScheduleRun(drv, {}, False, None))]
    except CannotEval as e:
        chk.unknown(rid, f"schedule_for is not evaluable on the representative tasks: {e}", sfn)
        return
    for label, r in rows:
        if r.control is None:
            chk.unknown(rid, f"schedule_for constructs neither IterationBased nor TimePeriodBased for a task with {label}" + (f" (it raises {r.error})" if r.error else ""), sfn)
            return

    def arg(r, cls_name, param, want, what):
        got = r.control.ctor.get(param, _MISSING) if r.kind() == cls_name else _MISSING
        if _unknown(got) is not None:
            chk.unknown(rid, f"{what}: the value schedule_for hands to the constructor is one the walk does not know ({got!r})", sfn)
            return
        chk.ob(rid, what, got is not _MISSING and got == want and type(got) is type(want), sfn,
               f"{r.kind()}({', '.join(f'{k}={v!r}' for k, v in r.control.ctor.items())}) for a task with " + ("warm-up iterations 3, iterations 7" if r is ri else "warm-up period 30 s, period 120 s"))

    arg(ri, "IterationBased", W, 3, "IterationBased(warm-up := task.warmup_iterations)")
    arg(ri, "IterationBased", I, 7, "IterationBased(iterations := task.iterations)")
    arg(rt, "TimePeriodBased", Wt, 30, "TimePeriodBased(warm-up := task.warmup_time_period)")
    arg(rt, "TimePeriodBased", T, 120, "TimePeriodBased(period := task.time_period)")
    # the values the task states explicitly reach the control whatever else schedule_for looks at on the way (the parameter source finite / infinite, a runner that reports
    # completion), and a stated 0 is a stated value (a period of 0 s: warm-up only), not "nothing stated"
    XROWS = [("warm-up iterations 3, iterations 7, FINITE parameter source", {"warmup_iterations": 3, "iterations": 7}, False, None, "IterationBased", ((W, 3), (I, 7))),
             ("warm-up iterations 3, iterations 7, a runner that reports completion", {"warmup_iterations": 3, "iterations": 7}, True, False, "IterationBased", ((W, 3), (I, 7))),
             ("iterations 7 (no warm-up iterations), FINITE parameter source", {"iterations": 7}, False, None, "IterationBased", ((I, 7),)),
             ("iterations 7 (no warm-up iterations), infinite parameter source", {"iterations": 7}, True, None, "IterationBased", ((I, 7),)),
             ("warm-up period 30 s, period 120 s, FINITE parameter source", {"warmup_time_period": 30, "time_period": 120}, False, None, "TimePeriodBased", ((Wt, 30), (T, 120))),
             ("warm-up period 30 s, period 0 s (warm-up only)", {"warmup_time_period": 30, "time_period": 0}, True, None, "TimePeriodBased", ((Wt, 30), (T, 0)))]
    for label, fields, inf_, rc_, want_cls, want_args in XROWS:
        try:
            r = _ScheduleRun(drv, fields, inf_, rc_)
        except CannotEval as e:
            chk.unknown(rid, f"schedule_for is not evaluable on a task with {label}: {e}", sfn)
            continue
        if r.control is None:
            chk.unknown(rid, f"schedule_for constructs neither IterationBased nor TimePeriodBased for a task with {label}" + (f" (it raises {r.error})" if r.error else ""), sfn)
            continue
        gots = [r.control.ctor.get(p_, _MISSING) for p_, _ in want_args]
        if _unknown(gots) is not None:
            chk.unknown(rid, f"task with {label}: the value schedule_for hands to the constructor is one the walk does not know ({_unknown(gots)!r})", sfn)
            continue
        ok = r.kind() == want_cls and all(g is not _MISSING and type(g) is type(w_) and g == w_ for g, (_, w_) in zip(gots, want_args))
        chk.ob(rid, f"stated values reach the control: {label} => {want_cls}({', '.join(f'{p_}={w_}' for p_, w_ in want_args)})", ok, sfn,
               f"{r.kind()}({', '.join(f'{k}={v!r}' for k, v in r.control.ctor.items())})"
               + ("" if ok or r.kind() != want_cls else ": the stated count / period is lost, the parameter source (or nothing) ends the task instead"),
               key=f"{_D}:schedule_for:stated:[{label}]")
    bad, seen = [], []
    try:
        for label, r in rows:
            if r.runner is None:
                raise CannotEval("the runner schedule_for hands to requires_time_period_schedule is not located (no call of <module>.runner_for)")
            want = r.machine.truth(r.machine.call(_Fn(rq), [r.task, r.runner, r.params], {}))
            seen.append(f"{label}: {r.kind()}")
            if (r.kind() == "TimePeriodBased") != want:
                bad.append(f"{label}: requires_time_period_schedule is {want}, the control is {r.kind()}")
        chk.ob(rid, "time-based control iff requires_time_period_schedule", not bad, sfn, "; ".join(bad or seen))
    except CannotEval as e:
        chk.unknown(rid, f"requires_time_period_schedule is not evaluable on the objects schedule_for works with: {e}", rq)
    # the chosen control reaches the schedule handle
    SH = drv.cls("ScheduleHandle")
    if not all(isinstance(r.handle, _Obj) and r.handle.cls is SH for _, r in rows):
        chk.unknown(rid, "schedule_for does not return an object built from ScheduleHandle on the representative tasks: " + ", ".join(f"{r.handle!r}" + (f" (raises {r.error})" if r.error else "") for _, r in rows), sfn)
        return
    lost = [label for label, r in rows if len(r.controls) != 1 or r.attr_of("control") is None]
    chk.ob(rid, "the chosen loop control is handed to the schedule handle", not lost, sfn,
           "; ".join(f"{label}: {len(r.controls)} control(s) constructed, handle fields holding one: {[a for a, x in r.roles.items() if x == 'control']}" for label, r in rows if label in lost)
           or f"stored as self.{ri.attr_of('control')}")


# faults a parameter source / scheduler can raise in the middle of a task: Python's RuntimeError family (also what a generator-backed source that leaks a StopIteration turns
# into, PEP 479), data errors of the track (KeyError / ValueError / IndexError / TypeError), I/O and the package's own error class
_FAULTS = ("RuntimeError", "NotImplementedError", "RecursionError", "KeyError", "IndexError", "ValueError", "TypeError", "OSError", "exceptions.RallyError")


def generator_rule(chk, rid, drv):
    """The schedule generator ScheduleHandle.__call__ decided on VALUES. The handle is the object a walk of schedule_for returns (so every attribute role - progress control,
    scheduler, runner, parameter source - is known by the identity of what schedule_for stored there, not by an attribute name); its progress control is replaced by a recording
    stand-in and the generator's statements are walked by the local machine in two modes:
      finite    control.infinite is False, control.completed turns True after K = 3 calls of control.next()
      infinite  control.infinite is True (the parameter source ends the schedule); the walk is cut after three complete iterations
    The stand-in's sample_type / percent_completed carry the number of next() calls made so far, the scheduler's next(x) is the symbolic value scheduler.next(x). The recorded
    event sequence (completion tests, yields with their tuples, next() calls, scheduler calls) is then judged. One loop or two, `while True` + break, local closures chosen per
    mode, the control read into a local, try/except inside or around the loop: all the same to this rule."""
    SH = drv.cls("ScheduleHandle")
    gen = _prop(drv, SH, "__call__")
    base = _ScheduleRun(drv, {"warmup_iterations": 3, "iterations": 7})
    if not (isinstance(base.handle, _Obj) and base.handle.cls is SH):
        raise AnchorMissing("the ScheduleHandle object schedule_for returns" + (f" (schedule_for raises {base.error})" if base.error else ""))
    pc_attr, sched_attr, runner_attr = base.attr_of("control"), base.attr_of("scheduler"), base.attr_of("runner")
    if pc_attr is None:
        raise AnchorMissing("the attribute of ScheduleHandle that holds the loop control schedule_for constructs")
    K, CUT = 3, 3

    def walk(infinite, fault=None):
        """fault = (site, exception class, n): the n-th params() call of the parameter source (site 'params') resp. the n-th next() of the scheduler (site 'scheduler')
        raises that exception inside the analysed code"""
        r = _ScheduleRun(drv, {"warmup_iterations": 3, "iterations": 7})
        ev_ = []
        state = {"next": 0, "params": 0, "scheduler": 0, "fired": False}

        def maybe_fail(site):
            state[site] += 1
            if fault is not None and fault[0] == site and state[site] == fault[2]:
                state["fired"] = True
                ev_.append(("fault", site, fault[1]))
                raise _Rse(_Opaque(fault[1]))

        def params_call(attr, args, kwargs):
            if attr == "params":
                maybe_fail("params")
            return _Opaque(f"params.{attr}()")

        def pc_load(attr):
            if attr == "infinite":
                return infinite
            if attr == "completed":
                ev_.append(("completed", state["next"]))
                return (not infinite) and state["next"] >= K
            if attr in ("sample_type", "percent_completed"):
                return _Sym(attr, state["next"])
            return _MISSING

        def pc_call(attr, args, kwargs):
            if attr == "next" and not args and not kwargs:
                state["next"] += 1
                ev_.append(("next",))
                return None
            return _MISSING

        def sched_call(attr, args, kwargs):
            if attr == "next":
                maybe_fail("scheduler")
            ev_.append(("scheduler." + attr,) + tuple(args))
            return _Sym("scheduler." + attr, *args)

        def on_yield(v, node):
            if sum(1 for e in ev_ if e[0] == "yield") >= max(K + 2, CUT):
                raise _Stop()
            ev_.append(("yield", v, node))
            return None

        h = r.handle
        h.fields[pc_attr] = _Obj("progress control", on_load=pc_load, on_call=pc_call)
        if sched_attr is not None:
            h.fields[sched_attr].on_call = sched_call
        r.params.on_call = params_call
        r.machine.on_yield = on_yield
        ended = "end"
        try:
            r.machine.call(r.machine.load(h, "__call__", gen), [], {})
        except _Stop:
            ended = "cut"
        except _Rse as x:
            ended = f"raises {x.name()}"
        if fault is not None:
            return r, ev_, ended, state["fired"]
        return r, ev_, ended

    nest = [_Sym("scheduler.next", 0)]
    for _ in range(K + 3):
        nest.append(_Sym("scheduler.next", nest[-1]))

    def fmt(ev_):
        out = []
        for e in ev_:
            out.append("yield" if e[0] == "yield" else f"completed?@{e[1]}" if e[0] == "completed" else "next()" if e[0] == "next" else f"<{e[1]} raises {e[2]}>" if e[0] == "fault" else f"{e[0]}(..)")
        return " ".join(out)

    results = {}
    for name, infinite in (("finite", False), ("infinite", True)):
        try:
            results[name] = walk(infinite)
        except CannotEval as e:
            chk.unknown(rid, f"the schedule generator is not evaluable with a {name} progress control: {e}", gen)
    if "finite" in results:
        r, ev_, ended = results["finite"]
        ys = [e for e in ev_ if e[0] == "yield"]
        # every iteration is preceded by a completion test made on the control's current state, and the generator ends after exactly K yields
        tests_ok = all(any(e[0] == "completed" and e[1] == j for e in ev_[:ev_.index(y)]) for j, y in enumerate(ys))
        chk.ob(rid, "finite loop guard == not completed", ended == "end" and len(ys) == K and tests_ok, gen,
               f"control completes after {K} next(): {len(ys)} request(s) yielded, generator {'ends' if ended == 'end' else 'still running after ' + str(len(ys)) + ' yields' if ended == 'cut' else ended}; events: {fmt(ev_)}")
    if "infinite" in results:
        r, ev_, ended = results["infinite"]
        tests = [e for e in ev_ if e[0] == "completed"]
        chk.ob(rid, "finite loop iff the progress control is finite", not tests and ended == "cut", gen,
               f"infinite control (its completion is undefined): {len(tests)} completion test(s) in three iterations, generator {'keeps yielding' if ended == 'cut' else ended}; events: {fmt(ev_[:12])}")
    firsts = []
    for name in ("finite", "infinite"):
        if name not in results:
            continue
        r, ev_, ended = results[name]
        ys = [e for e in ev_ if e[0] == "yield"][:K]
        if not ys:
            chk.unknown(rid, f"{name}: the generator yields nothing on the representative control ({ended}; events: {fmt(ev_)})", gen)
            continue
        site = ys[0][2]
        if not all(isinstance(y[1], tuple) for y in ys):
            chk.unknown(rid, f"{name}: the generator yields {ys[0][1]!r}, not a tuple (scheduled, sample type, progress, runner, params): the members of the yielded value are not located", site)
            continue
        idx = [ev_.index(y) for y in ys]
        segs = [ev_[:idx[0]]] + [ev_[idx[j - 1] + 1:idx[j]] for j in range(1, len(ys))]
        tail = ev_[idx[-1] + 1:] if name == "finite" else None

        def count(seg, kind):
            return sum(1 for e in seg if e[0] == kind)

        per = [(count(sg, "next"), count(sg, "scheduler.next")) for sg in segs]
        ok = len(ys) == K and per[0] == (0, 1) and all(p_ == (1, 1) for p_ in per[1:]) and (tail is None or (count(tail, "next"), count(tail, "scheduler.next"), count(tail, "yield")) == (1, 0, 0))
        chk.ob(rid, f"{name}: one yield, one next(), one sched.next per iteration", ok, site, f"(control next(), scheduler next()) before the first yield and between consecutive yields: {per}"
               + (f", after the last yield: {(count(tail, 'next'), count(tail, 'scheduler.next'))}" if tail is not None else "") + f"; events: {fmt(ev_[:16])}")
        # next() follows the yield and precedes everything that is read for the following request (completion test, sample type, progress)
        order_ok = all(sg and sg[0] == ("next",) for sg in segs[1:]) and (tail is None or (tail and tail[0] == ("next",)))
        vals_ok = all(isinstance(y[1], tuple) and len(y[1]) > 1 and y[1][1] == _Sym("sample_type", j) for j, y in enumerate(ys))
        chk.ob(rid, f"{name}: next() exactly once after the yield", order_ok and vals_ok and ok, site,
               f"sample type of request j read after {[y[1][1].parts[1] if isinstance(y[1], tuple) and len(y[1]) > 1 and isinstance(y[1][1], _Sym) and len(y[1][1].parts) > 1 else '?' for y in ys]} next() calls; events: {fmt(ev_[:16])}")
        got0 = [y[1][0] if isinstance(y[1], tuple) and y[1] else None for y in ys]
        chk.ob(rid, f"{name}: scheduled time threaded (next = sched.next(previous)) before the yield", got0 == nest[:len(ys)] and len(ys) == K, site, f"scheduled times of the first requests: {got0}")
        firsts.append((name, got0[0], site))
        tup_ok = all(isinstance(y[1], tuple) and len(y[1]) == 5 and isinstance(y[1][1], _Sym) and y[1][1].parts[0] == "sample_type" for y in ys)
        if name == "finite":
            tup_ok = tup_ok and all(y[1][2] == _Sym("percent_completed", j) for j, y in enumerate(ys))
        if runner_attr is None:
            chk.unknown(rid, "the attribute of ScheduleHandle that holds the runner is not located (schedule_for stores no result of <module>.runner_for in the handle)", gen)
        else:
            tup_ok = tup_ok and all(y[1][3] is r.handle.fields.get(runner_attr) for y in ys)
            chk.ob(rid, f"{name}: yielded tuple (scheduled, sample type, progress, runner, params)", tup_ok, site, f"first yield: {ys[0][1]!r}")
    # What ends a schedule: the loop control (above) or the parameter source saying it is exhausted - the ONE documented signal is StopIteration out of params(). Anything
    # else that params() or the scheduler's next() raises is a fault of the task: if the generator took it for the end of the schedule the client would stop after k < W + I
    # requests (or long before the time period has elapsed), never reach progress 1 / leave warm-up, and the task would count as finished. Decided on the walk: the second
    # params() call (resp. the second scheduler next()) raises inside the analysed code; where the try sits, which helper makes the call and how the handler is spelled
    # (tuple of classes, a base class, a catch-all, a helper that converts the fault into StopIteration) is all the same.
    for name in ("finite", "infinite"):
        if name not in results:
            continue
        inf = name == "infinite"
        try:
            _, ev_, ended, fired = walk(inf, ("params", "StopIteration", 2))
            n_y = sum(1 for e in ev_ if e[0] == "yield")
            if not fired:
                chk.unknown(rid, f"{name}: the walk of the generator does not call params() of the partitioned parameter source twice: where the requests' parameters come from "
                                 f"is not located (generator {ended}; events: {fmt(ev_[:16])})", gen)
                continue
            chk.ob(rid, f"{name}: the parameter source's end (StopIteration out of params()) ends the schedule after the requests yielded so far", ended == "end" and n_y == 1, gen,
                   f"params() raises StopIteration for the second request: {n_y} request(s) yielded, generator {'ends' if ended == 'end' else 'keeps yielding' if ended == 'cut' else ended}; events: {fmt(ev_[:16])}")
            sites = [("params", "params() of the parameter source")] + ([("scheduler", "next() of the scheduler")] if sched_attr is not None else [])
            for site, what in sites:
                seen, bad = [], []
                for exc in _FAULTS:
                    _, ev_, ended, fired = walk(inf, (site, exc, 2))
                    if not fired:
                        raise CannotEval(f"the second call of {what} is not reached by the walk (generator {ended})")
                    seen.append(f"{exc}: {ended}")
                    if not ended.startswith("raises "):
                        n_y = sum(1 for e in ev_ if e[0] == "yield")
                        bad.append(f"{exc} raised for the second request: the generator {'ends as if the schedule were complete' if ended == 'end' else 'swallows it and keeps yielding'} "
                                   f"({n_y} request(s) yielded" + (f", the control completes after {K}" if not inf else "") + f"; events: {fmt(ev_[:16])})")
                chk.ob(rid, f"{name}: a fault raised by {what} (anything but the source's StopIteration) leaves the generator as an error, it does not end the schedule", not bad, gen,
                       "; ".join(bad or seen))
        except CannotEval as e:
            chk.unknown(rid, f"the schedule generator is not evaluable with a {name} progress control and a failing parameter source / scheduler: {e}", gen)
    if firsts:
        chk.ob(rid, "first scheduled time derives from 0", len(firsts) == 2 and all(f_ == nest[0] for _, f_, _ in firsts), firsts[0][2], "; ".join(f"{n_}: {f_!r}" for n_, f_, _ in firsts))


def _sample_kind(v):
    """'Warmup' / 'Normal' for a member of metrics.SampleType (an opaque attribute chain of another module: its label ends in the member's name), else a printable form"""
    lab = getattr(v, "label", None)
    return lab.split(".")[-1] if isinstance(lab, str) and lab.split(".")[-1] in ("Warmup", "Normal") else repr(v)


class _ControlRun:
    """a loop control (IterationBased / TimePeriodBased) built by walking its own __init__ and driven through start() / next() on a virtual clock; properties are read by walking
    their bodies. time.perf_counter() / time.monotonic() is the virtual time; time.time() is a WALL clock that a rule may let step backwards (an NTP correction)."""

    def __init__(self, drv, cls, args, t=100.0, wall=None):
        self.t = [t]
        self.wall = wall or (lambda t_: 1.0e6 + t_)

        def opaque_call(f, a, k):
            if f.label in _CLOCKS and not a and not k:
                return self.t[0]
            if f.label == "time.time" and not a and not k:
                return self.wall(self.t[0])
            return _MISSING

        self.m = _Machine(drv, on_opaque_call=opaque_call)
        self.error = None
        try:
            self.obj = self.m.instantiate(_Cls(cls), list(args), {})
        except _Rse as x:
            self.obj, self.error = None, x.name()

    def do(self, method, at=None):
        if at is not None:
            self.t[0] = at
        try:
            self.m.call(self.m.load(self.obj, method), [], {})
            return None
        except _Rse as x:
            return f"raises {x.name()}"

    def read(self, prop):
        try:
            return self.m.load(self.obj, prop)
        except _Rse as x:
            return f"raises {x.name()}"


def iteration_control_rule(chk, rid, drv):
    """IterationBased decided on VALUES: IterationBased(2, 3) (two warm-up iterations, three measured ones) is built by walking its __init__, started, and advanced with next();
    before every next() the control's completed / sample_type / percent_completed are read (by walking the property bodies). The control is what the schedule generator sees
    (O5.3 fixes when it reads what), so the six clauses are statements about these sequences - whatever the counter is called, however the total is kept, whichever way round the
    comparisons are written."""
    IB = drv.cls("IterationBased")
    for m_ in ("start", "next", "completed", "sample_type", "percent_completed", "infinite"):
        _prop(drv, IB, m_)
    WI, II = 2, 3
    N = WI + II
    c = _ControlRun(drv, IB, [WI, II])
    if c.obj is None:
        chk.ob(rid, "counter idiom", False, IB, f"IterationBased({WI}, {II}) {c.error}")
        return
    c.do("start")
    seq = []
    for k in range(N + 2):
        done = c.read("completed")
        seq.append((done, c.read("sample_type") if k < N else None, c.read("percent_completed") if k < N else None))
        c.do("next")
    c.do("start")
    again = (c.read("completed"), c.read("sample_type"), c.read("percent_completed"))
    lost = _unknown([d_ for d_, _, _ in seq], [p_ for _, _, p_ in seq], again[0], again[2])
    if lost is not None:
        chk.unknown(rid, f"IterationBased({WI}, {II}) driven through start() / next(): completed / percent_completed give a value the walk does not know ({lost!r})", IB)
        return
    prog = [p_ for _, _, p_ in seq[:N]]
    kinds = [_sample_kind(st_) for _, st_, _ in seq[:N]]
    dones = [d_ for d_, _, _ in seq]
    nums = all(isinstance(p_, (int, float)) and not isinstance(p_, bool) for p_ in prog)
    steps = [prog[k + 1] - prog[k] for k in range(N - 1)] if nums else []
    ok = nums and all(_close(st_, 1.0 / N) for st_ in steps) and isinstance(again[2], (int, float)) and _close(again[2], prog[0]) and _sample_kind(again[1]) == kinds[0] and again[0] == dones[0]
    chk.ob(rid, "counter idiom", ok, _prop(drv, IB, "next"),
           f"IterationBased({WI}, {II}): progress before the k-th next(): {[round(p_, 4) if isinstance(p_, float) else p_ for p_ in prog]} (every next() must advance it by 1/{N}); after a second start(): "
           f"progress {again[2]!r}, sample type {_sample_kind(again[1])} (as at the first start)")
    chk.ob(rid, "completed == it >= W + I", dones == [False] * N + [True, True], _prop(drv, IB, "completed"), f"completed before the k-th next(), k = 0..{N + 1}: {dones} (expected False x {N}, then True)")
    chk.ob(rid, "warm-up == it < W", kinds == ["Warmup"] * WI + ["Normal"] * II, _prop(drv, IB, "sample_type"), f"sample types of the {N} requests: {kinds}")
    chk.ob(rid, "progress == (it + 1) / (W + I)", nums and all(_close(prog[k], (k + 1) / N) for k in range(N)) and prog[-1] == 1, _prop(drv, IB, "percent_completed"),
           f"progress of the {N} requests: {[round(p_, 4) if isinstance(p_, float) else p_ for p_ in prog]} (expected {[round((k + 1) / N, 4) for k in range(N)]}, ending at exactly 1)")
    inf = [(a, _ControlRun(drv, IB, a)) for a in ([WI, None], [WI, II], [0, 1])]
    got = [(a, r.read("infinite") if r.obj is not None else r.error) for a, r in inf]
    if _unknown([g for _, g in got]) is not None:
        chk.unknown(rid, f"IterationBased.infinite gives a value the walk does not know ({_unknown([g for _, g in got])!r})", _prop(drv, IB, "infinite"))
        return
    chk.ob(rid, "infinite == iterations is None", [g for _, g in got] == [True, False, False], _prop(drv, IB, "infinite"), "; ".join(f"IterationBased({a[0]}, {a[1]}).infinite is {g!r}" for a, g in got))
    # 0 measured iterations (warm-up only) is a stated count: finite, completed after exactly W requests, all of them warm-up
    wz = _ControlRun(drv, IB, [WI, 0])
    if wz.obj is None:
        chk.ob(rid, "IterationBased(W, 0): finite, W warm-up requests", False, IB, f"IterationBased({WI}, 0) raises {wz.error}")
    else:
        wz.do("start")
        zs = []
        for k in range(WI + 1):
            zs.append((wz.read("completed"), _sample_kind(wz.read("sample_type")) if k < WI else None, wz.read("percent_completed") if k < WI else None))
            wz.do("next")
        zi = wz.read("infinite")
        if _unknown(zi, [(d_, p_) for d_, _, p_ in zs]) is not None:
            chk.unknown(rid, f"IterationBased({WI}, 0) driven through start() / next(): a value the walk does not know ({_unknown(zi, [(d_, p_) for d_, _, p_ in zs])!r})", IB)
        else:
            chk.ob(rid, "IterationBased(W, 0): finite, W warm-up requests", zi is False and [d_ for d_, _, _ in zs] == [False] * WI + [True] and [k_ for _, k_, _ in zs[:WI]] == ["Warmup"] * WI
                   and all(isinstance(p_, (int, float)) and _close(p_, (k + 1) / WI) for k, (_, _, p_) in enumerate(zs[:WI])), _prop(drv, IB, "infinite"),
                   f"IterationBased({WI}, 0): infinite {zi!r} (expected False); completed before the k-th next(): {[d_ for d_, _, _ in zs]}; sample types {[k_ for _, k_, _ in zs[:WI]]}; progress {[p_ for _, _, p_ in zs[:WI]]}",
                   key=f"{_D}:IterationBased:zero-iterations")
    z, nz = _ControlRun(drv, IB, [0, 0]), _ControlRun(drv, IB, [0, 1])
    chk.ob(rid, "W + I == 0 rejected", z.obj is None and nz.obj is not None, drv.methods(IB).get("__init__") or drv.methods(IB).get("__post_init__") or IB,
           f"IterationBased(0, 0) {'raises ' + str(z.error) if z.obj is None else 'is accepted'}; IterationBased(0, 1) {'raises ' + str(nz.error) if nz.obj is None else 'is accepted'}")


def time_control_rule(chk, rid, drv):
    """TimePeriodBased decided on VALUES: TimePeriodBased(10, 20) (10 s warm-up, 20 s measurement) is built by walking its __init__ at virtual time 50, started at 100 and advanced
    with next() at chosen virtual times; after each call completed / sample_type / percent_completed are read. Comparator strictness at the exact boundaries is left open (the
    property allows the straddling request either side): probes lie 0.1 s before / after a boundary. No attribute or helper-property name of the class is consulted."""
    TB = drv.cls("TimePeriodBased")
    for m_ in ("start", "next", "completed", "sample_type", "percent_completed", "infinite"):
        _prop(drv, TB, m_)
    WT, TP, S = 10.0, 20.0, 100.0
    PROBES = [3.0, 9.9, 10.1, 15.0, 29.9, 30.1]  # seconds after start() at which next() is called

    def drive(args, probes, wall=None):
        """[(seconds after start, completed, sample kind, progress)] right after start() (0.0) and after a next() at every probe"""
        c = _ControlRun(drv, TB, args, t=50.0, wall=wall)
        if c.obj is None:
            return None, c.error
        c.do("start", at=S)
        out = [(0.0, c.read("completed") if args[1] is not None else None, _sample_kind(c.read("sample_type")), c.read("percent_completed") if args[1] is not None else None)]
        for d in probes:
            e = c.do("next", at=S + d)
            out.append((d, e or (c.read("completed") if args[1] is not None else None), _sample_kind(c.read("sample_type")), c.read("percent_completed") if args[1] is not None else None))
        return out, None

    seq, err = drive([WT, TP], PROBES)
    if seq is None:
        chk.ob(rid, "elapsed == now - start", False, TB, f"TimePeriodBased({WT:g}, {TP:g}) {err}")
        return
    by = {d: (done, kind, p_) for d, done, kind, p_ in seq}
    lost = _unknown([(done, p_) for _, done, _, p_ in seq])
    if lost is not None:
        chk.unknown(rid, f"TimePeriodBased({WT:g}, {TP:g}) driven through start() / next(): completed / percent_completed give a value the walk does not know ({lost!r})", TB)
        return

    def pr(d):
        p_ = by[d][2]
        return round(p_, 4) if isinstance(p_, float) else p_

    def isnum(x):
        return isinstance(x, (int, float)) and not isinstance(x, bool)

    f_el, f_st, f_co, f_pc = (_prop(drv, TB, n_) for n_ in ("start", "sample_type", "completed", "percent_completed"))
    ok = isnum(by[0.0][2]) and _close(by[0.0][2], 0.0) and isnum(by[3.0][2]) and _close(by[3.0][2] * (WT + TP), 3.0)
    chk.ob(rid, "elapsed == now - start", ok, f_pc, f"built at virtual time 50, started at {S:g}: progress right after start() {pr(0.0)!r} (expected 0), after a next() 3 s later {pr(3.0)!r} (expected {3 / (WT + TP):.4f}: 3 s of {WT + TP:g} s)")
    kinds = [by[d][1] for d in [0.0] + PROBES]
    chk.ob(rid, "warm-up == elapsed < warm-up period (direction)", kinds == ["Warmup", "Warmup", "Warmup", "Normal", "Normal", "Normal", "Normal"], f_st,
           f"sample type at start + {[0.0] + PROBES} s with a warm-up period of {WT:g} s: {kinds}")
    dones = [by[d][0] for d in [0.0] + PROBES]
    chk.ob(rid, "completed == now >= start + warm-up + period (direction)", dones == [False] * 6 + [True], f_co, f"completed at start + {[0.0] + PROBES} s with {WT:g} s + {TP:g} s: {dones}")
    want = [d / (WT + TP) for d in [0.0] + PROBES[:-1]]
    got = [by[d][2] for d in [0.0] + PROBES[:-1]]
    chk.ob(rid, "progress == elapsed / (warm-up + period)", all(isnum(g) and _close(g, w_) and -1e-12 <= g <= 1 + 1e-12 for g, w_ in zip(got, want)), f_pc,
           f"progress at start + {[0.0] + PROBES[:-1]} s: {[round(g, 4) if isinstance(g, float) else g for g in got]} (expected {[round(w_, 4) for w_ in want]})")
    # next() never moves the start: after next() calls at +3 and +9.9 the progress at +15 is still measured from start()
    chk.ob(rid, "start written only by start()", isnum(by[15.0][2]) and _close(by[15.0][2], 15.0 / (WT + TP)) and by[15.0][1] == "Normal", _prop(drv, TB, "next"),
           f"after next() at start + 3, 9.9, 10.1 s the control reports at start + 15 s: progress {pr(15.0)!r} (expected 0.5), sample type {by[15.0][1]} (a next() that re-bases the start gives 0 / Warmup)")
    # the same walk with a wall clock that is set back by 50 s between start + 10.1 s and start + 15 s: nothing the control reports may depend on it
    wseq, werr = drive([WT, TP], PROBES, wall=lambda t_: 1.0e6 + t_ - (50.0 if t_ >= S + 12.0 else 0.0))
    chk.ob(rid, "now only from the monotonic clock in start()/next()", wseq == seq, _prop(drv, TB, "next"),
           "wall clock (time.time()) set back by 50 s at start + 12 s, monotonic clock unaffected: the control reports " +
           ("the same values" if wseq == seq else f"{[(d, done, kind, round(p_, 4) if isinstance(p_, float) else p_) for d, done, kind, p_ in (wseq or [])][3:6]} at start + 10.1 / 15 / 29.9 s "
            f"instead of {[(d, done, kind, round(p_, 4) if isinstance(p_, float) else p_) for d, done, kind, p_ in seq][3:6]}: it reads the wall clock, sample types return to warm-up / the period is extended" + (f" ({werr})" if werr else "")))
    # a control whose end the parameter source decides (no period) still leaves warm-up: every next() reads the clock
    iseq, ierr = drive([WT, None], [9.9, 10.1, 15.0])
    ikinds = [k_ for _, _, k_, _ in iseq] if iseq is not None else ierr
    chk.ob(rid, "the clock is read on every call of start()/next() (unconditionally)", ikinds == ["Warmup", "Warmup", "Normal", "Normal"] and kinds[3:] == ["Normal"] * 4, _prop(drv, TB, "next"),
           f"TimePeriodBased({WT:g}, None) (the parameter source ends the task): sample type at start + [0, 9.9, 10.1, 15] s: {ikinds}" +
           ("" if ikinds == ["Warmup", "Warmup", "Normal", "Normal"] else ": `now` never advances, every sample stays warm-up"), key=f"{_D}:TimePeriodBased:now-unconditional")
    chk.ob(rid, "start() sets start to the current clock", isnum(by[0.0][2]) and _close(by[0.0][2], 0.0) and by[0.0][1] == "Warmup" and by[0.0][0] is False and by[9.9][1] == "Warmup" and by[10.1][1] == "Normal", f_el,
           f"built at virtual time 50, start() at {S:g}: right after start() progress {pr(0.0)!r}, completed {by[0.0][0]!r}, sample type {by[0.0][1]}; warm-up ends between start + 9.9 s and start + 10.1 s: {by[9.9][1]} / {by[10.1][1]}")


    # `infinite` (the generator's choice between "loop until completed" and "loop until the parameter source ends") is about a period that is ABSENT: a period of 0 s (a task
    # that only warms up) is a stated period, the task ends when the warm-up period has elapsed
    inf = [(a, _ControlRun(drv, TB, a, t=50.0)) for a in ([WT, None], [WT, TP], [WT, 0], [WT, 0.0], [0, TP])]
    got = [(a, r.read("infinite") if r.obj is not None else f"raises {r.error}") for a, r in inf]
    f_inf = _prop(drv, TB, "infinite")
    if _unknown([g for _, g in got]) is not None:
        chk.unknown(rid, f"TimePeriodBased.infinite gives a value the walk does not know ({_unknown([g for _, g in got])!r})", f_inf)
    else:
        chk.ob(rid, "infinite == the period is None (a period of 0 is finite)", [g for _, g in got] == [True, False, False, False, False], f_inf,
               "; ".join(f"TimePeriodBased({a[0]!r}, {a[1]!r}).infinite is {g!r}" for a, g in got), key=f"{_D}:TimePeriodBased.infinite:none-only")
    zseq, zerr = drive([WT, 0], [9.9, 10.1])
    if zseq is None:
        chk.ob(rid, "a period of 0 s: completed once the warm-up period has elapsed", False, TB, f"TimePeriodBased({WT:g}, 0) {zerr}")
    elif _unknown([(done, p_) for _, done, _, p_ in zseq]) is not None:
        chk.unknown(rid, f"TimePeriodBased({WT:g}, 0) driven through start() / next(): a value the walk does not know ({_unknown([(done, p_) for _, done, _, p_ in zseq])!r})", TB)
    else:
        zd, zk, zp = [x[1] for x in zseq], [x[2] for x in zseq], [x[3] for x in zseq]
        chk.ob(rid, "a period of 0 s: completed once the warm-up period has elapsed", zd == [False, False, True] and zk[:2] == ["Warmup", "Warmup"] and all(isnum(p_) and -1e-12 <= p_ <= 1 + 1e-12 for p_ in zp[:2])
               and _close(zp[1], 9.9 / WT), f_co,
               f"TimePeriodBased({WT:g}, 0) at start + [0, 9.9, 10.1] s: completed {zd} (expected False, False, True), sample types {zk}, progress {[round(p_, 4) if isinstance(p_, float) else p_ for p_ in zp]}",
               key=f"{_D}:TimePeriodBased:zero-period")


def simple_schedulers_rule(chk, rid, sch):
    """the three delegate schedulers decided on VALUES: each is built by walking its own __init__ with (task, theta = 4 requests/s) - the positional order UnitAwareScheduler uses -
    and asked for next(10.0). random.expovariate(l) is a recording stand-in that returns 7 / l."""
    DS, PS, UT = sch.cls("DeterministicScheduler"), sch.cls("PoissonScheduler"), sch.cls("Unthrottled")
    dn, pn, un = _prop(sch, DS, "next"), _prop(sch, PS, "next"), _prop(sch, UT, "next")
    draws = []

    def opaque_call(f, a, k):
        if f.label == "random.expovariate" and len(a) == 1 and isinstance(a[0], (int, float)):
            draws.append(a[0])
            return 7.0 / a[0]
        return _MISSING

    def nxt(cls, args, current):
        m = _Machine(sch, on_opaque_call=opaque_call)
        try:
            return m.call(m.load(m.instantiate(_Cls(cls), args, {}), "next"), [current], {})
        except _Rse as x:
            return f"raises {x.name()}"

    task = _Obj("task", clients=4, name="t")

    def known(v, f, what):
        if _unknown(v) is not None:
            chk.unknown(rid, f"{what}: next(10.0) gives a value the walk does not know ({v!r})", f)
        return _unknown(v) is None

    d = nxt(DS, [task, 4.0], 10.0)
    p_ = nxt(PS, [task, 4.0], 10.0)
    u0 = nxt(UT, [], 10.0)
    if not (known(d, dn, "deterministic scheduler") and known(p_, pn, "Poisson scheduler") and known(u0, un, "unthrottled scheduler")):
        return
    chk.ob(rid, "deterministic: next == current + 1/theta", _close(d, 10.25), dn, f"theta = 4 requests/s: next(10.0) == {d!r} (expected 10.25)")
    chk.ob(rid, "poisson: next == current + expovariate(theta)", _close(p_, 10.0 + 7.0 / 4.0) and draws == [4.0], pn,
           f"theta = 4 requests/s, expovariate(l) := 7 / l: next(10.0) == {p_!r} (expected 11.75), expovariate called with {draws} (expected [4.0])")
    chk.ob(rid, "unthrottled: next == 0", u0 == 0 and not isinstance(u0, bool), un, f"next(10.0) == {u0!r}")


def unthrottled_choice_rule(chk, rid, sch):
    """when a task runs unthrottled, decided on VALUES: run_unthrottled(task) and scheduler_for(task) are walked for tasks with / without a target throughput. (For a throttled
    task the walk of scheduler_for ends in the scheduler registry, which is filled at import time and not modelled: what is decided is that it does NOT hand out the unthrottled
    scheduler before that.)"""
    sf, ru, UT = sch.func("scheduler_for"), sch.func("run_unthrottled"), sch.cls("Unthrottled")
    tt = _Obj("throughput", value=100.0, unit="ops/s")

    def task(throughput, schedule):
        return _Obj("task", target_throughput=throughput, schedule=schedule, clients=4, name="t")

    def walk(f, t):
        m = _Machine(sch)
        try:
            return m.call(_Fn(f), [t], {})
        except _Rse as x:
            return f"raises {x.name()}"

    def is_unthrottled(r):
        return isinstance(r, _Obj) and r.cls is UT

    free, paced = walk(sf, task(None, None)), walk(sf, task(tt, None))
    if _unknown(free, paced) is not None:
        chk.unknown(rid, f"scheduler_for gives a value the walk does not know ({_unknown(free, paced)!r})", sf)
        return
    chk.ob(rid, "unthrottled scheduler iff run_unthrottled(task)", is_unthrottled(free) and not is_unthrottled(paced), sf,
           f"task without target throughput: scheduler_for gives {free!r}; task with 100 ops/s: {paced!r}")
    rows = [((None, None), True), ((tt, None), False), ((tt, "deterministic"), False), ((tt, "poisson"), False)]
    got = [(a, walk(ru, task(*a))) for a, _ in rows]
    if _unknown([g for _, g in got]) is not None:
        chk.unknown(rid, f"run_unthrottled gives a value the walk does not know ({_unknown([g for _, g in got])!r})", ru)
        return
    chk.ob(rid, "unthrottled requires target throughput is None", [g for _, g in got] == [w_ for _, w_ in rows], ru,
           "; ".join(f"target throughput {'100 ops/s' if a[0] is not None else None}, schedule {a[1]!r}: {g!r}" for a, g in got))


def ramp_up_formula_rule(chk, rid, drv):
    """ramp-up delay of client i == ramp-up * i / total, decided on VALUES: the handle is the object a walk of schedule_for returns for an allocation that is client 1 of 3 of its
    task and client 5 of 8 of the schedule element, the task's ramp-up time period is 8 s; its ramp_up_wait_time (the property the executor reads) must be 5 s, and 0 without
    ramp-up."""
    SH = drv.cls("ScheduleHandle")
    rw = _prop(drv, SH, "ramp_up_wait_time")
    got = []
    for ramp in (8.0, None):
        r = _ScheduleRun(drv, {"warmup_iterations": 3, "iterations": 7}, ramp_up=ramp)
        if not (isinstance(r.handle, _Obj) and r.handle.cls is SH):
            raise AnchorMissing("the ScheduleHandle object schedule_for returns" + (f" (schedule_for raises {r.error})" if r.error else ""))
        try:
            got.append(r.machine.load(r.handle, "ramp_up_wait_time", rw))
        except _Rse as x:
            got.append(f"raises {x.name()}")
    if _unknown(got) is not None:
        chk.unknown(rid, f"ScheduleHandle.ramp_up_wait_time gives a value the walk does not know ({_unknown(got)!r})", rw)
        return
    chk.ob(rid, "ramp-up wait == ramp * (i / total)", _close(got[0], 8.0 * 5 / 8) and (got[1] == 0 and not isinstance(got[1], bool)), rw,
           f"ramp-up 8 s, client 5 of 8 (client 1 of 3 of its task): wait {got[0]!r} s (expected 5); without ramp-up: {got[1]!r} (expected 0)")
    # the position the allocator hands out is NOT reduced modulo the number of clients of the element: a parallel element whose tasks ask for more clients than the element has
    # (over-commitment) yields element-wide indices >= total; the delay stays ramp * i / total for every index (linear, no wrap-around, no clamp), and is 0 for the first client
    lin = []
    for i, total in ((0, 8), (7, 8), (8, 8), (11, 8), (3, 2)):
        r = _ScheduleRun(drv, {"warmup_iterations": 3, "iterations": 7}, ramp_up=8.0, global_index=i, total=total)
        if not (isinstance(r.handle, _Obj) and r.handle.cls is SH):
            raise AnchorMissing("the ScheduleHandle object schedule_for returns" + (f" (schedule_for raises {r.error})" if r.error else ""))
        try:
            lin.append((i, total, r.machine.load(r.handle, "ramp_up_wait_time", rw)))
        except _Rse as x:
            lin.append((i, total, f"raises {x.name()}"))
    if _unknown([w for _, _, w in lin]) is not None:
        chk.unknown(rid, f"ScheduleHandle.ramp_up_wait_time gives a value the walk does not know ({_unknown([w for _, _, w in lin])!r})", rw)
        return
    bad = [(i, total, w) for i, total, w in lin if isinstance(w, (str, bool)) or not _close(w, 8.0 * i / total)]
    chk.ob(rid, "ramp-up wait == ramp * (i / total) for every element-wide client index the allocator hands out (first client, last client, indices >= total of an over-committed parallel element)",
           not bad, rw, "ramp-up 8 s: " + "; ".join(f"client {i} of {total}: wait {w!r} s" + (f" (expected {8.0 * i / total:g})" if (i, total, w) in bad else "") for i, total, w in lin),
           key=f"{_D}:ScheduleHandle.ramp_up_wait_time:linear")


def _task_as_loaded(repo, **given):
    """a task as the loader hands it to the driver: the fields track.Task's OWN constructor stores for Task(name, operation, **given) (its __init__ is walked by the local
    machine, so every attribute a task carries is there with its default - a reader of ANY of them gets a value, not `unknown`); the result is a plain object of those
    fields (methods / properties of track.Task are not part of it: whoever reads one of them gets an unknown value). Without a walkable constructor: the documented fields."""
    op = _Obj("operation", type="search", name="search")
    try:
        trk = repo.module("esrally/track/track.py")
        o = _Machine(trk).instantiate(_Cls(trk.cls("Task")), [], dict(given, name="t", operation=op))
        if all(k in o.fields for k in given):
            return _Obj("task", **o.fields)
    except (AnchorMissing, CannotEval, _Rse):
        pass
    fields = dict({f: None for f, _, _ in _MIX_FIELDS}, ramp_up_time_period=None, clients=1, schedule=None, name="t", operation=op, completes_parent=False, any_completes_parent=False)
    fields.update(given)
    return _Obj("task", **fields)


def loop_control_choice_rule(chk, rid, drv):
    """requires_time_period_schedule(task, runner, params) as a decision table over VALUES: the function (and whatever helper it calls) is walked for the 64 combinations of
    {warm-up period, period, warm-up iterations, iterations} given / None, runner.completed given (False: a runner that knows about completion and is not done) / None,
    params.infinite True / False, positional arguments in the order schedule_for passes them; the result is compared with the documented precedence. The task is one as the
    loader constructs it (all attributes of track.Task present, everything that is not given at its default); a ramp-up period - which the loader accepts only together with
    a warm-up time period - is given (8 s) and not given in the rows with a warm-up period and must not change the choice: only the four fields of the property decide."""
    rq = drv.func("requires_time_period_schedule")
    n_rows = 0
    for vals in itertools.product([False, True], repeat=6):
        env = dict(zip(["wt", "t", "wi", "i", "rc", "inf"], vals))
        label = ", ".join(k for k, v in env.items() if v) or "nothing set"
        if env["wt"] or env["t"]:
            want = True
        elif env["wi"] or env["i"]:
            want = False
        elif env["rc"]:
            want = True
        else:
            want = not env["inf"]
        agree = True
        for ramp in ((None, 8) if env["wt"] else (None,)):
            task = _task_as_loaded(chk.repo, warmup_time_period=30 if env["wt"] else None, time_period=120 if env["t"] else None, warmup_iterations=3 if env["wi"] else None,
                                   iterations=7 if env["i"] else None, ramp_up_time_period=ramp)
            m = _Machine(drv)
            try:
                got = m.truth(m.call(_Fn(rq), [task, _Obj("runner", completed=False if env["rc"] else None), _Obj("params", infinite=env["inf"])], {}))
            except _Rse as x:
                chk.ob(rid, f"row {env}", False, rq, f"no decision: raises {x.name()}")
                agree = None
                break
            except CannotEval as e:
                chk.unknown(rid, f"requires_time_period_schedule is not evaluable on a task / runner / parameter source given by its fields ({label}): {e}", rq)
                return
            if got != want:
                agree = False
                chk.ob(rid, f"choice for {label}" + (" with a ramp-up period" if ramp else ""), False, rq,
                       f"chooses {'time-based' if got else 'iteration-based'}, documented: {'time-based' if want else 'iteration-based'}"
                       + (" (only `time-period` given: with a parameter source that never ends every client issues `iterations` (default 1) requests instead of issuing requests until the period has elapsed)"
                          if env["t"] and not env["wt"] and not got else ""),
                       key=f"{_D}:requires_time_period_schedule:{sorted(k for k, v in env.items() if v)}" + (":ramp-up" if ramp else ""))
        if agree is None:
            continue
        n_rows += 1
    chk.ob(rid, "decision table rows evaluated", n_rows == 64, rq, f"{n_rows} of 64 cases evaluated against the documented precedence")


_RUNTIME_ERRORS = ("AttributeError", "TypeError", "KeyError", "IndexError", "ZeroDivisionError", "ValueError", "NameError", "AssertionError", "re-raise")


class _LoaderRun:
    """A walk of TrackSpecificationReader.parse_task / parse_parallel by the local machine on a concrete task / parallel specification (plain dicts, as the JSON gives them).
    The reader is an object of the class with only `name` set (the walked methods read nothing else); every construction track.Task(...) is recorded - the stand-in that comes
    back has exactly the constructor's arguments as fields (bound by Task.__init__'s own signature, positional or keyword), so the validation statements that follow read what
    the loader put there. A rejection is the loader's own error (TrackSyntaxError raised by self._error / raise); a Python runtime error means the walk is unreliable."""

    def __init__(self, repo):
        self.ldr, self.trk = repo.module("esrally/track/loader.py"), repo.module("esrally/track/track.py")
        self.SR = self.ldr.cls("TrackSpecificationReader")
        tinit = self.trk.methods(self.trk.cls("Task")).get("__init__")
        if tinit is None:
            raise AnchorMissing("track.Task.__init__")
        self.task_params = params_of(tinit)[1:]
        self.tasks = []

        def opaque_call(f, args, kwargs):
            if f.label.split(".")[-1] == "Task":
                t = _Obj("task", **dict(zip(self.task_params, args)), **kwargs)
                self.tasks.append(t)
                return t
            return _MISSING

        self.m = _Machine(self.ldr, on_opaque_call=opaque_call)
        self.reader = _Obj("reader", cls=self.SR, name="t")
        self.ops = {"op1": _Obj("operation", name="op1", type="search")}

    def call(self, method, spec):
        """('ok', result) | ('rejected', error class) ; CannotEval when the walk hits a Python runtime error or something unmodelled"""
        if self.ldr.methods(self.SR).get(method) is None:
            raise AnchorMissing(f"TrackSpecificationReader.{method}")
        try:
            return "ok", self.m.call(self.m.load(self.reader, method), [spec, self.ops, "challenge"], {})
        except _Rse as x:
            if x.name().split(".")[-1] in _RUNTIME_ERRORS:
                raise CannotEval(f"the walk of {method} ends in a {x.name()} at line {getattr(x.node, 'lineno', '?')}")
            return "rejected", x.name()


def parallel_defaults_rule(chk, rid, repo):
    """TrackSpecificationReader.parse_parallel hands the iteration / time-period defaults written on the parallel element to the tasks inside it under the SAME meaning (four
    ints: a swap type-checks and only shows when the two values differ). Decided on values: parse_parallel is walked for a parallel element that carries warm-up iterations 11 /
    iterations 13 (resp. warm-up period 17 / period 19) around one task that says nothing itself; the track.Task(...) that results must carry each value in the constructor
    argument of that meaning. How parse_task's parameters are called, in which order they are passed and through which helper does not matter."""
    ldr = repo.module("esrally/track/loader.py")
    chk.use(ldr)
    pp = ldr.methods(ldr.cls("TrackSpecificationReader")).get("parse_parallel")
    if pp is None:
        raise AnchorMissing("TrackSpecificationReader.parse_parallel")
    ROWS = [({"warmup-iterations": 11, "iterations": 13}, [("default_warmup_iterations", "warmup-iterations", "warmup_iterations"), ("default_iterations", "iterations", "iterations")]),
            ({"warmup-time-period": 17, "time-period": 19}, [("default_warmup_time_period", "warmup-time-period", "warmup_time_period"), ("default_time_period", "time-period", "time_period")])]
    for given, checks in ROWS:
        try:
            run_ = _LoaderRun(repo)
            st, res = run_.call("parse_parallel", dict(given, tasks=[{"operation": "op1"}]))
        except CannotEval as e:
            chk.unknown(rid, f"parse_parallel is not evaluable on a parallel element with {given}: {e}", pp)
            continue
        if st != "ok" or len(run_.tasks) != 1:
            chk.unknown(rid, f"parse_parallel on a parallel element with {given} and one task: {'rejected with ' + str(res) if st != 'ok' else str(len(run_.tasks)) + ' track.Task constructions'}", pp)
            continue
        t = run_.tasks[0]
        all4 = {f: t.fields.get(f, _MISSING) for _, _, f in ROWS[0][1] + ROWS[1][1]}
        for param, key, field in checks:
            got = t.fields.get(field, _MISSING)
            if _unknown(got) is not None:
                chk.unknown(rid, f"parallel default '{key}': the value that reaches track.Task({field}=...) is one the walk does not know ({got!r})", pp)
                continue
            chk.ob(rid, f"parallel default '{key}' -> parse_task({param}=...)", got is not _MISSING and got == given[key] and not isinstance(got, bool), pp,
                   f"parallel element {given}: the task inside is constructed with " + ", ".join(f"{f}={'<not passed>' if v is _MISSING else repr(v)}" for f, v in all4.items()),
                   key=f"esrally/track/loader.py:parse_parallel:default:{param}")


def iteration_time_mix_rule(chk, rid, repo):
    """requires_time_period_schedule() lets any time-period field win over the iteration fields (O5.5 table), so `exactly warmup-iterations + iterations requests` holds for a
    task only if no task carrying an iteration field AND a time-period field ever reaches the driver: the loader has to reject it (its own message: 'mixing time periods and
    iterations is not allowed'). Decided on values: TrackSpecificationReader.parse_task is walked by the local machine for the 16 set/unset combinations of the four keys
    (ramp-up unset) on a task specification given as a plain dict; the outcome is the loader's rejection (TrackSyntaxError via self._error / raise) or the constructed task.
    Every mixed row must be rejected, every unmixed row accepted. Whether the validation sits in parse_task, in a helper it calls, before or after the Task construction, as an
    if-chain or a table, is all the same. Where a field value comes from (the task itself or the default inherited from the parallel element) does not matter here."""
    ldr = repo.module("esrally/track/loader.py")
    chk.use(ldr)
    pt = ldr.methods(ldr.cls("TrackSpecificationReader")).get("parse_task")
    if pt is None:
        raise AnchorMissing("TrackSpecificationReader.parse_task")
    n_rows = 0
    for vals in itertools.product([False, True], repeat=4):
        names = [k for (_, k, _), given in zip(_MIX_FIELDS, vals) if given]
        row = "+".join(names) or "none"
        spec = {"operation": "op1"}
        spec.update({k: v for (_, k, v), given in zip(_MIX_FIELDS, vals) if given})
        try:
            st, res = _LoaderRun(repo).call("parse_task", spec)
        except CannotEval as e:
            chk.unknown(rid, f"parse_task is not evaluable on a task specification with {', '.join(names) or 'no iteration / time-period key'} (row {row}): {e}", pt)
            continue
        n_rows += 1
        rejected = st == "rejected"
        wi, it, wt, tp = vals
        mixed = (wi or it) and (wt or tp)
        detail = f"the loader {'rejects' if rejected else 'accepts'} the task" + (f" ({res})" if rejected else "")
        if mixed and not rejected:
            detail += (f": it reaches the driver with both kinds of fields, requires_time_period_schedule() picks the time-based control and the "
                       f"{' + '.join(n for n in names if 'iterations' in n)} written in the track are ignored"
                       + (" (warm-up period without a period: the control is infinite, a task with a constant parameter source never ends)" if not tp else ""))
        chk.ob(rid, f"task with {', '.join(names) or 'no iteration / time-period field'}: {'rejected by the loader (iterations mixed with time periods)' if mixed else 'accepted'}",
               rejected == mixed, pt, detail, key=f"esrally/track/loader.py:TrackSpecificationReader.parse_task:mix:[{row}]")
    chk.ob(rid, "iteration / time-period mixing table: all 16 rows evaluated", n_rows == 16, pt, f"{n_rows} of 16 rows")


def run(chk):
    repo = chk.repo
    drv, sch = repo.module(_D), repo.module(_S)
    chk.use(drv, sch)
    chk.explanation = (
        "Decides the loop-control and pacing skeleton ON VALUES: the statements of the analysed functions are walked by a small local interpreter with representative inputs "
        "(objects with named fields; classes of the analysed module instantiated by walking their own __init__; helper methods / functions / properties / local closures followed; "
        "everything else an opaque object), nothing of the repository is imported or executed. IterationBased(2, 3) and TimePeriodBased(10, 20) driven through start() / next() on a "
        "virtual clock (completion, warm-up flag, progress per step; an adversarial wall clock shows a non-monotonic time source); the schedule generator walked with a recording "
        "progress control in finite and infinite mode (event order completion test / scheduler.next / yield / control.next, yielded tuples); schedule_for walked for representative "
        "tasks (class and constructor arguments of the loop control that reaches the handle, partition arguments, ramp-up wait of client 5 of 8); requires_time_period_schedule as a "
        "64-row value table; the delegate schedulers and UnitAwareScheduler fed feedback sequences (gap between requests == weight*C/T, ops/s normalisation on every call, failed "
        "requests); AsyncExecutor.__call__ walked on a virtual clock up to its second request (timer started before the ramp-up wait, wait taken once, request due d after the END of "
        "the wait); Task.target_throughput on representative task parameters and its pattern on the regex syntax tree; the loader's parse_parallel / parse_task walked on plain "
        "dicts (defaults of a parallel element, 16-row iteration / time-period mixing table); the progress aggregate printed for a step (Driver.update_samples walked on shipments of sample objects: the table and its keys are read off the driver object; the extracted mean evaluated on the resulting table)."
    )
    chk.not_decided = "the boundary request of time-based tasks, Poisson statistics, plugin schedulers, float rounding of progress."
    IB = drv.cls("IterationBased")
    TB = drv.cls("TimePeriodBased")
    SH = drv.cls("ScheduleHandle")

    # ---- O5.1 iteration counter -------------------------------------------------------------------------------------------------
    chk.rule("O5.1", "iteration-based progress: counter idiom (start: it = 0; next: it += 1; no other writer); completed == it >= W + I; warm-up == it < W; "
             "progress == (it + 1) / (W + I)", 6,
             "every iteration-based task: one request too many/few, the wrong number flagged warm-up, or progress not ending at exactly 1")
    _section(chk, "O5.1", iteration_control_rule, chk, "O5.1", drv)

    # ---- O5.2 time-period guards --------------------------------------------------------------------------------------------------
    chk.rule("O5.2", "time-based progress: elapsed == now - start; warm-up == elapsed < Wt; completed == now >= start + (Wt + T) (direction only); start written only by start(); "
             "now only from the monotonic clock", 6,
             "a time-based task never stops / stops at once, flags the wrong side as warm-up, or returns to warm-up")
    _section(chk, "O5.2", time_control_rule, chk, "O5.2", drv)

    # ---- O5.3 generator discipline -----------------------------------------------------------------------------------------------------
    chk.rule("O5.3", "schedule generator: finite branch loops while not completed; each iteration computes next_scheduled = sched.next(previous), yields "
             "(next_scheduled, sample_type, progress, runner, params) and calls progress-control next() exactly once after the yield", 6,
             "requests issued after completion, progress advancing twice per request (half the iterations) or never (endless task), scheduled times not threaded")
    _section(chk, "O5.3", generator_rule, chk, "O5.3", drv)

    # ---- O5.4 pacing ----------------------------------------------------------------------------------------------------------------------------
    chk.rule("O5.4", "pacing: deterministic next == current + 1/theta; Poisson current + expovariate(theta); unthrottled 0; unit-aware theta == T / clients / weight "
             "(so consecutive requests are weight*C/T apart); ops/s target with another reported unit => weight 1 on every call; ramp-up == ramp * (i / total), "
             "progress timer started before the ramp-up wait, wait before the main loop, the request schedule anchored at the END of the wait", 9,
             "throttled tasks run at another rate than specified; clients start before/after their ramp-up slot; warm-up window shifted by the ramp-up delay")
    _section(chk, "O5.4", simple_schedulers_rule, chk, "O5.4", sch)
    _section(chk, "O5.4", unit_aware_rule, chk, "O5.4", sch)
    _section(chk, "O5.4", unthrottled_choice_rule, chk, "O5.4", sch)
    _section(chk, "O5.4", ramp_up_formula_rule, chk, "O5.4", drv)
    from rules.C02 import allocation_totals

    _section(chk, "O5.4", allocation_totals, chk, "O5.4", drv)  # owned by rules/C02.py
    _section(chk, "O5.4", timer_before_rampup_rule, chk, "O5.4", drv, "the warm-up / time period would start after the ramp-up delay: client i runs ramp*i/total too long")
    _section(chk, "O5.4", ramp_up_placement_rule, chk, "O5.4", drv)

    # ---- O5.6 target throughput parsing ------------------------------------------------------------------------------------------------------------------
    chk.rule("O5.6", "target throughput of a task: interval k => 1/k ops/s; numeric throughput v => v ops/s; string 'v unit/s' => (v, unit/s); both given, non-numeric interval, malformed string "
             "or another type => rejected; neither => unthrottled (None)", 8,
             "a target interval is taken as a rate (or vice versa): the task is paced at the inverse of what the track says")
    _section(chk, "O5.6", target_throughput_rule, chk, "O5.6", repo)

    # ---- O5.5 loop-control choice --------------------------------------------------------------------------------------------------------------------
    chk.rule("O5.5", "loop-control choice as a decision table: any time-period field => time-based; else any iteration field => iteration-based; else runner completion => time-based; "
             "else finite parameter source => time-based; the chosen control receives (warm-up, measurement) from the task fields of the same kind", 8,
             "explicit iterations ignored (task never stops after W+I requests) or explicit time periods ignored")
    _section(chk, "O5.5", loop_control_choice_rule, chk, "O5.5", drv)
    _section(chk, "O5.5", loop_control_flow_rule, chk, "O5.5", drv)
    # params partitioned with the task-local client index
    _section(chk, "O5.5", partition_call_rule, chk, "O5.5", drv)
    from rules.C01 import complete_read_exemption_rule

    _section(chk, "O5.5", complete_read_exemption_rule, chk, "O5.5", drv)  # owned by rules/C01.py
    _section(chk, "O5.5", parallel_defaults_rule, chk, "O5.5", repo)
    # ---- obligations added after the defect hunt (kept last: an anchor they cannot find must not hide the verdicts above) ----------------------------------
    _section(chk, "O5.4", schedule_anchor_rule, chk, "O5.4", drv)  # F40
    _section(chk, "O5.5", iteration_time_mix_rule, chk, "O5.5", repo)  # F48
    chk.rule("O5.7", "the progress reported for a running step is monotone by construction: the per-step table of most recent samples is keyed by (client, task), and the mean "
             "over it is not taken over the clients that have reported so far only (or the reported value is a per-step high-water mark)", 4,
             "reported progress decreases: a client that runs two tasks of a parallel element in turn (100% -> 25%), or a slower client whose first samples arrive later (60% -> 40%)")
    _section(chk, "O5.7", progress_aggregate_rule, chk, "O5.7", drv)  # F47


from sa.selftest import V  # noqa: E402

_T, _L = "esrally/track/track.py", "esrally/track/loader.py"
# the schedule generator as it is on the pinned tree (two copy-pasted loops) and the merged single-loop form of benign/C05-b2
_GEN_OLD = """        next_scheduled = 0
        if self.task_progress_control.infinite:
            param_source_knows_progress = hasattr(self.params, "percent_completed")
            while True:
                try:
                    next_scheduled = self.sched.next(next_scheduled)
                    # does not contribute at all to completion. Hence, we cannot define completion.
                    percent_completed = self.params.percent_completed if param_source_knows_progress else None
                    # current_params = await self.loop.run_in_executor(self.io_pool_exc, self.params.params)
                    yield (
                        next_scheduled,
                        self.task_progress_control.sample_type,
                        percent_completed,
                        self.runner,
                        self.params_with_operation_type(),
                    )
                    self.task_progress_control.next()
                except StopIteration:
                    return
        else:
            while not self.task_progress_control.completed:
                try:
                    next_scheduled = self.sched.next(next_scheduled)
                    # current_params = await self.loop.run_in_executor(self.io_pool_exc, self.params.params)
                    yield (
                        next_scheduled,
                        self.task_progress_control.sample_type,
                        self.task_progress_control.percent_completed,
                        self.runner,
                        self.params_with_operation_type(),
                    )
                    self.task_progress_control.next()
                except StopIteration:
                    return
"""
_GEN_MERGED = """        progress_control = self.task_progress_control
        if progress_control.infinite:
            param_source_knows_progress = hasattr(self.params, "percent_completed")

            def completed():
                return False

            def percent_completed():
                return self.params.percent_completed if param_source_knows_progress else None

        else:

            def completed():
                return progress_control.completed

            def percent_completed():
                return progress_control.percent_completed

        next_scheduled = 0
        try:
            while not completed():
                next_scheduled = self.sched.next(next_scheduled)
                progress = percent_completed()
                yield (
                    next_scheduled,
                    progress_control.sample_type,
                    progress,
                    self.runner,
                    self.params_with_operation_type(),
                )
                progress_control.next()
        except StopIteration:
            return
"""

# Driver.update_progress_message as it is on the pinned tree and refactored shapes of it (hardening round 4): the averaging extracted into a helper method (benign/C11-b10); guard
# clause + printing extracted into a helper that reads the reporter into a local and formats with f-strings; the mean accumulated by a loop
_UPM_OLD = """    def update_progress_message(self, task_finished=False):
        if not self.quiet and self.current_step >= 0:
            tasks = ",".join([t.name for t in self.tasks_per_join_point[self.current_step]])

            if task_finished:
                total_progress = 1.0
            else:
                # we only count clients which actually contribute to progress. If clients are executing tasks eternally in a parallel
                # structure, we should not count them. The reason is that progress depends entirely on the client(s) that execute the
                # task that is completing the parallel structure.
                progress_per_client = [
                    s.percent_completed for s in self.most_recent_sample_per_client.values() if s.percent_completed is not None
                ]

                num_clients = max(len(progress_per_client), 1)
                total_progress = sum(progress_per_client) / num_clients
            self.progress_reporter.print("Running %s" % tasks, "[%3d%% done]" % (round(total_progress * 100)))
            if task_finished:
                self.progress_reporter.finish()
"""
_UPM_MEAN_HELPER = """    def update_progress_message(self, task_finished=False):
        if not self.quiet and self.current_step >= 0:
            tasks = ",".join([t.name for t in self.tasks_per_join_point[self.current_step]])

            total_progress = 1.0 if task_finished else self._progress_of_current_step()
            self.progress_reporter.print("Running %s" % tasks, "[%3d%% done]" % (round(total_progress * 100)))
            if task_finished:
                self.progress_reporter.finish()

    def _progress_of_current_step(self):
        progress_per_client = [s.percent_completed for s in self.most_recent_sample_per_client.values() if s.percent_completed is not None]

        num_clients = max(len(progress_per_client), 1)
        return sum(progress_per_client) / num_clients
"""
_UPM_PRINT_HELPER = """    def update_progress_message(self, task_finished=False):
        if self.quiet or self.current_step < 0:
            return
        tasks = ",".join([t.name for t in self.tasks_per_join_point[self.current_step]])
        self._show(tasks, 1.0 if task_finished else self._progress_of_current_step(), task_finished)

    def _show(self, tasks, progress, finished):
        reporter = self.progress_reporter
        reporter.print(f"Running {tasks}", f"[{round(progress * 100):3d}% done]")
        if finished:
            reporter.finish()

    def _progress_of_current_step(self):
        progress_per_client = [s.percent_completed for s in self.most_recent_sample_per_client.values() if s.percent_completed is not None]
        return sum(progress_per_client) / max(len(progress_per_client), 1)
"""
_UPM_LOOP = """    def update_progress_message(self, task_finished=False):
        if self.quiet:
            return
        if self.current_step < 0:
            return
        tasks = ",".join([t.name for t in self.tasks_per_join_point[self.current_step]])
        total, reporting = 0.0, 0
        for s in self.most_recent_sample_per_client.values():
            if s.percent_completed is None:
                continue
            total += s.percent_completed
            reporting += 1
        total_progress = 1.0 if task_finished else total / max(reporting, 1)
        self.progress_reporter.print("Running %s" % tasks, "[%3d%% done]" % (round(total_progress * 100)))
        if task_finished:
            self.progress_reporter.finish()
"""
_KEY_OLD, _KEY_TASK = "                self.most_recent_sample_per_client[s.client_id] = s", "                self.most_recent_sample_per_client[s.task] = s"

VARIANTS = [
    V("completed it > total", "break", _D, "        return self._it >= self._total_iterations", "        return self._it > self._total_iterations", "O5.1"),
    V("warmup it <= W", "break", _D, "        return metrics.SampleType.Warmup if self._it < self._warmup_iterations else metrics.SampleType.Normal", "        return metrics.SampleType.Warmup if self._it <= self._warmup_iterations else metrics.SampleType.Normal", "O5.1"),
    V("progress it / total", "break", _D, "        return (self._it + 1) / self._total_iterations", "        return self._it / self._total_iterations", "O5.1"),
    V("total is iterations only", "break", _D, "            self._total_iterations = self._warmup_iterations + self._iterations", "            self._total_iterations = self._iterations", "O5.1"),
    V("counter advanced by 2", "break", _D, "        self._it += 1", "        self._it += 2", "O5.1"),
    V("time warmup inverted", "break", _D, "        return metrics.SampleType.Warmup if self._elapsed < self._warmup_time_period else metrics.SampleType.Normal", "        return metrics.SampleType.Warmup if self._elapsed > self._warmup_time_period else metrics.SampleType.Normal", "O5.2"),
    V("completed ignores warmup", "break", _D, "            self._duration = self._warmup_time_period + self._time_period", "            self._duration = self._time_period", "O5.2"),
    V("start reassigned in next()", "break", _D, "    def next(self):\n        self._now = time.perf_counter()", "    def next(self):\n        self._now = time.perf_counter()\n        self._start = self._now", "O5.2"),
    V("next() before the yield", "break", _D, "                    next_scheduled = self.sched.next(next_scheduled)\n                    # current_params = await self.loop.run_in_executor(self.io_pool_exc, self.params.params)\n                    yield (\n                        next_scheduled,\n                        self.task_progress_control.sample_type,\n                        self.task_progress_control.percent_completed,",
      "                    next_scheduled = self.sched.next(next_scheduled)\n                    self.task_progress_control.next()\n                    yield (\n                        next_scheduled,\n                        self.task_progress_control.sample_type,\n                        self.task_progress_control.percent_completed,", "O5.3"),
    V("scheduled time not threaded", "break", _D, "            while not self.task_progress_control.completed:\n                try:\n                    next_scheduled = self.sched.next(next_scheduled)", "            while not self.task_progress_control.completed:\n                try:\n                    next_scheduled = self.sched.next(0)", "O5.3"),
    V("weight dropped from theta", "break", _S, "            target_throughput = self.task.target_throughput.value / self.task.clients / self.current_weight", "            target_throughput = self.task.target_throughput.value / self.task.clients", "O5.4"),
    V("deterministic wait = theta", "break", _S, "        self.wait_time = 1 / target_throughput", "        self.wait_time = target_throughput", "O5.4"),
    V("seed m2: unit check only on first request", "break", _S, "                if expected_unit == \"ops/s\":\n                    weight = 1\n                    if self.first_request:", "                if expected_unit == \"ops/s\" and self.first_request:\n                    weight = 1\n                    if self.first_request:", "O5.4"),
    V("ramp-up by task clients", "break", _D, "            return ramp_up_time_period * (self.task_allocation.global_client_index / self.task_allocation.total_clients)", "            return ramp_up_time_period * (self.task_allocation.client_index_in_task / self.task_allocation.total_clients)", "O5.4"),
    V("seed m3: timer started after the ramp-up wait", "break", _D, "        self.schedule_handle.start()\n        rampup_wait_time = self.schedule_handle.ramp_up_wait_time\n        if rampup_wait_time:\n            self.logger.debug(\"client id [%s] waiting [%.2f]s for ramp-up.\", self.client_id, rampup_wait_time)\n            await asyncio.sleep(rampup_wait_time)\n",
      "        rampup_wait_time = self.schedule_handle.ramp_up_wait_time\n        if rampup_wait_time:\n            self.logger.debug(\"client id [%s] waiting [%.2f]s for ramp-up.\", self.client_id, rampup_wait_time)\n            await asyncio.sleep(rampup_wait_time)\n        self.schedule_handle.start()\n", "O5.4"),
    V("F40 reverted: schedule anchored before the ramp-up wait", "break", _D, "                absolute_expected_schedule_time = schedule_start + expected_scheduled_time", "                absolute_expected_schedule_time = total_start + expected_scheduled_time", "O5.4"),
    V("F40 equivalent break: anchor is the pre-wait clock on both arms", "break", _D, "        schedule_start = time.perf_counter() if rampup_wait_time else total_start\n", "        schedule_start = total_start if rampup_wait_time else total_start\n", "O5.4"),
    V("loader accepts the crossed mix warmup-iterations + time-period", "break", "esrally/track/loader.py", "        if task.warmup_iterations is not None and task.time_period is not None:", "        if False:", "O5.5"),
    V("loader rejects a pure iteration task", "break", "esrally/track/loader.py", "        elif task.warmup_time_period is not None and task.iterations is not None:", "        elif task.warmup_iterations is not None and task.iterations is not None:", "O5.5"),
    V("progress table keyed by the task only", "break", _D, "                self.most_recent_sample_per_client[s.client_id] = s", "                self.most_recent_sample_per_client[s.task] = s", "O5.7"),
    V("seed m1: runner completion beats explicit iterations", "break", _D, "    if task.warmup_time_period is not None or task.time_period is not None:\n        return True", "    if task.warmup_time_period is not None or task.time_period is not None or task_runner.completed is not None:\n        return True", "O5.5"),
    V("iterations passed as warm-up", "break", _D, "        loop_control = IterationBased(warmup_iterations, iterations)", "        loop_control = IterationBased(iterations, warmup_iterations)", "O5.5"),
    V("warm-up period from time_period", "break", _D, "        warmup_time_period = task.warmup_time_period if task.warmup_time_period else 0", "        warmup_time_period = task.time_period if task.warmup_time_period else 0", "O5.5"),
    V("interval taken as a rate", "break", "esrally/track/track.py", "            value = 1 / float(target_interval)", "            value = float(target_interval)", "O5.6"),
    V("both interval and throughput accepted", "break", "esrally/track/track.py", "        if target_interval is not None and target_throughput is not None:", "        if False:", "O5.6"),
    V("throughput key misspelled", "break", "esrally/track/track.py", "        target_throughput = self.params.get(\"target-throughput\")", "        target_throughput = self.params.get(\"target_throughput\")", "O5.6"),
    # preserving
    V("total - it <= 0", "keep", _D, "        return self._it >= self._total_iterations", "        return self._total_iterations - self._it <= 0"),
    V("W > it", "keep", _D, "        return metrics.SampleType.Warmup if self._it < self._warmup_iterations else metrics.SampleType.Normal", "        return metrics.SampleType.Warmup if self._warmup_iterations > self._it else metrics.SampleType.Normal"),
    V("theta written directly", "keep", _S, "            target_throughput = self.task.target_throughput.value / self.task.clients / self.current_weight", "            target_throughput = self.task.target_throughput.value / (self.task.clients * self.current_weight)"),
    V("strict time completion", "keep", _D, "        return self._now >= (self._start + self._duration)", "        return self._now > (self._start + self._duration)"),
    V("F40 respelled: anchor chosen by an if/else statement", "keep", _D, "        schedule_start = time.perf_counter() if rampup_wait_time else total_start\n",
      "        if rampup_wait_time:\n            schedule_start = time.perf_counter()\n        else:\n            schedule_start = total_start\n"),
    V("F40 respelled: anchor read inside the ramp-up branch after the sleep, else the start time", "keep", _D,
      "            await asyncio.sleep(rampup_wait_time)\n        # the client's schedule starts when the client starts, i.e. after any ramp-up wait\n        schedule_start = time.perf_counter() if rampup_wait_time else total_start\n",
      "            await asyncio.sleep(rampup_wait_time)\n            schedule_start = time.perf_counter()\n        else:\n            schedule_start = total_start\n"),
    [V("F40 respelled: anchor preset to the start time, re-read after the sleep", "keep", _D, "        rampup_wait_time = self.schedule_handle.ramp_up_wait_time\n",
       "        rampup_wait_time = self.schedule_handle.ramp_up_wait_time\n        schedule_start = total_start\n"),
     V("", "keep", _D, "            await asyncio.sleep(rampup_wait_time)\n        # the client's schedule starts when the client starts, i.e. after any ramp-up wait\n        schedule_start = time.perf_counter() if rampup_wait_time else total_start\n",
       "            await asyncio.sleep(rampup_wait_time)\n            schedule_start = time.perf_counter()\n")],
    V("F40 respelled: anchor folded into the due time", "keep", _D, "                absolute_expected_schedule_time = schedule_start + expected_scheduled_time", "                absolute_expected_schedule_time = expected_scheduled_time + schedule_start"),
    V("mixing rule: operands swapped, chain as two ifs", "keep", "esrally/track/loader.py", "        elif task.warmup_time_period is not None and task.iterations is not None:", "        if task.iterations is not None and task.warmup_time_period is not None:"),
    V("progress mean: divisor respelled (same known finding, same key)", "keep", _D, "                num_clients = max(len(progress_per_client), 1)", "                num_clients = len(progress_per_client) or 1"),
    V("progress table: key through a local (same known finding, same key)", "keep", _D, "                self.most_recent_sample_per_client[s.client_id] = s", "                reporter = s.client_id\n                self.most_recent_sample_per_client[reporter] = s"),
    V("decision function as nested ifs", "keep", _D, "    # user has explicitly requested iterations\n    if task.warmup_iterations is not None or task.iterations is not None:\n        return False",
      "    # user has explicitly requested iterations\n    if task.warmup_iterations is not None:\n        return False\n    if task.iterations is not None:\n        return False"),
    # ---- hardening round 2: refactored shapes the value-based rules accept ("keep"), and the same shapes with the defect inside ("break") ------------------------------------
    # O5.6: modernised target_throughput (conditional-expression return, guard clause + walrus + compiled-pattern API, static helper instead of the closure)
    V("target_throughput: conditional-expression return", "keep", _T, "        if value:\n            return Throughput(value, unit)\n        else:\n            return None\n", "        return Throughput(value, unit) if value else None\n"),
    V("target_throughput: guard clause, walrus, compiled-pattern API", "keep", _T,
      "                matches = re.match(Task.THROUGHPUT_PATTERN, target_throughput)\n                if matches:\n                    value = float(matches.group(\"value\"))\n                    unit = matches.group(\"unit\")\n                else:\n                    raise exceptions.InvalidSyntax(f\"Task [{self}] specifies invalid target throughput [{target_throughput}].\")\n",
      "                if not (matches := Task.THROUGHPUT_PATTERN.match(target_throughput)):\n                    raise exceptions.InvalidSyntax(f\"Task [{self}] specifies invalid target throughput [{target_throughput}].\")\n                value = float(matches[\"value\"])\n                unit = matches[\"unit\"]\n"),
    [V("target_throughput: conditional-expression return, interval taken as a rate", "break", _T, "        if value:\n            return Throughput(value, unit)\n        else:\n            return None\n", "        return Throughput(value, unit) if value else None\n", "O5.6"),
     V("", "break", _T, "            value = 1 / float(target_interval)", "            value = float(target_interval)")],
    V("target_throughput: walrus form reads the unit group as the value", "break", _T,
      "                matches = re.match(Task.THROUGHPUT_PATTERN, target_throughput)\n                if matches:\n                    value = float(matches.group(\"value\"))\n                    unit = matches.group(\"unit\")\n                else:\n                    raise exceptions.InvalidSyntax(f\"Task [{self}] specifies invalid target throughput [{target_throughput}].\")\n",
      "                if not (matches := Task.THROUGHPUT_PATTERN.match(target_throughput)):\n                    raise exceptions.InvalidSyntax(f\"Task [{self}] specifies invalid target throughput [{target_throughput}].\")\n                value = float(matches[\"value\"])\n                unit = \"ops/s\"\n", "O5.6"),
    V("throughput pattern constant renamed", "keep", _T, "THROUGHPUT_PATTERN", "TARGET_RATE_RE", count=2),
    [V("throughput pattern constant renamed, fraction outside the value group", "break", _T, "THROUGHPUT_PATTERN", "TARGET_RATE_RE", "O5.6", count=2),
     V("", "break", _T, "re.compile(r\"(?P<value>(\\d*\\.)?\\d+)\\s(?P<unit>\\w+/s)\")", "re.compile(r\"(?:\\d*\\.)?(?P<value>\\d+)\\s(?P<unit>\\w+/s)\")")],
    # O5.4: parsed throughput read once into a local / through a cached property, rate local renamed
    [V("unit-aware: parsed throughput read once into a local, rate local renamed", "keep", _S, "            expected_unit = self.task.target_throughput.unit\n", "            parsed = self.task.target_throughput\n            expected_unit = parsed.unit\n"),
     V("", "keep", _S, "            target_throughput = self.task.target_throughput.value / self.task.clients / self.current_weight\n            self.scheduler = self.scheduler_class(self.task, target_throughput)",
       "            requests_per_second = parsed.value / self.task.clients / self.current_weight\n            self.scheduler = self.scheduler_class(self.task, requests_per_second)")],
    [V("unit-aware: local throughput, rate computed before the weight is stored (stale weight)", "break", _S, "            expected_unit = self.task.target_throughput.unit\n", "            parsed = self.task.target_throughput\n            expected_unit = parsed.unit\n            previous_weight = self.current_weight or weight\n", "O5.4"),
     V("", "break", _S, "            target_throughput = self.task.target_throughput.value / self.task.clients / self.current_weight\n            self.scheduler = self.scheduler_class(self.task, target_throughput)",
       "            requests_per_second = parsed.value / self.task.clients / previous_weight\n            self.scheduler = self.scheduler_class(self.task, requests_per_second)")],
    V("unit-aware: delegate rebuilt only for the first request", "break", _S, "        if weight > 0 and (self.first_request or self.current_weight != weight):", "        if weight > 0 and self.first_request:", "O5.4"),
    V("unit-aware: failed request (weight 0) reaches the rate computation", "break", _S, "        if weight > 0 and (self.first_request or self.current_weight != weight):", "        if self.first_request or self.current_weight != weight:", "O5.4"),
    V("deterministic: wait computed in next()", "keep", _S, "        self.wait_time = 1 / target_throughput\n\n    def next(self, current):\n        return current + self.wait_time", "        self.rate = target_throughput\n\n    def next(self, current):\n        return current + 1.0 / self.rate"),
    # O5.3: the merged single-loop generator (local closures chosen per mode, control read into a local, try around the loop)
    V("generator: one loop, per-mode closures, control in a local", "keep", _D, _GEN_OLD, _GEN_MERGED),
    V("generator: merged loop, next() before the yield", "break", _D, _GEN_OLD, _GEN_MERGED.replace("                )\n                progress_control.next()\n", "                )\n").replace("                progress = percent_completed()\n", "                progress = percent_completed()\n                progress_control.next()\n"), "O5.3"),
    V("generator: merged loop, completion test dropped for finite controls", "break", _D, _GEN_OLD, _GEN_MERGED.replace("                return progress_control.completed\n", "                return False\n"), "O5.3"),
    V("generator: merged loop, infinite control asked for completion", "break", _D, _GEN_OLD, _GEN_MERGED.replace("            def completed():\n                return False\n", "            def completed():\n                return progress_control.completed\n"), "O5.3"),
    V("generator: merged loop, scheduled time restarts from 0 every iteration", "break", _D, _GEN_OLD, _GEN_MERGED.replace("                next_scheduled = self.sched.next(next_scheduled)\n", "                next_scheduled = self.sched.next(0)\n"), "O5.3"),
    V("generator: merged loop, runner and params swapped in the tuple", "break", _D, _GEN_OLD, _GEN_MERGED.replace("                    self.runner,\n                    self.params_with_operation_type(),\n", "                    self.params_with_operation_type(),\n                    self.runner,\n"), "O5.3"),
    # O5.5: loop control built by an extracted helper
    [V("loop control built by an extracted module-level helper", "keep", _D, "        loop_control = IterationBased(warmup_iterations, iterations)\n", "        loop_control = _iteration_control(warmup_iterations, iterations)\n"),
     V("", "keep", _D, "def requires_time_period_schedule(task, task_runner, params):\n", "def _iteration_control(warmup, measured):\n    return IterationBased(warmup, measured)\n\n\ndef requires_time_period_schedule(task, task_runner, params):\n")],
    [V("extracted helper swaps warm-up and measured iterations", "break", _D, "        loop_control = IterationBased(warmup_iterations, iterations)\n", "        loop_control = _iteration_control(warmup_iterations, iterations)\n", "O5.5"),
     V("", "break", _D, "def requires_time_period_schedule(task, task_runner, params):\n", "def _iteration_control(warmup, measured):\n    return IterationBased(measured, warmup)\n\n\ndef requires_time_period_schedule(task, task_runner, params):\n")],
    [V("decision function delegates to a helper predicate", "keep", _D, "    if task.warmup_time_period is not None or task.time_period is not None:\n        return True\n", "    if _has_time_period(task):\n        return True\n"),
     V("", "keep", _D, "def requires_time_period_schedule(task, task_runner, params):\n", "def _has_time_period(task):\n    return not (task.warmup_time_period is None and task.time_period is None)\n\n\ndef requires_time_period_schedule(task, task_runner, params):\n")],
    [V("helper predicate forgets the warm-up period", "break", _D, "    if task.warmup_time_period is not None or task.time_period is not None:\n        return True\n", "    if _has_time_period(task):\n        return True\n", "O5.5"),
     V("", "break", _D, "def requires_time_period_schedule(task, task_runner, params):\n", "def _has_time_period(task):\n    return task.time_period is not None\n\n\ndef requires_time_period_schedule(task, task_runner, params):\n")],
    V("runner completion tested by truthiness (a running runner reports False)", "break", _D, "    if task_runner.completed is not None:\n        return True", "    if task_runner.completed:\n        return True", "O5.5"),
    V("partition arguments through locals and keywords-free helper", "keep", _D, "    params_for_op = parameter_source.partition(client_index, task.clients)", "    slices = task.clients\n    params_for_op = parameter_source.partition(client_index, slices)"),
    # loader: defaults passed by keyword; mixing validation through a helper
    V("parallel defaults passed by keyword, reordered", "keep", _L,
      "                    default_warmup_iterations,\n                    default_iterations,\n                    default_warmup_time_period,\n                    default_time_period,\n                    default_ramp_up_time_period,\n                    completed_by,\n",
      "                    default_time_period=default_time_period,\n                    default_iterations=default_iterations,\n                    default_warmup_time_period=default_warmup_time_period,\n                    default_warmup_iterations=default_warmup_iterations,\n                    default_ramp_up_time_period=default_ramp_up_time_period,\n                    completed_by_name=completed_by,\n"),
    V("parallel defaults passed by keyword, periods crossed", "break", _L,
      "                    default_warmup_iterations,\n                    default_iterations,\n                    default_warmup_time_period,\n                    default_time_period,\n                    default_ramp_up_time_period,\n                    completed_by,\n",
      "                    default_time_period=default_warmup_time_period,\n                    default_iterations=default_iterations,\n                    default_warmup_time_period=default_time_period,\n                    default_warmup_iterations=default_warmup_iterations,\n                    default_ramp_up_time_period=default_ramp_up_time_period,\n                    completed_by_name=completed_by,\n", "O5.5"),
    [V("mixing validation through a helper method", "keep", _L, "        if task.warmup_iterations is not None and task.time_period is not None:", "        if self._both_given(task.warmup_iterations, task.time_period):"),
     V("", "keep", _L, "    def _error(self, msg):\n", "    @staticmethod\n    def _both_given(a, b):\n        return a is not None and b is not None\n\n    def _error(self, msg):\n")],
    [V("mixing validation helper tests the wrong side", "break", _L, "        if task.warmup_iterations is not None and task.time_period is not None:", "        if self._both_given(task.warmup_iterations, task.time_period):", "O5.5"),
     V("", "break", _L, "    def _error(self, msg):\n", "    @staticmethod\n    def _both_given(a, b):\n        return a is not None and b is None\n\n    def _error(self, msg):\n")],
    # executor: sleep-until and ramp-up wait in helper methods, loop invariants hoisted
    [V("sleep-until extracted into a helper coroutine", "keep", _D, "                    rest = absolute_expected_schedule_time - time.perf_counter()\n                    if rest > 0:\n                        await asyncio.sleep(rest)\n", "                    await self._wait_until(absolute_expected_schedule_time)\n"),
     V("", "keep", _D, "    async def __call__(self, *args, **kwargs):\n        any_task_completes_parent", "    @staticmethod\n    async def _wait_until(due):\n        rest = due - time.perf_counter()\n        if rest > 0:\n            await asyncio.sleep(rest)\n\n    async def __call__(self, *args, **kwargs):\n        any_task_completes_parent")],
    [V("sleep-until helper, schedule anchored before the ramp-up wait (F40 in the refactored shape)", "break", _D, "                    rest = absolute_expected_schedule_time - time.perf_counter()\n                    if rest > 0:\n                        await asyncio.sleep(rest)\n", "                    await self._wait_until(total_start + expected_scheduled_time)\n", "O5.4"),
     V("", "break", _D, "    async def __call__(self, *args, **kwargs):\n        any_task_completes_parent", "    @staticmethod\n    async def _wait_until(due):\n        rest = due - time.perf_counter()\n        if rest > 0:\n            await asyncio.sleep(rest)\n\n    async def __call__(self, *args, **kwargs):\n        any_task_completes_parent")],
    [V("ramp-up wait extracted into a helper coroutine", "keep", _D, "        if rampup_wait_time:\n            self.logger.debug(\"client id [%s] waiting [%.2f]s for ramp-up.\", self.client_id, rampup_wait_time)\n            await asyncio.sleep(rampup_wait_time)\n", "        await self._ramp_up(rampup_wait_time)\n"),
     V("", "keep", _D, "    async def __call__(self, *args, **kwargs):\n        any_task_completes_parent", "    async def _ramp_up(self, delay):\n        if delay:\n            self.logger.debug(\"client id [%s] waiting [%.2f]s for ramp-up.\", self.client_id, delay)\n            await asyncio.sleep(delay)\n\n    async def __call__(self, *args, **kwargs):\n        any_task_completes_parent")],
    [V("ramp-up helper called inside the request loop (waits before every request)", "break", _D, "        if rampup_wait_time:\n            self.logger.debug(\"client id [%s] waiting [%.2f]s for ramp-up.\", self.client_id, rampup_wait_time)\n            await asyncio.sleep(rampup_wait_time)\n", "", "O5.4"),
     V("", "break", _D, "                absolute_expected_schedule_time = schedule_start + expected_scheduled_time\n", "                await self._ramp_up(rampup_wait_time)\n                absolute_expected_schedule_time = schedule_start + expected_scheduled_time\n"),
     V("", "break", _D, "    async def __call__(self, *args, **kwargs):\n        any_task_completes_parent", "    async def _ramp_up(self, delay):\n        if delay:\n            await asyncio.sleep(delay)\n\n    async def __call__(self, *args, **kwargs):\n        any_task_completes_parent")],
    [V("timer start moved into the ramp-up helper after the sleep", "break", _D, "        self.schedule_handle.start()\n        rampup_wait_time = self.schedule_handle.ramp_up_wait_time\n        if rampup_wait_time:\n            self.logger.debug(\"client id [%s] waiting [%.2f]s for ramp-up.\", self.client_id, rampup_wait_time)\n            await asyncio.sleep(rampup_wait_time)\n",
       "        rampup_wait_time = self.schedule_handle.ramp_up_wait_time\n        await self._ramp_up(rampup_wait_time)\n", "O5.4"),
     V("", "break", _D, "    async def __call__(self, *args, **kwargs):\n        any_task_completes_parent", "    async def _ramp_up(self, delay):\n        if delay:\n            await asyncio.sleep(delay)\n        self.schedule_handle.start()\n\n    async def __call__(self, *args, **kwargs):\n        any_task_completes_parent")],
    # loop controls: attributes renamed, intermediate property removed
    V("iteration counter attribute renamed", "keep", _D, r"self\._it\b", "self._iteration", count=6, regex=True),
    [V("iteration counter renamed, completion off by one", "break", _D, r"self\._it\b", "self._iteration", "O5.1", count=6, regex=True),
     V("", "break", _D, "        return self._iteration >= self._total_iterations", "        return self._iteration + 1 >= self._total_iterations")],
    V("time control: clock attribute renamed", "keep", _D, r"self\._now\b", "self._current", count=6, regex=True),
    [V("time control: clock attribute renamed, wall clock in next()", "break", _D, r"self\._now\b", "self._current", "O5.2", count=6, regex=True),
     V("", "break", _D, "    def next(self):\n        self._current = time.perf_counter()", "    def next(self):\n        self._current = self._start + (time.time() - self._wall_start)"),
     V("", "break", _D, "        self._start = self._current\n", "        self._start = self._current\n        self._wall_start = time.time()\n")],
    V("time control: elapsed inlined, helper property removed", "keep", _D, "        return metrics.SampleType.Warmup if self._elapsed < self._warmup_time_period else metrics.SampleType.Normal", "        return metrics.SampleType.Normal if self._now - self._start >= self._warmup_time_period else metrics.SampleType.Warmup"),
    V("time control: progress measured from construction, not from start()", "break", _D, "        self._start = None\n        self._now = None\n\n    def start(self):\n        self._now = time.perf_counter()\n        self._start = self._now\n",
      "        self._start = time.perf_counter()\n        self._now = self._start\n\n    def start(self):\n        self._now = time.perf_counter()\n", "O5.2"),
    V("ramp-up wait through locals", "keep", _D, "            return ramp_up_time_period * (self.task_allocation.global_client_index / self.task_allocation.total_clients)", "            allocation = self.task_allocation\n            share = allocation.global_client_index / allocation.total_clients\n            return share * ramp_up_time_period"),
    [V("time control: monotonic clock through an aliased import", "keep", _D, "import time\n", "import time\nfrom time import perf_counter as _clock\n"),
     V("", "keep", _D, "        self._now = time.perf_counter()", "        self._now = _clock()", count=2)],
    [V("time control: aliased import of the wall clock", "break", _D, "import time\n", "import time\nfrom time import time as _clock\n", "O5.2"),
     V("", "break", _D, "        self._now = time.perf_counter()", "        self._now = _clock()", count=2)],
    # ---- hardening round 3: shapes of the second benign round ("keep") and the same shapes with the defect inside ("break") ----------------------------------------------------
    # O5.7: the progress table and its key are read off a WALK of update_samples (no loop / subscript-store shape is matched)
    V("progress table filled by update() with a comprehension, guard dropped (same known findings, same keys)", "keep", _D,
      "        if len(samples) > 0:\n            self.raw_samples += samples\n            # We need to check all samples, they will be from different clients\n            for s in samples:\n                self.most_recent_sample_per_client[s.client_id] = s\n",
      "        self.raw_samples.extend(samples)\n        self.most_recent_sample_per_client.update({s.client_id: s for s in samples})\n"),
    V("progress table filled by update(): keyed by the task only", "break", _D,
      "            for s in samples:\n                self.most_recent_sample_per_client[s.client_id] = s\n",
      "            self.most_recent_sample_per_client.update({s.task: s for s in samples})\n", "O5.7"),
    V("progress table filled by setdefault(): the FIRST sample of a client is kept, progress never advances", "break", _D,
      "                self.most_recent_sample_per_client[s.client_id] = s\n", "                self.most_recent_sample_per_client.setdefault(s.client_id, s)\n", "O5.7"),
    [V("progress table filled by a helper method, table attribute renamed (same known findings, same keys)", "keep", _D, "                self.most_recent_sample_per_client[s.client_id] = s\n", "                self._remember(s)\n"),
     V("", "keep", _D, "    def update_progress_message(self, task_finished=False):\n", "    def _remember(self, newest):\n        self.latest_sample_of[newest.client_id] = newest\n\n    def update_progress_message(self, task_finished=False):\n"),
     V("", "keep", _D, r"self\.most_recent_sample_per_client\b", "self.latest_sample_of", count=3, regex=True)],
    # O5.4: the UnitAwareScheduler construction is located by data flow from scheduler_for's task parameter (through a helper with other parameter names and order)
    [V("unit-aware scheduler built by an extracted helper (parameters renamed and reordered)", "keep", _S, "        return UnitAwareScheduler(task, scheduler_class)\n", "        return _unit_aware(scheduler_class, task)\n"),
     V("", "keep", _S, "def run_unthrottled(task):\n", "def _unit_aware(delegate, for_task):\n    return UnitAwareScheduler(for_task, delegate)\n\n\ndef run_unthrottled(task):\n")],
    [V("unit-aware scheduler built by an extracted helper, weight dropped from theta", "break", _S, "        return UnitAwareScheduler(task, scheduler_class)\n", "        return _unit_aware(scheduler_class, task)\n", "O5.4"),
     V("", "break", _S, "def run_unthrottled(task):\n", "def _unit_aware(delegate, for_task):\n    return UnitAwareScheduler(for_task, delegate)\n\n\ndef run_unthrottled(task):\n"),
     V("", "break", _S, "            target_throughput = self.task.target_throughput.value / self.task.clients / self.current_weight", "            target_throughput = self.task.target_throughput.value / self.task.clients")],
    [V("unit-aware scheduler built by keyword in a helper, ops/s normalisation only for the first request", "break", _S, "        return UnitAwareScheduler(task, scheduler_class)\n", "        return _unit_aware(task, scheduler_class)\n", "O5.4"),
     V("", "break", _S, "def run_unthrottled(task):\n", "def _unit_aware(for_task, delegate):\n    return UnitAwareScheduler(scheduler_class=delegate, task=for_task)\n\n\ndef run_unthrottled(task):\n"),
     V("", "break", _S, "                if expected_unit == \"ops/s\":\n                    weight = 1\n                    if self.first_request:", "                if expected_unit == \"ops/s\" and self.first_request:\n                    weight = 1\n                    if self.first_request:")],
    # executor walk: diagnostics kept next to the pacing statements (a collections table, arithmetic on a value the machine does not know) do not end the walk
    [V("executor: diagnostics counters (collections.Counter / defaultdict) and a wall-clock skew next to the pacing", "keep", _D, "        schedule_start = time.perf_counter() if rampup_wait_time else total_start\n",
       "        schedule_start = time.perf_counter() if rampup_wait_time else total_start\n        issued = collections.Counter()\n        delayed = collections.defaultdict(int)\n        skew = time.time() - total_start\n        self.logger.debug(\"wall clock skew [%s]\", skew * 1000)\n"),
     V("", "keep", _D, "                    if rest > 0:\n                        await asyncio.sleep(rest)\n", "                    if rest > 0:\n                        delayed[sample_type] += 1\n                        await asyncio.sleep(rest)\n                issued[sample_type] += 1\n")],
    [V("executor: diagnostics counters, schedule anchored before the ramp-up wait (F40 next to the counters)", "break", _D, "        schedule_start = time.perf_counter() if rampup_wait_time else total_start\n",
       "        schedule_start = total_start\n        issued = collections.Counter()\n", "O5.4"),
     V("", "break", _D, "                    if rest > 0:\n                        await asyncio.sleep(rest)\n", "                    if rest > 0:\n                        await asyncio.sleep(rest)\n                issued[sample_type] += 1\n")],
    [V("executor: sleep-until shortened by a diagnostics counter (requests issued early)", "break", _D,
       "        schedule_start = time.perf_counter() if rampup_wait_time else total_start\n", "        schedule_start = time.perf_counter() if rampup_wait_time else total_start\n        issued = collections.Counter()\n", "O5.4"),
     V("", "break", _D, "                    rest = absolute_expected_schedule_time - time.perf_counter()\n", "                    issued[sample_type] += 1\n                    rest = absolute_expected_schedule_time - time.perf_counter() - issued[sample_type]\n")],
    # the allocation is the module's own TaskAllocation (whatever kind of class it is)
    V("TaskAllocation as a dataclass (generated constructor, decorator with arguments)", "keep", _D,
      "class TaskAllocation:\n    def __init__(self, task, client_index_in_task, global_client_index, total_clients):\n        \"\"\"\n\n        :param task: The current task which is always a leaf task.\n        :param client_index_in_task: The task-specific index for the allocated client.\n        :param global_client_index:  The globally unique index for the allocated client across\n                                     all concurrently executed tasks.\n        :param total_clients: The total number of clients executing tasks concurrently.\n        \"\"\"\n        self.task = task\n        self.client_index_in_task = client_index_in_task\n        self.global_client_index = global_client_index\n        self.total_clients = total_clients\n",
      "@dataclass(eq=False, repr=False)\nclass TaskAllocation:\n    task: track.Task\n    client_index_in_task: int\n    global_client_index: int\n    total_clients: int\n"),
    [V("TaskAllocation as a dataclass, ramp-up slot from the task-local index", "break", _D,
       "class TaskAllocation:\n    def __init__(self, task, client_index_in_task, global_client_index, total_clients):\n        \"\"\"\n\n        :param task: The current task which is always a leaf task.\n        :param client_index_in_task: The task-specific index for the allocated client.\n        :param global_client_index:  The globally unique index for the allocated client across\n                                     all concurrently executed tasks.\n        :param total_clients: The total number of clients executing tasks concurrently.\n        \"\"\"\n        self.task = task\n        self.client_index_in_task = client_index_in_task\n        self.global_client_index = global_client_index\n        self.total_clients = total_clients\n",
       "@dataclass(eq=False, repr=False)\nclass TaskAllocation:\n    task: track.Task\n    client_index_in_task: int\n    global_client_index: int\n    total_clients: int\n", "O5.4"),
     V("", "break", _D, "            return ramp_up_time_period * (self.task_allocation.global_client_index / self.task_allocation.total_clients)", "            return ramp_up_time_period * (self.task_allocation.client_index_in_task / self.task_allocation.total_clients)")],
    V("TaskAllocation attributes renamed consistently", "keep", _D, r"\bclient_index_in_task\b", "task_local_index", count=7, regex=True),
    # O5.6: the throughput pattern is judged by what it captures (anchored form, value sub-group non-capturing)
    V("throughput pattern anchored at the start, inner group non-capturing", "keep", _T, "re.compile(r\"(?P<value>(\\d*\\.)?\\d+)\\s(?P<unit>\\w+/s)\")", "re.compile(r\"^(?P<value>(?:\\d*\\.)?\\d+)\\s(?P<unit>\\w+/s)\")"),
    V("throughput pattern anchored at the start, integer part outside the value group", "break", _T, "re.compile(r\"(?P<value>(\\d*\\.)?\\d+)\\s(?P<unit>\\w+/s)\")", "re.compile(r\"^(?:\\d*\\.)?(?P<value>\\d+)\\s(?P<unit>\\w+/s)\")", "O5.6"),
    # executor walk: the constructor parameter that receives the schedule handle is found by behaviour when the construction site is not followed by data flow
    V("executor constructed from an unpacked argument tuple", "keep", _D,
      "            async_executor = AsyncExecutor(\n                client_id, task, schedule, es, self.sampler, self.cancel, self.complete, task.error_behavior(self.abort_on_error)\n            )\n",
      "            executor_args = (client_id, task, schedule, es, self.sampler, self.cancel, self.complete, task.error_behavior(self.abort_on_error))\n            async_executor = AsyncExecutor(*executor_args)\n"),
    [V("executor constructed from an unpacked argument tuple, timer started after the ramp-up wait", "break", _D,
       "            async_executor = AsyncExecutor(\n                client_id, task, schedule, es, self.sampler, self.cancel, self.complete, task.error_behavior(self.abort_on_error)\n            )\n",
       "            executor_args = (client_id, task, schedule, es, self.sampler, self.cancel, self.complete, task.error_behavior(self.abort_on_error))\n            async_executor = AsyncExecutor(*executor_args)\n", "O5.4"),
     V("", "break", _D, "        self.schedule_handle.start()\n        rampup_wait_time = self.schedule_handle.ramp_up_wait_time\n        if rampup_wait_time:\n            self.logger.debug(\"client id [%s] waiting [%.2f]s for ramp-up.\", self.client_id, rampup_wait_time)\n            await asyncio.sleep(rampup_wait_time)\n",
       "        rampup_wait_time = self.schedule_handle.ramp_up_wait_time\n        if rampup_wait_time:\n            self.logger.debug(\"client id [%s] waiting [%.2f]s for ramp-up.\", self.client_id, rampup_wait_time)\n            await asyncio.sleep(rampup_wait_time)\n        self.schedule_handle.start()\n")],
    # ---- hardening round 4: O5.7 reads the reported progress off a WALK of update_progress_message (what reaches the reporter's print, on the paths of the method), so the method's
    # shape does not matter; the mean side is a known finding (F47) on every one of these shapes - located and reported under the same key, never `anchor missing`
    V("progress mean extracted into a helper method (benign/C11-b10; same known findings, same keys)", "keep", _D, _UPM_OLD, _UPM_MEAN_HELPER),
    V("progress: guard clause, printing extracted into a helper (reporter in a local, f-strings), mean in a helper", "keep", _D, _UPM_OLD, _UPM_PRINT_HELPER),
    V("progress: two guard clauses, mean accumulated by a loop with continue", "keep", _D, _UPM_OLD, _UPM_LOOP),
    [V("progress mean in a helper method, table keyed by the task only", "break", _D, _UPM_OLD, _UPM_MEAN_HELPER, "O5.7"), V("", "break", _D, _KEY_OLD, _KEY_TASK)],
    [V("progress printed by a helper, table keeps the FIRST sample of a client (setdefault)", "break", _D, _UPM_OLD, _UPM_PRINT_HELPER, "O5.7"),
     V("", "break", _D, _KEY_OLD, "                self.most_recent_sample_per_client.setdefault(s.client_id, s)")],
    [V("F47 repaired by a per-step high-water mark kept in the extracted helper", "keep", _D, _UPM_OLD,
       _UPM_MEAN_HELPER.replace("        return sum(progress_per_client) / num_clients\n", "        self.shown_progress = max(self.shown_progress, sum(progress_per_client) / num_clients)\n        return self.shown_progress\n")),
     V("", "keep", _D, "            self.most_recent_sample_per_client = {}\n", "            self.most_recent_sample_per_client = {}\n            self.shown_progress = 0.0\n")],
    # ---- strengthening round 5 ------------------------------------------------------------------------------------------------------------------------------
    # O5.3 (seed m13): only the parameter source's StopIteration ends a schedule; a fault of the source / the scheduler leaves the generator as an error
    V("seed m13: the generator takes a RuntimeError for the end of the parameter source (both loops)", "break", _D, _GEN_OLD, _GEN_OLD.replace("except StopIteration:", "except (StopIteration, RuntimeError):"), "O5.3"),
    V("finite loop ends the schedule on any exception", "break", _D, "                    self.task_progress_control.next()\n                except StopIteration:\n                    return\n\n\nclass TimePeriodBased",
      "                    self.task_progress_control.next()\n                except Exception:\n                    return\n\n\nclass TimePeriodBased", "O5.3"),
    V("the helper that fetches the parameters converts lookup errors into the end-of-source signal", "break", _D, "        p = self.params.params()\n",
      "        try:\n            p = self.params.params()\n        except LookupError:\n            raise StopIteration()\n", "O5.3"),
    V("merged single-loop generator leaves the loop on a bare except", "break", _D, _GEN_OLD, _GEN_MERGED.replace("        except StopIteration:\n            return\n", "        except:  # noqa: E722\n            return\n"), "O5.3"),
    V("infinite loop skips a request whose parameters cannot be produced", "break", _D, "                    self.task_progress_control.next()\n                except StopIteration:\n                    return\n        else:",
      "                    self.task_progress_control.next()\n                except StopIteration:\n                    return\n                except ValueError:\n                    continue\n        else:", "O5.3"),
    V("generator: handler spelled as a tuple with a bound name, parameters fetched into a local before the yield", "keep", _D, _GEN_OLD,
      _GEN_OLD.replace("except StopIteration:", "except (StopIteration,) as _exhausted:").replace("                    yield (\n", "                    current_params = self.params_with_operation_type()\n                    yield (\n")
      .replace("                        self.params_with_operation_type(),\n", "                        current_params,\n")),
    V("generator: faults of the parameter source are re-raised as they are by an explicit handler", "keep", _D, "        p = self.params.params()\n",
      "        try:\n            p = self.params.params()\n        except RuntimeError:\n            raise\n"),
    # O5.5 (seed m15): the choice depends on the four fields of the property only, evaluated on a task as the loader constructs it (all attributes of track.Task present)
    V("seed m15: the first check reads the ramp-up period instead of the time period", "break", _D, "    if task.warmup_time_period is not None or task.time_period is not None:\n        return True",
      "    if task.warmup_time_period is not None or task.ramp_up_time_period is not None:\n        return True", "O5.5"),
    V("the first check reads the ramp-up period instead of the warm-up period", "break", _D, "    if task.warmup_time_period is not None or task.time_period is not None:\n        return True",
      "    if task.ramp_up_time_period is not None or task.time_period is not None:\n        return True", "O5.5"),
    V("time-based only when BOTH periods are given", "break", _D, "    if task.warmup_time_period is not None or task.time_period is not None:\n        return True",
      "    if task.warmup_time_period is not None and task.time_period is not None:\n        return True", "O5.5"),
    V("a ramp-up period makes a task with explicit iterations time-based... never: the check is guarded by the warm-up period (redundant operand)", "keep", _D,
      "    if task.warmup_time_period is not None or task.time_period is not None:\n        return True",
      "    if task.warmup_time_period is not None or task.time_period is not None or (task.ramp_up_time_period is not None and task.warmup_time_period is not None):\n        return True"),
    V("the choice reads other attributes of the task for a log line", "keep", _D, "    if task.warmup_time_period is not None or task.time_period is not None:\n        return True",
      "    periods = (task.warmup_time_period, task.time_period)\n    if task.clients > 1 and not task.completes_parent:\n        logging.getLogger(__name__).debug(\"choosing the loop control of [%s]\", task.name)\n"
      "    if any(p is not None for p in periods):\n        return True"),
    # ---- round 6: m16 (ramp-up wrap-around), m17 (period 0 counts as infinite), m18 (stated iterations dropped for a finite parameter source) -------------------------
    V("seed m16: the client position is reduced modulo the number of clients", "break", _D,
      "            return ramp_up_time_period * (self.task_allocation.global_client_index / self.task_allocation.total_clients)\n",
      "            total_clients = self.task_allocation.total_clients\n            return ramp_up_time_period * ((self.task_allocation.global_client_index % total_clients) / total_clients)\n", "O5.4"),
    V("the ramp-up delay is capped at the ramp-up period", "break", _D,
      "            return ramp_up_time_period * (self.task_allocation.global_client_index / self.task_allocation.total_clients)\n",
      "            return min(ramp_up_time_period, ramp_up_time_period * (self.task_allocation.global_client_index / self.task_allocation.total_clients))\n", "O5.4"),
    V("the client position is clamped to the last client of the element", "break", _D,
      "            return ramp_up_time_period * (self.task_allocation.global_client_index / self.task_allocation.total_clients)\n",
      "            position = min(self.task_allocation.global_client_index, self.task_allocation.total_clients - 1)\n            return ramp_up_time_period * (position / self.task_allocation.total_clients)\n", "O5.4"),
    V("ramp-up delay respelled with locals, multiplication first", "keep", _D,
      "            return ramp_up_time_period * (self.task_allocation.global_client_index / self.task_allocation.total_clients)\n",
      "            position, total = self.task_allocation.global_client_index, self.task_allocation.total_clients\n            return (ramp_up_time_period * position) / total\n"),
    V("seed m17: TimePeriodBased.infinite tests the truth value of the period", "break", _D, "        return self._time_period is None\n", "        return not self._time_period\n", "O5.2"),
    V("TimePeriodBased.infinite: a non-positive period counts as absent", "break", _D, "        return self._time_period is None\n",
      "        return self._time_period is None or self._time_period <= 0\n", "O5.2"),
    V("schedule_for turns a period of 0 into no period", "break", _D, "        loop_control = TimePeriodBased(warmup_time_period, task.time_period)\n",
      "        loop_control = TimePeriodBased(warmup_time_period, task.time_period or None)\n", "O5.5"),
    V("TimePeriodBased.infinite as an if", "keep", _D, "        return self._time_period is None\n", "        if self._time_period is None:\n            return True\n        return False\n"),
    V("IterationBased.infinite tests the truth value of the count", "break", _D, "        return self._iterations is None\n", "        return not self._iterations\n", "O5.1"),
    V("IterationBased.infinite as an if", "keep", _D, "        return self._iterations is None\n", "        if self._iterations is None:\n            return True\n        return False\n"),
    V("seed m18: the iteration cascade condensed into one conditional expression (precedence)", "break", _D,
      "        if task.iterations:\n            iterations = task.iterations\n        elif params_for_op.infinite:\n            # this is usually the case if the parameter source provides a constant\n            iterations = 1\n        else:\n            iterations = None\n",
      "        iterations = task.iterations or 1 if params_for_op.infinite else None\n", "O5.5"),
    V("stated iterations honoured only when the runner does not report completion", "break", _D,
      "        if task.iterations:\n            iterations = task.iterations\n        elif params_for_op.infinite:\n",
      "        if task.iterations and runner_for_op.completed is None:\n            iterations = task.iterations\n        elif params_for_op.infinite:\n", "O5.5"),
    V("the parameter source is asked first", "break", _D,
      "        if task.iterations:\n            iterations = task.iterations\n        elif params_for_op.infinite:\n            # this is usually the case if the parameter source provides a constant\n            iterations = 1\n        else:\n            iterations = None\n",
      "        if not params_for_op.infinite:\n            iterations = None\n        elif task.iterations:\n            iterations = task.iterations\n        else:\n            iterations = 1\n", "O5.5"),
    V("the iteration cascade as one conditional expression, parenthesised as meant", "keep", _D,
      "        if task.iterations:\n            iterations = task.iterations\n        elif params_for_op.infinite:\n            # this is usually the case if the parameter source provides a constant\n            iterations = 1\n        else:\n            iterations = None\n",
      "        iterations = task.iterations or (1 if params_for_op.infinite else None)\n"),
]
